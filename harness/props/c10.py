"""C10 - connection life cycle monotone, registry exact (spec: ConnLifecycle).

Direction A: every edge of the one-connection state graph of ConnLifecycle (plus simulated behaviours of the
two-connection model in the thorough tier) is turned into a stimulus schedule and executed on a real
`Network` (with its real PeerConnection / ListeningConnection / ServerConnection objects) over harness.simnet
in virtual time.  Direction B: what was observed at the public surfaces (ConnectionStateChangedEvent stream,
Network.peer_connections, MessageReceivedEvents, bytes handed to the link) is judged by TLC with
ConnLifecycleTrace.  Hand-written scenarios (race-mode connects, Network.disconnect, the whole client) are
recorded and judged the same way.
"""
from __future__ import annotations

import asyncio
import copy
import random
import re
import shutil
import struct
import tempfile
from typing import ClassVar  # noqa: F401  (dataclasses resolves the string annotation in this module)

from .. import simnet, simserver, tlc, vloop
from ..core import Check, MachineryFailure

SPEC = 'ConnLifecycle/ConnLifecycle.tla'
TRACE = 'ConnLifecycle/ConnLifecycleTrace.tla'
MAX_CONNS = 24                      # ids per trace (ints in the TLA+ records)
LISTEN, LISTEN_OBF = 61000, 61001

EXPECT_ACTIONS = ['OutCreate', 'ServerConnect', 'ConnectBegin', 'ReportDone', 'ConnectOk', 'ConnectFail',
                  'ConnectCancelledOpen', 'ConnectCancelledReport', 'ConnectCancelledInDisconnect',
                  'InitWrite', 'DrainResume', 'DrainTimeout', 'ConnectCancelledDrain', 'InitSent', 'InAccept',
                  'InitOk', 'InitFails', 'AcceptFinish', 'Deliver', 'Send', 'SendBlocked', 'SendResume',
                  'SendWakeError', 'WriteTimeout', 'WriteError', 'ReadEnds', 'Disconnect', 'DiscGo', 'DisconnectEnd',
                  'DiscDone']

_LABEL = re.compile(r'^(\w+)\((.*)\)$')


def parse_label(label: str):
    m = _LABEL.match(label.strip())
    if not m:
        return label.strip(), []
    args = []
    for a in m.group(2).split(','):
        a = a.strip()
        if a.startswith('"'):
            args.append(a.strip('"'))
        elif a:
            args.append(int(a))
    return m.group(1), args


# ---------------------------------------------------------------------------
# observation
# ---------------------------------------------------------------------------

class TooManyConnections(Exception):
    pass


class Recorder:
    """Observes one Network at its public surfaces and writes the event records of ConnLifecycleTrace."""

    def __init__(self, loop, net: simnet.SimNet, network, bus):
        from aioslsk.events import ConnectionStateChangedEvent, MessageReceivedEvent
        from aioslsk.network.connection import DataConnection, PeerConnection, ServerConnection
        self._DC, self._PC, self._SC = DataConnection, PeerConnection, ServerConnection
        self._CSE = ConnectionStateChangedEvent
        self.loop, self.net, self.network = loop, net, network
        self.objs: list = []                 # id = index + 1; strong references (ids are never reused)
        self.kinds: list[str] = []
        self.obfs: list[bool] = []
        self.events: list[dict] = []
        self.links: dict[int, tuple] = {}    # id -> (link, side)
        self.att_fn: dict[int, object] = {}  # id -> callable returning none|running|gone|unknown
        self.last: dict[int, str] = {}       # id -> last reported state
        self._unowned: list[tuple] = []      # (link, side) whose owner is not known yet
        self._owner: dict[tuple, int] = {}
        self.closed_at: dict[int, int] = {}  # id -> index of its CLOSED record
        self.held_fn = None                  # callable(connection object) -> a report of it is held by the slow listener
        self.wires: dict[int, int] = {}      # id -> number of wire records so far
        self._bus = simserver.BusRecorder(bus, ConnectionStateChangedEvent, MessageReceivedEvent,
                                          project=self._on_event)
        prev = net.on_link

        def on_link(link, _prev=prev):
            if _prev:
                _prev(link)
            self._on_link(link)
        net.on_link = on_link

    # -- ids -------------------------------------------------------------
    def idx(self, obj) -> int:
        for i, o in enumerate(self.objs):
            if o is obj:
                return i + 1
        if len(self.objs) >= MAX_CONNS:
            raise TooManyConnections()
        self.objs.append(obj)
        self.kinds.append('server' if isinstance(obj, self._SC) else 'in' if getattr(obj, 'incoming', False) else 'out')
        self.obfs.append(bool(getattr(obj, 'obfuscated', False)) and not isinstance(obj, self._SC))
        return len(self.objs)

    def reg(self) -> list[int]:
        return [self.idx(c) for c in self.network.peer_connections]

    # -- bus ---------------------------------------------------------------
    def _on_event(self, event):
        conn = event.connection
        if not isinstance(conn, self._DC):
            return None                       # listening connections are outside the property
        i = self.idx(conn)
        if isinstance(event, self._CSE):
            self.last[i] = event.state.name
            self.events.append(dict(ev='state', c=i, st=_st(event.state.name), reason=event.close_reason.name,
                                    reg=self.reg()))
            if event.state.name == 'CLOSED':
                self.closed_at.setdefault(i, len(self.events) - 1)
        else:
            self.events.append(dict(ev='deliver', c=i, msg=type(event.message).__qualname__, reg=self.reg()))
        return None

    # -- links ---------------------------------------------------------------
    def _on_link(self, link):
        orig = link._deliver

        def deliver(from_side, data, _orig=orig, _link=link):
            if data and not _link.dead:
                i = self.owner(_link, from_side)
                if i:
                    self.wires[i] = self.wires.get(i, 0) + 1
                    self.events.append(dict(ev='wire', c=i, n=len(data), reg=self.reg()))
            _orig(from_side, data)
        link._deliver = deliver
        # connector side: the connection that is opening a socket to this address right now
        host, port = link.addr[1]
        cands = [self.network.server_connection] + list(self.network.peer_connections) + list(self.objs)
        for c in cands:
            if (isinstance(c, self._DC) and not getattr(c, 'incoming', False) and c.hostname == host
                    and c.port == port and self._free(c)):
                i = self.idx(c)
                self.links[i] = (link, 0)
                self._owner[(link.id, 0)] = i
                break
        self._unowned.append((link, 1))

    def _free(self, obj) -> bool:
        """No link yet, or (server reconnect) the previous one is closed."""
        for i, o in enumerate(self.objs):
            if o is obj:
                cur = self.links.get(i + 1)
                return cur is None or cur[0].writers[cur[1]]._closing or cur[0].dead
        return True

    def owner(self, link, side) -> int:
        key = (link.id, side)
        if key in self._owner:
            return self._owner[key]
        if side == 1:
            host, port = link.addr[0]
            for c in list(self.network.peer_connections) + list(self.objs):
                if isinstance(c, self._PC) and c.incoming and c.hostname == host and c.port == port:
                    i = self.idx(c)
                    self.links[i] = (link, 1)
                    self._owner[key] = i
                    return i
        return 0

    def _resolve(self):
        for link, side in list(self._unowned):
            if self.owner(link, side):
                self._unowned.remove((link, side))

    # -- quiescent points --------------------------------------------------------
    def _att(self, i) -> str:
        fn = self.att_fn.get(i)
        if fn is not None:
            return fn()
        if self.kinds[i - 1] == 'in' and i in self.links:
            name = f'sim-accept-{self.links[i][0].id}'
            alive = any(t.get_name() == name and not t.done() for t in asyncio.all_tasks(self.loop))
            return 'running' if alive else 'gone'
        return 'unknown'

    def _sock(self, i) -> str:
        if i not in self.links:
            return 'none' if self.kinds[i - 1] != 'in' else 'unknown'
        link, side = self.links[i]
        w = link.writers[side]
        if not w._closing:
            return 'open'
        if w._wc_gate is not None and not w._wc_gate.done():
            return 'closing'
        return 'closed'

    def quiescent(self):
        reg = self.reg()
        self._resolve()
        n = len(self.objs)
        self.events.append(dict(ev='q', reg=reg, att=[self._att(i) for i in range(1, n + 1)],
                                sock=[self._sock(i) for i in range(1, n + 1)],
                                held=[bool(self.held_fn and self.held_fn(self.objs[i - 1])) for i in range(1, n + 1)]))

    def sent(self, i, res, wrote):
        if i:
            self.events.append(dict(ev='sent', c=i, res=res, wrote=bool(wrote), reg=self.reg()))

    def stim(self, what: str, **kw):
        self.events.append(dict(ev='stim', what=what, **{k: v for k, v in kw.items() if v is not None}))

    def reports(self, i) -> list[str]:
        return [e['st'] for e in self.events if e['ev'] == 'state' and e['c'] == i]

    def finalize(self) -> list[dict]:
        n = len(self.objs)
        out = [dict(ev='init', n=n, kind=list(self.kinds), obf=list(self.obfs))]
        for e in self.events:
            e = dict(e)
            if e['ev'] == 'q':
                e['att'] = e['att'] + ['none'] * (n - len(e['att']))
                e['sock'] = e['sock'] + ['none'] * (n - len(e['sock']))
                e['held'] = e['held'] + [False] * (n - len(e['held']))
            out.append(e)
        return out


def _st(name: str) -> str:
    return 'UNINIT' if name == 'UNINITIALIZED' else name


# ---------------------------------------------------------------------------
# the world: a real Network, a scripted server, scripted peers
# ---------------------------------------------------------------------------

_PROBE_CLS = {}


def probe_init_message():
    """A third peer-initialisation message, so that the `else` branch of on_peer_accepted (a decodable
    but unexpected init message) can be reached.  Lives in the harness process only."""
    from aioslsk.protocol import messages as M
    key = id(M)
    if key not in _PROBE_CLS:
        from dataclasses import dataclass, field
        from aioslsk.protocol.primitives import MessageDataclass, uint8, uint32

        class VerifProbeInit(M.PeerInitializationMessage):
            @dataclass(order=True, slots=True)
            class Request(MessageDataclass):
                MESSAGE_ID: ClassVar[uint8] = uint8(0x7E)
                value: int = field(metadata={'type': uint32})
        _PROBE_CLS[key] = VerifProbeInit
    return _PROBE_CLS[key]


class SlowListener:
    """An application listener of ConnectionStateChangedEvent that is a coroutine and suspends: while `active`, the
    report of every peer/server connection (except those in `exclude`) is held until the driver releases it.  It is
    registered after the Recorder, which therefore sees each report when it is made."""

    def __init__(self, loop, bus):
        from aioslsk.events import ConnectionStateChangedEvent
        from aioslsk.network.connection import DataConnection
        self._DC = DataConnection
        self.loop = loop
        self.active = False
        self.only = None              # None: every state; else a set of state names to hold
        self.listening = False        # also hold the reports of listening connections
        self.exclude: list = []
        self.held: list = []          # (connection, state name, future) in report order
        self._cb = self._on_event     # strong reference: the bus holds listeners weakly
        bus.register(ConnectionStateChangedEvent, self._cb)

    async def _on_event(self, event):
        conn = event.connection
        if not self.active or any(conn is x for x in self.exclude):
            return
        if not isinstance(conn, self._DC) and not self.listening:
            return
        if self.only is not None and event.state.name not in self.only:
            return
        fut = self.loop.create_future()
        entry = (conn, event.state.name, fut)
        self.held.append(entry)
        try:
            await fut
        finally:
            if entry in self.held:
                self.held.remove(entry)

    def holds(self, conn) -> bool:
        return any(c is conn and not f.done() for c, _, f in self.held)

    def release(self, conn, states) -> bool:
        for c, st, f in list(self.held):
            if (conn is None or c is conn) and st in states and not f.done():
                f.set_result(None)
                return True
        return False

    def release_all(self):
        self.active = False
        for _, _, f in list(self.held):
            if not f.done():
                f.set_result(None)


def install_backpressure(w):
    """Give a SimWriter the drain() of a real transport under back-pressure: while `paused`, drain() blocks; it
    returns when the driver resumes the writer and raises ConnectionResetError when the driver wakes it with an
    error - which is what asyncio does to drain waiters once the connection is lost or closed."""
    if getattr(w, '_c10_waiters', None) is not None:
        return
    w._c10_waiters = []

    async def drain():
        if w.fail_writes is not None:
            raise w.fail_writes
        if w.link.reset[w.side] is not None:
            raise w.link.reset[w.side]
        if w.paused:
            if w._closing or w.link.dead:
                raise ConnectionResetError('Connection lost')
            fut = asyncio.get_running_loop().create_future()
            w._c10_waiters.append(fut)
            await fut
        else:
            await asyncio.sleep(0)

    def wake(error: bool):
        w.paused = False
        waiters, w._c10_waiters[:] = list(w._c10_waiters), []
        for fut in waiters:
            if fut.done():
                continue
            if error:
                fut.set_exception(ConnectionResetError('Connection lost'))
            else:
                fut.set_result(None)
        return bool(waiters)
    w.drain = drain
    w.c10_wake = wake


def wake_writer(w, error=None) -> bool:
    """Resume blocked drain() calls: normally while the transport is open, with an error once it is closed / lost."""
    if getattr(w, 'c10_wake', None) is None:
        w.resume()
        return False
    if error is None:
        error = bool(w._closing or w.link.dead)
    return w.c10_wake(error)


DISCOVERY = dict(probes=0, found=0)      # health of the structural attempt discovery (see attempt_task)


def task_references(task, obj, depth=24) -> bool:
    """Does the coroutine stack of `task` (its coroutine and the chain of awaited coroutines) hold `obj` in a frame's
    locals?  Structural: independent of task names, attribute names and function names of the code under test."""
    try:
        coro = task.get_coro()
    except Exception:
        return False
    for _ in range(depth):
        if coro is None:
            return False
        frame = getattr(coro, 'cr_frame', None) or getattr(coro, 'gi_frame', None) or getattr(coro, 'ag_frame', None)
        if frame is not None:
            try:
                if any(v is obj for v in frame.f_locals.values()):
                    return True
            except Exception:
                pass
        coro = (getattr(coro, 'cr_await', None) or getattr(coro, 'gi_yieldfrom', None)
                or getattr(coro, 'ag_await', None))
    return False


def attempt_task(loop, before, conn, exclude=()):
    """The task the library started for an attempt, found without knowing its name: a task that did not exist in the
    snapshot `before` the stimulus and whose coroutine stack references the connection; if no stack can be attributed,
    the only new task.  None when it cannot be determined (the attempt is then 'unknown' and only the observable half
    of RegistryExact is judged)."""
    new = [t for t in asyncio.all_tasks(loop)
           if t not in before and not t.done() and not any(t is x for x in exclude)
           and not t.get_name().startswith('sim-accept-')]        # (harness.simnet's own accept tasks)
    if conn is not None:
        ref = [t for t in new if task_references(t, conn)]
        if ref:
            return ref[0]
    return new[0] if len(new) == 1 else None


class ModelConn:
    def __init__(self, c, kind, obf):
        self.c, self.kind, self.obf = c, kind, obf
        self.via = 'api'
        self.typ = 'P'
        self.user = f'peer{c}'
        self.ip = f'10.0.0.{c}'
        self.port = 7000 + 10 * c
        self.task = None
        self.conn = None          # the real connection object
        self.rid = 0              # its id in the trace
        self.link = None
        self.side = 0
        self.ep = None            # scripted end of the link
        self.arm = {}             # writer flags to set when the link appears


class World:
    def __init__(self, loop, chk_rng, *, connect_mode='fallback', server_auto=True, hold=True, burst=0.0,
                 slow=False, prefer_obf=False, netdisc=False):
        self.loop = loop
        self.prefer_obf = prefer_obf   # settings.network.peer.obfuscate: which of two advertised ports is tried
        self.netdisc = netdisc         # the first Disconnect of a peer connection is issued as Network.disconnect()
        self.slow = slow            # the slow listener holds every report of the model connections
        self.burst = burst          # probability that the next stimulus follows without letting the loop settle
        self.rng = chk_rng
        self.connect_mode = connect_mode
        self.server_auto = server_auto
        self.hold = hold
        self.gates: dict[int, asyncio.Future] = {}
        self.mcs: dict[int, ModelConn] = {}
        self.by_port: dict[int, ModelConn] = {}
        self.side_tasks: list = []
        self.srv_att = 'none'
        self.srv_task = None

    async def start(self):
        from aioslsk.events import EventBus
        from aioslsk.network.network import Network
        from aioslsk.protocol import messages as M
        self.M = M
        self.net = simnet.SimNet(self.loop).install()
        self.net.policy = lambda host, port: ('gate', self.gates[port]) if port in self.gates else 'ok'
        self.settings = simserver.make_settings('me', port=LISTEN, obfuscated_port=LISTEN_OBF,
                                                network=dict(peer=dict(connect_mode=self.connect_mode,
                                                                       obfuscate=self.prefer_obf)))
        self.bus = EventBus()
        self.network = Network(self.settings, self.bus)
        self.rec = Recorder(self.loop, self.net, self.network, self.bus)
        self.listener = SlowListener(self.loop, self.bus)
        self.rec.held_fn = self.listener.holds
        prev = self.net.on_link

        def on_link(link, _prev=prev):
            _prev(link)
            self._arm_link(link)
        self.net.on_link = on_link
        self.server = await simserver.ScriptedServer(self.net).start()
        await self.network.connect_listening_ports()
        sid = self.rec.idx(self.network.server_connection)
        self.rec.att_fn[sid] = lambda: self.srv_att if self.srv_task is None or not self.srv_task.done() else 'gone'
        if self.server_auto:
            self.srv_att = 'running'
            self.srv_task = asyncio.create_task(self._server_connect())
            await vloop.settle(self.loop)
        if self.slow:
            if self.server_auto:
                self.listener.exclude.append(self.network.server_connection)
            self.listener.active = True
        self.rec.quiescent()
        return self

    def stop(self):
        self.net.uninstall()

    async def _server_connect(self):
        try:
            await self.network.connect_server()
        except Exception as exc:            # an observation, the trace shows CLOSING/CLOSED
            self.rec.stim('connect_server raised', exc=type(exc).__name__)
            return
        self.network.server_connection.start_reader_task()

    # -- links of model connections ------------------------------------------
    def _arm_link(self, link):
        port = link.addr[1][1]
        mc = self.by_port.get(port)
        if mc is not None and mc.link is None and mc.kind in ('out', 'server'):
            mc.link, mc.side = link, 0
            self._apply_arm(mc)

    def _apply_arm(self, mc):
        w = mc.link.writers[mc.side]
        install_backpressure(w)
        if self.hold:
            w.hold_wait_closed = True
        if mc.arm.get('paused'):
            w.paused = True
        if mc.arm.get('fail'):
            w.fail_writes = ConnectionResetError(104, 'Connection reset by peer')

    def writer(self, mc):
        return mc.link.writers[mc.side] if mc.link is not None else None

    def adopt_new(self, mc):
        """The connection object the code created for this model connection: a new registry member or a
        connection that has reported a state (the registry must not be the only way to learn about it, or a
        connection that is wrongly missing from it would have no known attempt)."""
        if mc.conn is not None:
            return
        known = {id(m.conn) for m in self.mcs.values() if m.conn is not None}
        for c in self.known_peer_connections():
            if id(c) in known:
                continue
            if mc.kind == 'out' and not c.incoming and c.port in (mc.port, mc.port + 1):
                mc.conn = c
            elif mc.kind == 'in' and c.incoming and mc.link is not None and (c.hostname, c.port) == mc.link.addr[0]:
                mc.conn = c
            if mc.conn is not None:
                mc.rid = self.rec.idx(c)
                return

    def known_peer_connections(self):
        seen, out = set(), []
        for c in list(self.network.peer_connections) + list(self.rec.objs):
            if id(c) not in seen and isinstance(c, self.rec._PC):
                seen.add(id(c))
                out.append(c)
        return out

    # -- helpers ---------------------------------------------------------------
    def msg_for(self, mc):
        M = self.M
        if mc.kind == 'server':
            return M.Ping.Request()
        return M.PeerUserInfoRequest.Request() if mc.typ == 'P' else M.DistributedBranchLevel.Request(3)

    def inbound_for(self, mc):
        M = self.M
        if mc.kind == 'server':
            return M.ParentMinSpeed.Response(5)
        return M.PeerUserInfoRequest.Request() if mc.typ == 'P' else M.DistributedBranchLevel.Request(2)

    def remote_send(self, mc, msg=None, raw=None):
        """The scripted end of the model connection's link writes a frame."""
        ep = mc.ep
        if ep is None and mc.kind == 'server' and self.server.sessions:
            ep = self.server.sessions[-1].ep
        if ep is None or ep.writer.is_closing() or ep.link.dead:
            return False
        obf = bool(mc.conn.obfuscated) if (mc.conn is not None and mc.kind != 'server') else (mc.obf and mc.kind != 'server')
        if raw is not None:
            if obf:
                from aioslsk.protocol import obfuscation
                raw = obfuscation.encode(raw)
            ep.send(raw)
        else:
            ep.send_message(msg, obfuscated=obf)
        return True

    def remote_ep(self, mc):
        if mc.ep is not None:
            return mc.ep
        if mc.kind == 'server' and self.server.sessions:
            return self.server.sessions[-1].ep
        return None

    def observe_sends(self, conn):
        """Record how every send_message of this connection ends, at the moment it returns (a caller that awaits it
        through gather() / a queued task learns of it one or two loop slots later)."""
        if conn is None or getattr(conn, '_c10_send_observed', False):
            return
        conn._c10_send_observed = True
        orig = conn.send_message
        rec = self.rec

        async def send_message(message):
            rid = rec.idx(conn)
            w0 = rec.wires.get(rid, 0)
            try:
                res = await orig(message)
            except asyncio.CancelledError:
                rec.sent(rid, 'cancelled', rec.wires.get(rid, 0) > w0)
                raise
            except Exception:
                rec.sent(rid, 'raised', rec.wires.get(rid, 0) > w0)
                raise
            rec.sent(rid, 'ok', rec.wires.get(rid, 0) > w0)
            return res
        conn.send_message = send_message

    async def _send(self, mc, queued=False):
        """One send through the public API (how it ended is recorded by observe_sends)."""
        self.observe_sends(mc.conn)
        try:
            if mc.kind == 'server':
                await self.network.send_server_messages(self.msg_for(mc))
            elif queued:
                await mc.conn.queue_message(self.msg_for(mc))
            else:
                await mc.conn.send_message(self.msg_for(mc))
        except asyncio.CancelledError:
            pass
        except Exception as exc:
            self.rec.stim('send raised', c=mc.rid, exc=type(exc).__name__)

    def spawn(self, coro):
        t = asyncio.create_task(coro)
        self.side_tasks.append(t)
        return t

    async def expect_ticket(self):
        """Make the Network wait for an indirect connection (public API: create_peer_connection to a user
        the server has no address for) and return the ticket it told the server."""
        M = self.M
        n0 = len(self.server.requests(M.ConnectToPeer.Request))

        async def req():
            try:
                await self.network.create_peer_connection('nat-user', 'P')
            except Exception:
                pass
        self.spawn(req())
        await vloop.settle(self.loop)
        reqs = self.server.requests(M.ConnectToPeer.Request)
        if len(reqs) <= n0:
            return None
        return reqs[-1].ticket

    # -- actions of the design spec -> stimuli ---------------------------------------
    async def act(self, label: str) -> bool:
        """Apply the stimulus for one model action.  Returns False for internal actions (no stimulus)."""
        name, args = parse_label(label)
        mc = self.mcs.get(args[0]) if args else None
        fn = getattr(self, 'a_' + name, None)
        if fn is None or mc is None:
            return False
        self.rec.stim(label)
        done = await fn(mc, *args[1:])
        if done is False:
            self.rec.events.pop()
            return False
        if self.burst and self.rng.random() < self.burst:
            return True                     # sub-slot schedule: the next stimulus lands in the same loop slot
        await vloop.settle(self.loop)
        self.adopt_new(mc)
        self.rec.quiescent()
        return True

    async def a_OutCreate(self, mc, via=None):
        M = self.M
        if via is not None:
            mc.via = via
        port = mc.port + (1 if mc.obf else 0)
        self.gates[port] = self.loop.create_future()
        sconn = self.network.server_connection
        server_up = sconn.state.name == 'CONNECTED' and bool(self.server.sessions)
        if mc.via == 'resolve' and not server_up:
            mc.via = 'api'
        # the peer listens on the port that will be tried (gated: the behaviour decides its fate); when the address is
        # resolved through the server and both ports are advertised, the other port is reachable as well
        ports = [port]
        if mc.via == 'resolve':
            both = (self.prefer_obf == mc.obf)
            self.server.addresses[mc.user] = (mc.ip, mc.port if (both or not mc.obf) else 0,
                                              mc.port + 1 if (both or mc.obf) else 0)
            if both:
                ports = [mc.port, mc.port + 1]
        for p in ports:
            self.by_port[p] = mc
            peer = simserver.ScriptedPeer(self.net, mc.user, p)
            peer.on_accept = lambda ep, _mc=mc: setattr(_mc, 'ep', ep)
            await peer.listen()
        if mc.via == 'ctp' and server_up:
            before = set(asyncio.all_tasks(self.loop))
            self.server.sessions[-1].send(M.ConnectToPeer.Response(
                mc.user, mc.typ, mc.ip, 0 if mc.obf else mc.port, 4000 + mc.c, False,
                obfuscated_port_amount=1 if mc.obf else 0, obfuscated_port=port if mc.obf else 0))
            await vloop.settle(self.loop)
            self.adopt_new(mc)
            mc.task = attempt_task(self.loop, before, mc.conn)
        else:
            if mc.via != 'resolve':
                mc.via = 'api'
            resolve = mc.via == 'resolve'

            async def req():
                try:
                    if resolve:         # the address comes from the server (GetPeerAddress), the port from select_port
                        return await self.network.create_peer_connection(mc.user, mc.typ)
                    return await self.network.create_peer_connection(mc.user, mc.typ, ip=mc.ip, port=port,
                                                                     obfuscate=mc.obf)
                except asyncio.CancelledError:
                    raise
                except Exception as exc:
                    self.rec.stim('create_peer_connection raised', exc=type(exc).__name__)
            mc.task = asyncio.create_task(req())
            await vloop.settle(self.loop)
            self.adopt_new(mc)
            if mc.conn is not None and not mc.task.done():
                # health probe of the structural discovery on an attempt the driver knows: its own task
                DISCOVERY['probes'] += 1
                DISCOVERY['found'] += int(task_references(mc.task, mc.conn))
        self.adopt_new(mc)
        if mc.rid:
            task = mc.task
            self.rec.att_fn[mc.rid] = (lambda: 'unknown') if task is None else \
                (lambda: 'gone' if task.done() else 'running')

    async def a_ServerConnect(self, mc):
        if self.network.server_connection.state.name not in ('UNINITIALIZED', 'CLOSED') or \
                (self.srv_task is not None and not self.srv_task.done()):
            return False                    # connect_server() is only called on a connection that is not open
        self.gates[simserver.SERVER_PORT] = self.loop.create_future()
        self.by_port[simserver.SERVER_PORT] = mc
        mc.conn = self.network.server_connection
        mc.rid = self.rec.idx(mc.conn)
        mc.link = None
        mc.ep = None
        self.srv_att = 'running'
        self.srv_task = mc.task = asyncio.create_task(self._server_connect())

    async def a_ConnectOk(self, mc):
        port = simserver.SERVER_PORT if mc.kind == 'server' else mc.port + (1 if mc.obf else 0)
        g = self.gates.get(port)
        if g is None or g.done():
            return False
        g.set_result('ok')

    async def a_ConnectFail(self, mc):
        port = simserver.SERVER_PORT if mc.kind == 'server' else mc.port + (1 if mc.obf else 0)
        g = self.gates.get(port)
        if g is None or g.done():
            return False
        if self.rng.random() < 0.5:
            g.set_result('refuse')
        else:
            await asyncio.sleep((30 if mc.kind == 'server' else 10) + 0.5)

    async def a_ConnectCancelledOpen(self, mc):
        if mc.task is None or mc.task.done():
            return False
        mc.task.cancel()

    a_ConnectCancelledDrain = a_ConnectCancelledOpen
    a_ConnectCancelledReport = a_ConnectCancelledOpen
    a_ConnectCancelledInDisconnect = a_ConnectCancelledOpen

    def _real(self, mc):
        if mc.conn is None:
            self.adopt_new(mc)
        return mc.conn

    async def a_ReportDone(self, mc):
        conn = self._real(mc)
        if conn is None or not self.listener.release(conn, ('CONNECTING', 'CONNECTED')):
            return False

    async def a_DiscGo(self, mc):
        conn = self._real(mc)
        if conn is None or not self.listener.release(conn, ('CLOSING',)):
            return False

    async def a_DiscDone(self, mc):
        conn = self._real(mc)
        if conn is None or not self.listener.release(conn, ('CLOSED',)):
            return False

    async def a_DrainResume(self, mc):
        w = self.writer(mc)
        if w is None:
            return False
        wake_writer(w)

    async def wait_timeout(self, mc, seconds, rounds=3):
        """Silence for `seconds` (again if the deadline was shifted by a send) until the connection reacts."""
        before = len(self.rec.reports(mc.rid)) if mc.rid else 0
        for _ in range(rounds):
            await asyncio.sleep(seconds + 0.5)
            await vloop.settle(self.loop)
            if mc.rid and len(self.rec.reports(mc.rid)) > before:
                break

    async def a_DrainTimeout(self, mc):
        await self.wait_timeout(mc, 10, rounds=1)

    a_WriteTimeout = a_DrainTimeout

    async def a_InAccept(self, mc):
        try:
            ep = await self.net.dial(LISTEN_OBF if mc.obf else LISTEN)
        except ConnectionError:
            return False                    # the listening port is closed (after a Network.disconnect())
        mc.ep, mc.link, mc.side = ep, ep.link, 1
        self._apply_arm(mc)

    async def a_InitOk(self, mc, how):
        M = self.M
        if mc.ep is None:
            return False
        if how == 'pierce' and self.network.server_connection.state.name == 'CONNECTED':
            ticket = await self.expect_ticket()
            if ticket is not None:
                mc.ep.send_message(M.PeerPierceFirewall.Request(ticket), obfuscated=mc.obf)
                return
        mc.ep.send_message(M.PeerInit.Request(mc.user, mc.typ, 0), obfuscated=mc.obf)

    async def a_InitFails(self, mc, path):
        M = self.M
        if mc.ep is None:
            return False
        if path == 'eof':
            mc.ep.close()
        elif path == 'readerror':
            if self.rng.random() < 0.5:
                mc.link.cut('reset')
            else:
                mc.ep.send(b'\x09\x00')         # partial header, then EOF
                mc.ep.close()
        elif path == 'timeout':
            self.adopt_new(mc)
            await self.wait_timeout(mc, 60)
        elif path == 'undecodable':
            self.remote_send(mc, raw=struct.pack('<IB', 5, 0x7F) + b'abcd')
        elif path == 'unexpected':
            mc.ep.send_message(probe_init_message().Request(1), obfuscated=mc.obf)
        elif path == 'unknownticket':
            mc.ep.send_message(M.PeerPierceFirewall.Request(987654), obfuscated=mc.obf)

    async def a_Deliver(self, mc):
        if not self.remote_send(mc, self.inbound_for(mc)):
            return False

    async def a_Send(self, mc):
        if mc.conn is None:
            return False
        self.spawn(self._send(mc, queued=mc.kind != 'server' and self.rng.random() < 0.3))

    async def a_SendBlocked(self, mc, how='direct'):
        w = self.writer(mc)
        if mc.conn is None or w is None:
            return False
        w.paused = True
        self.spawn(self._send(mc, queued=(how == 'queued' and mc.kind != 'server')))

    async def a_SendResume(self, mc):
        w = self.writer(mc)
        if w is None:
            return False
        wake_writer(w)

    async def a_SendWakeError(self, mc):
        w = self.writer(mc)
        if w is None:
            return False
        wake_writer(w, error=True)

    async def a_WriteError(self, mc):
        w = self.writer(mc)
        if mc.conn is None or w is None:
            return False
        w.fail_writes = ConnectionResetError(104, 'Connection reset by peer')
        self.spawn(self._send(mc))

    async def a_ReadEnds(self, mc, path):
        ep = self.remote_ep(mc)
        if path == 'eof':
            if ep is None:
                return False
            ep.close()
        elif path == 'readerror':
            if mc.link is None:
                return False
            mc.link.cut('reset')
        else:
            await self.wait_timeout(mc, 600 if mc.kind == 'server' else 60)

    async def a_Disconnect(self, mc):
        from aioslsk.network.connection import CloseReason
        if mc.conn is None:
            return False
        if mc.kind == 'server':
            self.spawn(self.network.disconnect_server())
        elif self.netdisc:
            self.netdisc = False            # once: everything registered now is disconnected, not only this connection
            self.spawn(self.network.disconnect())
        else:
            self.spawn(mc.conn.disconnect(CloseReason.REQUESTED))

    async def a_DisconnectEnd(self, mc):
        w = self.writer(mc)
        if w is None or w._wc_gate is None or w._wc_gate.done():
            return False
        if self.rng.random() < 0.75:
            w.release_wait_closed()
        else:
            await asyncio.sleep(5.5)            # DISCONNECT_TIMEOUT

    # -- after the behaviour ------------------------------------------------------------
    async def epilogue(self):
        rec, loop = self.rec, self.loop
        if self.listener.active or self.listener.held:
            rec.stim('slow listener lets every report go')
            for _ in range(8):
                self.listener.release_all()
                await vloop.settle(loop)
            rec.quiescent()
        # (1) nothing may leave or be delivered on a connection that reported CLOSED
        rec.stim('probe closed connections')
        for mc in self.mcs.values():
            if mc.conn is not None and rec.last.get(mc.rid) == 'CLOSED':
                self.spawn(self._send(mc))
                ep = self.remote_ep(mc)
                if ep is not None and not ep.writer.is_closing() and not ep.link.dead:
                    self.remote_send(mc, self.inbound_for(mc))
        await vloop.settle(loop)
        rec.quiescent()
        # (2) let everything that is still pending run out: holds, blocked writers, timeouts
        rec.stim('release and let timeouts pass')
        for link in self.net.links:
            for w in link.writers:
                w.release_wait_closed()
                wake_writer(w)
        await vloop.settle(loop)
        await asyncio.sleep(700)
        await vloop.settle(loop)
        rec.quiescent()
        # (3) Network.disconnect(): every life ends
        rec.stim('network.disconnect')
        await self.network.disconnect()
        await vloop.settle(loop)
        await asyncio.sleep(10)
        await vloop.settle(loop)
        rec.quiescent()
        for t in self.side_tasks:
            t.cancel()


def replay_behaviour(init_kinds, labels, seed_rng, *, hold, variant):
    """Run one behaviour of the design spec on the real code.  init_kinds: {c: (kind, obf)}."""
    out = {}

    async def main(loop):
        has_server_mc = any(k == 'server' for k, _ in init_kinds.values())
        outs = [obf for k, obf in init_kinds.values() if k == 'out']
        w = World(loop, seed_rng, server_auto=not has_server_mc, hold=hold, burst=variant.get('burst', 0.0),
                  slow=bool(variant.get('slow')), prefer_obf=bool(outs and outs[0]),
                  netdisc=bool(variant.get('netdisc')))
        try:
            await w.start()
            for c, (kind, obf) in init_kinds.items():
                mc = ModelConn(c, kind, obf)
                mc.via = variant.get('via', 'api')
                mc.typ = variant.get('typ', 'P')
                for lab in labels:
                    n, a = parse_label(lab)
                    if n == 'InitWrite' and a[0] == c and a[1] == 'blocked':
                        mc.arm['paused'] = True
                    if n == 'InitWrite' and a[0] == c and a[1] == 'fail':
                        mc.arm['fail'] = True
                w.mcs[c] = mc
            for lab in labels:
                await w.act(lab)
            if w.burst:
                await vloop.settle(loop)
                for mc in w.mcs.values():
                    w.adopt_new(mc)
                w.rec.quiescent()
            out['reports'] = {c: w.rec.reports(mc.rid) if mc.rid else [] for c, mc in w.mcs.items()}
            await w.epilogue()
            out['trace'] = w.rec.finalize()
        finally:
            w.stop()
    _, loop = vloop.run(main)
    out['unhandled'] = len(loop.unhandled)
    return out


# ---------------------------------------------------------------------------
# hand-written scenarios
# ---------------------------------------------------------------------------

async def _scn_race(w: World, which: str):
    """RACE mode connect: 'indirect-wins' = the direct connect hangs and the peer pierces (the direct attempt is
    cancelled at open_connection); 'direct-wins' = the direct connect completes first."""
    M, loop, rec = w.M, w.loop, w.rec
    port = 7100
    w.server.addresses['racer'] = ('10.0.1.1', port, 0)
    if which == 'indirect-wins':
        w.gates[port] = loop.create_future()
    peer = simserver.ScriptedPeer(w.net, 'racer', port)
    await peer.listen()
    rec.stim(f'create_peer_connection race {which}')
    task = asyncio.create_task(w.network.create_peer_connection('racer', 'P'))
    await vloop.settle(loop)
    for c in w.known_peer_connections():        # the direct attempt's connection: opened by `task`
        if not c.incoming:
            rec.att_fn[rec.idx(c)] = lambda: 'gone' if task.done() else 'running'
    rec.quiescent()
    if which == 'indirect-wins':
        reqs = w.server.requests(M.ConnectToPeer.Request)
        if reqs:
            rec.stim('peer pierces')
            await peer.pierce(LISTEN, reqs[-1].ticket)
            await vloop.settle(loop)
            rec.quiescent()
    await asyncio.sleep(1)
    await vloop.settle(loop)
    rec.quiescent()
    if not task.done():
        task.cancel()
    else:
        task.exception() if not task.cancelled() else None
    await asyncio.sleep(100)
    await vloop.settle(loop)
    rec.quiescent()


async def _scn_network_disconnect(w: World, hold: bool):
    """Network.disconnect() while: an API connect is pending, a ConnectToPeer connect is pending, an accepted
    connection waits for its init message, and an initialised connection is open."""
    M, loop, rec = w.M, w.loop, w.rec
    for port in (7200, 7210):
        w.gates[port] = loop.create_future()
        await simserver.ScriptedPeer(w.net, f'p{port}', port).listen()
    rec.stim('api connect pending, ctp connect pending, one accepted, one initialised')
    t1 = asyncio.create_task(w.network.create_peer_connection('p7200', 'P', ip='10.0.2.1', port=7200))
    await asyncio.sleep(0)
    before = set(asyncio.all_tasks(loop))
    w.server.sessions[-1].send(M.ConnectToPeer.Response('p7210', 'P', '10.0.2.2', 7210, 77, False,
                                                        obfuscated_port_amount=0, obfuscated_port=0))
    await vloop.settle(loop)
    for c in w.known_peer_connections():        # both attempts are known: the API caller's task, the connect-back task
        if c.port == 7200:
            rec.att_fn[rec.idx(c)] = lambda: 'gone' if t1.done() else 'running'
        elif c.port == 7210:
            ctp = attempt_task(loop, before, c, exclude=(t1,))
            if ctp is not None:
                rec.att_fn[rec.idx(c)] = lambda t=ctp: 'gone' if t.done() else 'running'
    rec.quiescent()
    ep1 = await w.net.dial(LISTEN)
    ep2 = await w.net.dial(LISTEN_OBF)
    ep2.send_message(M.PeerInit.Request('inpeer', 'P', 0), obfuscated=True)
    await vloop.settle(loop)
    if hold:
        for link in w.net.links:
            link.writers[1].hold_wait_closed = True
    rec.quiescent()
    rec.stim('network.disconnect')
    t2 = asyncio.create_task(w.network.disconnect())
    await vloop.settle(loop)
    rec.quiescent()
    rec.stim('pending connects complete')
    for g in w.gates.values():
        if not g.done():
            g.set_result('ok')
    await vloop.settle(loop)
    rec.quiescent()
    for link in w.net.links:
        for wr in link.writers:
            wr.release_wait_closed()
    await asyncio.sleep(100)
    await vloop.settle(loop)
    rec.quiescent()
    for t in (t1, t2):
        if not t.done():
            t.cancel()
        elif not t.cancelled():
            t.exception()
    del ep1


async def _scn_disconnect_while_connecting(w: World, via: str):
    """Network.disconnect() while one attempt is suspended in open_connection; the TCP connect completes afterwards.
    via 'api': create_peer_connection's direct attempt; via 'ctp': the connect back on a ConnectToPeer."""
    M, loop, rec = w.M, w.loop, w.rec
    port = 7500
    w.gates[port] = loop.create_future()
    peer = simserver.ScriptedPeer(w.net, 'slow', port)
    await peer.listen()
    rec.stim(f'attempt via {via}, connect pending')
    before = set(asyncio.all_tasks(loop))
    if via == 'api':
        task = asyncio.create_task(w.network.create_peer_connection('slow', 'P', ip='10.0.5.1', port=port))
    else:
        w.server.sessions[-1].send(M.ConnectToPeer.Response('slow', 'P', '10.0.5.1', port, 88, False,
                                                            obfuscated_port_amount=0, obfuscated_port=0))
        task = None
    await vloop.settle(loop)
    for c in w.known_peer_connections():
        if c.port == port and task is None:
            task = attempt_task(loop, before, c)
    for c in w.known_peer_connections():
        if c.port == port and task is not None:
            rec.att_fn[rec.idx(c)] = lambda: 'gone' if task.done() else 'running'
    rec.quiescent()
    rec.stim('network.disconnect')
    await w.network.disconnect()
    await vloop.settle(loop)
    rec.quiescent()
    rec.stim('the TCP connect completes')
    if not w.gates[port].done():            # (cancelling the connect-to-peer task cancels the pending connect)
        w.gates[port].set_result('ok')
    await vloop.settle(loop)
    rec.quiescent()
    await asyncio.sleep(100)
    await vloop.settle(loop)
    rec.quiescent()
    if task is not None and not task.done():
        task.cancel()
    elif task is not None and not task.cancelled():
        task.exception()


async def _scn_slow_connecting_report(w: World, how: str):
    """A suspending listener is still handling the CONNECTING report when the connection is disconnected
    (how = 'network': Network.disconnect(), 'conn': connection.disconnect()); then the report ends and the TCP connect
    completes."""
    from aioslsk.network.connection import CloseReason
    loop, rec = w.loop, w.rec
    port = 7600
    peer = simserver.ScriptedPeer(w.net, 'slowrep', port)
    await peer.listen()
    w.listener.exclude.append(w.network.server_connection)
    w.listener.only = {'CONNECTING'}
    w.listener.active = True
    rec.stim('create_peer_connection; the CONNECTING report is held by a listener')
    task = asyncio.create_task(w.network.create_peer_connection('slowrep', 'P', ip='10.0.6.1', port=port))
    await vloop.settle(loop)
    conns = [c for c in w.known_peer_connections() if c.port == port]
    for c in conns:
        rec.att_fn[rec.idx(c)] = lambda: 'gone' if task.done() else 'running'
    rec.quiescent()
    rec.stim(f'disconnect ({how})')
    if how == 'network':
        await w.network.disconnect()
    elif conns:
        await conns[0].disconnect(CloseReason.REQUESTED)
    await vloop.settle(loop)
    rec.quiescent()
    rec.stim('the listener returns')
    w.listener.release_all()
    await vloop.settle(loop)
    rec.quiescent()
    await asyncio.sleep(100)
    await vloop.settle(loop)
    rec.quiescent()
    if not task.done():
        task.cancel()
    elif not task.cancelled():
        task.exception()


async def _scn_slow_closed_report(w: World, how: str):
    """The attempt is cancelled while a suspending listener handles the CLOSED report of its failed connect.
    how = 'api': the caller cancels create_peer_connection to a refused port;  'race': RACE mode, the direct connect
    is refused and is reporting CLOSED when the peer pierces the firewall, so the library cancels the direct task."""
    M, loop, rec = w.M, w.loop, w.rec
    port = 7700
    w.net.policy = lambda host, p, _prev=w.net.policy: 'refuse' if p == port else _prev(host, p)
    w.server.addresses['refuser'] = ('10.0.7.1', port, 0)
    w.listener.exclude.append(w.network.server_connection)
    w.listener.only = {'CLOSED'}
    w.listener.active = True
    rec.stim(f'create_peer_connection ({how}); connect refused; the CLOSED report is held by a listener')
    if how == 'api':
        task = asyncio.create_task(w.network.create_peer_connection('refuser', 'P', ip='10.0.7.1', port=port))
    else:
        task = asyncio.create_task(w.network.create_peer_connection('refuser', 'P'))
    await vloop.settle(loop)
    for c in w.known_peer_connections():
        if c.port == port:
            rec.att_fn[rec.idx(c)] = lambda: 'gone' if task.done() else 'running'
    rec.quiescent()
    if how == 'api':
        rec.stim('the caller cancels the request')
        task.cancel()
    else:
        reqs = w.server.requests(M.ConnectToPeer.Request)
        rec.stim('the peer pierces the firewall: the indirect attempt wins')
        if reqs:
            await simserver.ScriptedPeer(w.net, 'refuser').pierce(LISTEN, reqs[-1].ticket)
    await vloop.settle(loop)
    rec.quiescent()
    rec.stim('the listener returns')
    w.listener.release_all()
    await vloop.settle(loop)
    rec.quiescent()
    await asyncio.sleep(100)
    await vloop.settle(loop)
    rec.quiescent()
    if not task.done():
        task.cancel()
    elif not task.cancelled():
        task.exception()


async def _scn_backpressure(w: World, how: str):
    """A send is blocked in drain() (the peer does not read) when the connection ends: how = 'reset' / 'eof' (the
    reader notices and completes CLOSING, CLOSED first) or 'local' (disconnect() stuck in wait_closed, then the peer
    goes away).  Then the blocked drain() is woken the way a lost connection wakes it."""
    from aioslsk.network.connection import CloseReason
    M, loop, rec = w.M, w.loop, w.rec
    peer = simserver.ScriptedPeer(w.net, 'sink', 7800)
    eps = []
    peer.on_accept = eps.append
    await peer.listen()
    conn = await w.network.create_peer_connection('sink', 'P', ip='10.0.8.1', port=7800)
    await vloop.settle(loop)
    mc = ModelConn(1, 'out', False)
    mc.conn, mc.rid, mc.ep = conn, rec.idx(conn), eps[0]
    mc.link, mc.side = eps[0].link, 0
    wr = mc.link.writers[0]
    install_backpressure(wr)
    rec.quiescent()
    rec.stim('send under back-pressure')
    wr.paused = True
    w.spawn(w._send(mc))
    await vloop.settle(loop)
    rec.quiescent()
    rec.stim(f'the connection ends: {how}')
    if how == 'reset':
        mc.link.cut('reset')
    elif how == 'eof':
        eps[0].close()
    else:
        wr.hold_wait_closed = True
        w.spawn(conn.disconnect(CloseReason.REQUESTED))
        await vloop.settle(loop)
        rec.quiescent()
        mc.link.cut('reset')
        wr.release_wait_closed()
    await vloop.settle(loop)
    rec.quiescent()
    rec.stim('the blocked drain() is woken by the lost connection')
    wake_writer(wr, error=True)
    await vloop.settle(loop)
    rec.quiescent()


async def _scn_two_ports(w: World, unreachable: str):
    """create_peer_connection without an address: the server advertises both of the peer's ports, the preferred one
    (`unreachable` = 'obfuscated' with network.peer.obfuscate, 'regular' without) refuses, the other one is reachable;
    the peer does not answer the ConnectToPeer either."""
    loop, rec = w.loop, w.rec
    base = 7900
    w.server.addresses['twoports'] = ('10.0.9.1', base, base + 1)
    bad = base + 1 if unreachable == 'obfuscated' else base
    w.net.policy = lambda host, p, _prev=w.net.policy: 'refuse' if p == bad else _prev(host, p)
    for p in (base, base + 1):
        await simserver.ScriptedPeer(w.net, 'twoports', p).listen()
    rec.stim(f'create_peer_connection, both ports advertised, the {unreachable} port refuses')
    task = asyncio.create_task(w.network.create_peer_connection('twoports', 'P'))
    await vloop.settle(loop)
    for c in w.known_peer_connections():
        if c.port in (base, base + 1):
            rec.att_fn[rec.idx(c)] = lambda: 'gone' if task.done() else 'running'
    rec.quiescent()
    await asyncio.sleep(70)                 # the indirect attempt times out
    await vloop.settle(loop)
    rec.quiescent()
    if not task.done():
        task.cancel()
    elif not task.cancelled():
        task.exception()


async def _scn_disconnects_with_queued(w: World, second: str):
    """A queued message is still unsent (back-pressure) when a requested disconnect starts; a second disconnect with
    another origin arrives right after it: `second` = 'request' (another caller), 'eof' / 'reset' (the reader)."""
    from aioslsk.network.connection import CloseReason
    M, loop, rec = w.M, w.loop, w.rec
    peer = simserver.ScriptedPeer(w.net, 'qpeer', 8000)
    eps = []
    peer.on_accept = eps.append
    await peer.listen()
    conn = await w.network.create_peer_connection('qpeer', 'P', ip='10.0.10.1', port=8000)
    await vloop.settle(loop)
    w.observe_sends(conn)
    wr = eps[0].link.writers[0]
    install_backpressure(wr)
    rec.quiescent()
    rec.stim('queue_message under back-pressure')
    wr.paused = True
    conn.queue_message(M.PeerUserInfoRequest.Request())
    await vloop.settle(loop)
    rec.quiescent()
    rec.stim(f'disconnect(REQUESTED), then a second disconnect: {second}')
    t1 = asyncio.create_task(conn.disconnect(CloseReason.REQUESTED))
    await vloop.settle(loop)
    rec.quiescent()
    if second == 'request':
        t2 = asyncio.create_task(conn.disconnect(CloseReason.REQUESTED))
    elif second == 'eof':
        eps[0].close()
        t2 = None
    else:
        eps[0].link.cut('reset')
        t2 = None
    await vloop.settle(loop)
    rec.quiescent()
    await asyncio.sleep(3)
    wake_writer(wr)
    await vloop.settle(loop)
    rec.quiescent()
    await asyncio.gather(*[t for t in (t1, t2) if t is not None], return_exceptions=True)


async def _scn_netdisc_concurrent_registration(w: World, kind: str):
    """Network.disconnect() spans time (the wait_closed of an open connection is slow, the listening connections'
    CLOSING reports are held by a listener); meanwhile a new connection is registered: kind = 'out'
    (create_peer_connection completes) or 'in' (a peer is accepted and initialises).  Then Network.disconnect() ends."""
    M, loop, rec = w.M, w.loop, w.rec
    first = simserver.ScriptedPeer(w.net, 'first', 8100)
    await first.listen()
    await w.network.create_peer_connection('first', 'P', ip='10.0.11.1', port=8100)
    await vloop.settle(loop)
    for link in w.net.links:
        link.writers[0].hold_wait_closed = True
    w.listener.exclude.append(w.network.server_connection)
    w.listener.exclude.extend(w.network.peer_connections)
    w.listener.listening = True
    w.listener.only = {'CLOSING'}
    w.listener.active = True
    rec.quiescent()
    rec.stim('network.disconnect (slow)')
    t = asyncio.create_task(w.network.disconnect())
    await vloop.settle(loop)
    w.listener.active = False               # (reports made from now on are not held)
    rec.quiescent()
    rec.stim(f'a new connection is registered meanwhile: {kind}')
    if kind == 'out':
        await simserver.ScriptedPeer(w.net, 'late', 8110).listen()
        t2 = asyncio.create_task(w.network.create_peer_connection('late', 'P', ip='10.0.11.2', port=8110))
        await vloop.settle(loop)
        for c in w.known_peer_connections():
            if c.port == 8110:
                rec.att_fn[rec.idx(c)] = lambda: 'gone' if t2.done() else 'running'
    else:
        t2 = None
        try:
            ep = await w.net.dial(LISTEN)
            ep.send_message(M.PeerInit.Request('latecomer', 'P', 0))
        except ConnectionError:
            rec.stim('the listening port is closed already')
    await vloop.settle(loop)
    rec.quiescent()
    rec.stim('network.disconnect finishes')
    w.listener.release_all()
    for link in w.net.links:
        link.writers[0].release_wait_closed()
    await vloop.settle(loop)
    rec.quiescent()
    await asyncio.sleep(1)
    await vloop.settle(loop)
    rec.quiescent()
    for x in (t, t2):
        if x is not None and x.done() and not x.cancelled():
            x.exception()


async def _scn_concurrent_disconnects(w: World, kind: str):
    """Several callers disconnect the same connection while wait_closed is held and the remote end closes too."""
    from aioslsk.network.connection import CloseReason
    M, loop, rec = w.M, w.loop, w.rec
    if kind == 'in':
        ep = await w.net.dial(LISTEN)
        ep.send_message(M.PeerInit.Request('cc', 'P', 0))
    else:
        peer = simserver.ScriptedPeer(w.net, 'cc', 7300)
        eps = []
        peer.on_accept = eps.append
        await peer.listen()
        await w.network.create_peer_connection('cc', 'P', ip='10.0.3.1', port=7300)
        ep = eps[0]
    await vloop.settle(loop)
    conn = w.network.peer_connections[0]
    side = 1 if kind == 'in' else 0
    ep.link.writers[side].hold_wait_closed = True
    rec.quiescent()
    rec.stim('three disconnect callers + remote EOF + a send, wait_closed held')
    ts = [asyncio.create_task(conn.disconnect(CloseReason.REQUESTED)) for _ in range(3)]
    ep.close()
    ts.append(asyncio.create_task(conn.send_message(M.PeerUserInfoRequest.Request())))
    await vloop.settle(loop)
    rec.quiescent()
    ep.link.writers[side].release_wait_closed()
    await vloop.settle(loop)
    rec.quiescent()
    await asyncio.gather(*ts, return_exceptions=True)


def run_network_scenario(rng, name, fn, **world_kw):
    out = {}

    async def main(loop):
        w = World(loop, rng, **world_kw)
        try:
            await w.start()
            await fn(w)
            w.listener.release_all()
            w.rec.stim('network.disconnect')
            await w.network.disconnect()
            await vloop.settle(loop)
            await asyncio.sleep(10)
            await vloop.settle(loop)
            w.rec.quiescent()
            out['trace'] = w.rec.finalize()
        finally:
            w.stop()
    vloop.run(main)
    return out


def run_client_scenario(rng, tmpdir, faults: bool):
    """The whole SoulSeekClient: login, peers connect in (good and bad initialisation), the client connects out
    (direct, and back on a ConnectToPeer), remote ends close, stop()."""
    out = {}

    async def main(loop):
        from aioslsk.protocol import messages as M
        net = simnet.SimNet(loop).install()
        try:
            server = await simserver.ScriptedServer(net).start()
            settings = simserver.make_settings('me', port=LISTEN, obfuscated_port=LISTEN_OBF, download_dir=tmpdir)
            client = simserver.make_client(settings)
            rec = Recorder(loop, net, client.network, client.events)
            sid = rec.idx(client.network.server_connection)
            rec.att_fn[sid] = lambda: 'unknown'
            await client.start()
            await client.login()
            await vloop.settle(loop)
            rec.quiescent()
            # a peer connects in and talks
            bob = simserver.ScriptedPeer(net, 'bob', 7400)
            bob_eps = []
            bob.on_accept = bob_eps.append
            await bob.listen()
            server.addresses['bob'] = ('10.0.4.1', 7400, 0)
            rec.stim('bob dials in with PeerInit and asks user info')
            ep_in = await bob.dial(LISTEN, typ='P')
            ep_in.send_message(M.PeerUserInfoRequest.Request())
            await vloop.settle(loop)
            await asyncio.sleep(0.5)
            await vloop.settle(loop)
            rec.quiescent()
            if faults:
                rec.stim('a stranger connects and closes before any init; another sends garbage; another an unknown ticket')
                e1 = await net.dial(LISTEN)
                e1.close()
                e2 = await net.dial(LISTEN)
                e2.send(struct.pack('<IB', 5, 0x7F) + b'abcd')
                e3 = await net.dial(LISTEN_OBF)
                e3.send_message(M.PeerPierceFirewall.Request(424242), obfuscated=True)
                await vloop.settle(loop)
                rec.quiescent()
            # the client connects out: to carol directly, back to dave on ConnectToPeer
            carol = simserver.ScriptedPeer(net, 'carol', 7410)
            carol_eps = []
            carol.on_accept = carol_eps.append
            await carol.listen()
            server.addresses['carol'] = ('10.0.4.2', 7410, 0)
            rec.stim('client sends a peer message to carol (direct connect)')
            t = asyncio.create_task(client.network.send_peer_messages('carol', M.PeerUserInfoRequest.Request()))
            await vloop.settle(loop)
            rec.quiescent()
            dave = simserver.ScriptedPeer(net, 'dave', 7420)
            await dave.listen()
            rec.stim('server relays ConnectToPeer from dave')
            server.sessions[-1].send(M.ConnectToPeer.Response('dave', 'P', '10.0.4.3', 7420, 9001, False,
                                                              obfuscated_port_amount=0, obfuscated_port=0))
            await vloop.settle(loop)
            rec.quiescent()
            if faults:
                rec.stim('erin is unreachable: ConnectToPeer to a closed port')
                server.sessions[-1].send(M.ConnectToPeer.Response('erin', 'P', '10.0.4.4', 7430, 9002, False,
                                                                  obfuscated_port_amount=0, obfuscated_port=0))
                await vloop.settle(loop)
                rec.quiescent()
            rec.stim('carol closes, bob resets')
            if carol_eps:
                carol_eps[0].close()
            ep_in.link.cut('reset')
            await vloop.settle(loop)
            rec.quiescent()
            await asyncio.sleep(70)
            await vloop.settle(loop)
            rec.quiescent()
            rec.stim('client.stop')
            await client.stop()
            await vloop.settle(loop)
            await asyncio.sleep(10)
            await vloop.settle(loop)
            rec.quiescent()
            if not t.done():
                t.cancel()
            elif not t.cancelled():
                t.exception()
            out['trace'] = rec.finalize()
        finally:
            net.uninstall()
    vloop.run(main)
    return out


def scenarios(seed, tmpdir) -> dict:
    def rng(name):
        return random.Random(f'{seed}:{name}')
    scn = {}
    for which in ('indirect-wins', 'direct-wins'):
        scn[f'race:{which}'] = lambda w=which: run_network_scenario(
            rng('race' + w), 'race', lambda wd: _scn_race(wd, w), connect_mode='race', hold=False)
    for hold in (False, True):
        scn[f'network.disconnect:hold={hold}'] = lambda h=hold: run_network_scenario(
            rng('netdisc'), 'netdisc', lambda wd: _scn_network_disconnect(wd, h), hold=False)
    for via in ('api', 'ctp'):
        scn[f'disconnect-while-connecting:{via}'] = lambda v=via: run_network_scenario(
            rng('dwc'), 'dwc', lambda wd: _scn_disconnect_while_connecting(wd, v), hold=False)
    for how in ('network', 'conn'):
        scn[f'slow-listener:disconnect-during-CONNECTING-report:{how}'] = lambda h=how: run_network_scenario(
            rng('slowcg'), 'slowcg', lambda wd: _scn_slow_connecting_report(wd, h), hold=False)
    for how in ('api', 'race'):
        scn[f'slow-listener:cancel-during-CLOSED-report:{how}'] = lambda h=how: run_network_scenario(
            rng('slowcd'), 'slowcd', lambda wd: _scn_slow_closed_report(wd, h),
            connect_mode='race' if h == 'race' else 'fallback', hold=False)
    for how in ('reset', 'eof', 'local'):
        scn[f'backpressure:{how}'] = lambda h=how: run_network_scenario(
            rng('bp'), 'bp', lambda wd: _scn_backpressure(wd, h), hold=False)
    for bad in ('obfuscated', 'regular'):
        scn[f'two-ports:{bad}-unreachable'] = lambda b=bad: run_network_scenario(
            rng('twoports'), 'twoports', lambda wd: _scn_two_ports(wd, b), hold=False, prefer_obf=(b == 'obfuscated'))
    for second in ('request', 'eof', 'reset'):
        scn[f'disconnects-with-queued-message:{second}'] = lambda x=second: run_network_scenario(
            rng('dq'), 'dq', lambda wd: _scn_disconnects_with_queued(wd, x), hold=False)
    for kind in ('out', 'in'):
        scn[f'network.disconnect:concurrent-registration:{kind}'] = lambda k=kind: run_network_scenario(
            rng('ndcr'), 'ndcr', lambda wd: _scn_netdisc_concurrent_registration(wd, k), hold=False)
    for kind in ('in', 'out'):
        scn[f'concurrent-disconnects:{kind}'] = lambda k=kind: run_network_scenario(
            rng('conc'), 'conc', lambda wd: _scn_concurrent_disconnects(wd, k), hold=False)
    for faults in (False, True):
        scn[f'client:faults={faults}'] = lambda f=faults: run_client_scenario(rng('client'), tmpdir, f)
    return scn


# ---------------------------------------------------------------------------
# verdicts
# ---------------------------------------------------------------------------

def _fold(trace, upto):
    """Observable state per connection after the first `upto` records (for naming a violation only)."""
    init = trace[0]
    st = {i + 1: dict(kind=init['kind'][i], rep=[], inreg=False, att='none', sock='none') for i in range(init['n'])}
    for e in trace[1:upto]:
        if 'reg' in e:
            for i in st:
                st[i]['inreg'] = i in e['reg']
        if e['ev'] == 'state':
            st[e['c']]['rep'].append(e['st'])
        elif e['ev'] == 'q':
            for i in st:
                st[i]['att'] = e['att'][i - 1]
                st[i]['sock'] = e['sock'][i - 1]
    return st


def _fingerprint(tid, info, trace):
    ev = info.get('event') or {}
    at = info.get('at')
    name = info.get('name')
    if info.get('kind') != 'property' or at is None:
        return f"C10:unexplained:{ev.get('ev')}"
    st = _fold(trace, int(at) - 1)
    if ev.get('ev') == 'state':
        c = st[ev['c']]
        prev = c['rep'][-2] if len(c['rep']) >= 2 else 'none'
        new = ev['st']
        if new == 'CONNECTED' and prev in ('CLOSING', 'CLOSED') and c['kind'] == 'in':
            return 'C10:ListeningConnection.accept:CONNECTED-reported-after-close'
        if new == 'CONNECTED' and prev in ('CLOSING', 'CLOSED'):
            return 'C10:DataConnection.connect:CONNECTED-reported-after-close'
        return f"C10:report-order:{c['kind']}:{prev}->{new}"
    if ev.get('ev') == 'q':
        bad = []
        for i, c in sorted(st.items()):
            if c['kind'] not in ('in', 'out', 'server'):
                continue
            last = c['rep'][-1] if c['rep'] else 'none'
            if name == 'RegistryExactT' and c['kind'] != 'server':
                should = last in ('CONNECTED', 'CLOSING') or (last in ('none', 'CONNECTING') and c['att'] == 'running')
                if c['sock'] == 'open' and not c['inreg']:
                    bad.append(f"{c['kind']}:{last}:open-transport-not-registered")
                elif c['att'] == 'unknown' and last in ('none', 'CONNECTING'):
                    continue
                elif should != c['inreg']:
                    bad.append(f"{c['kind']}:{last}:attempt-{c['att']}:{'registered' if c['inreg'] else 'not-registered'}")
            if name == 'ClosedWhenEndedT':
                if c['rep'] and c['att'] in ('none', 'gone') and c['sock'] in ('none', 'closed') and last != 'CLOSED':
                    bad.append(f"{c['kind']}:{last}:attempt-{c['att']}:never-closed")
        what = bad[0] if bad else '?'
        if what.startswith(('out:CONNECTING:attempt-gone', 'server:CONNECTING:attempt-gone')):
            i = next(k for k, c in sorted(st.items()) if f"{c['kind']}:" in what and c['rep'] and c['rep'][-1] == 'CONNECTING')
            held = [e for e in trace[1:int(at) - 1] if e['ev'] == 'q' and len(e.get('held', ())) >= i and e['held'][i - 1]]
            return 'C10:DataConnection.connect:cancelled-connect-left-CONNECTING' + (':during-report' if held else '')
        if 'CLOSING:attempt-gone:never-closed' in what:
            return 'C10:DataConnection.disconnect:cancelled-in-CLOSING-report-never-CLOSED'
        return f'C10:{"registry" if name == "RegistryExactT" else "life-end"}:{what}'
    if ev.get('ev') == 'sent':
        return f"C10:send-returned-success-after-CLOSED:{st[ev['c']]['kind']}"
    if ev.get('ev') in ('wire', 'deliver'):
        c = st[ev['c']]
        return f"C10:{'send' if ev['ev'] == 'wire' else 'delivery'}-after-CLOSED:{c['kind']}"
    return f"C10:{name}"


def judge(traces, *, diagnose=True, timeout=2400, strict_sample=None):
    """TLC judges recorded executions.  Accepted = the generic reading (observables + properties; TraceGeneric.cfg)
    accepts.  The strict reading (Trace.cfg: every record an action of the design spec, with silent internal steps - a
    much larger search) only adds the fidelity mark and is run on `strict_sample` (1-based trace numbers; None = none)."""
    import os
    workers = int(os.environ.get('VERIF_TLC_WORKERS', '8'))
    v = tlc.validate_traces(TRACE, 'TraceGeneric.cfg', traces, max_diag=0, timeout=timeout, workers=workers)
    if diagnose:
        diagnose_rejected(v, traces)
    if strict_sample:
        sample = [t for t in strict_sample if t in v.accepted]
        sv = tlc.validate_traces(TRACE, 'Trace.cfg', [traces[t - 1] for t in sample], max_diag=0, timeout=timeout,
                                 workers=workers)
        v.strict_checked = set(sample)
        for k, t in enumerate(sample, start=1):
            if 'strict' in sv.accepted.get(k, ()):
                v.accepted[t].add('strict')
        if v.result is not None and sv.result is not None:
            v.result.distinct_states += sv.result.distinct_states
            v.result.states_generated += sv.result.states_generated
    return v


def diagnose_rejected(v, traces):
    """Say why each rejected trace was rejected: one TLC run over all of them with the properties as invariants
    (TraceDiag.cfg: generic reading only, which stops at the first violating state) and -continue, so that every
    rejected trace gets its property and position - tlc.validate_traces diagnoses one trace per JVM start."""
    import json
    import os
    tids = sorted(v.rejected)
    if not tids:
        return
    d = tempfile.mkdtemp(prefix='tlctr-')
    try:
        f = os.path.join(d, 'rejected.json')
        with open(f, 'w') as fh:
            json.dump([traces[t - 1] for t in tids], fh)
        res = tlc.run_tlc(TRACE, 'TraceDiag.cfg', workers=1, deadlock=False, cont=True, env={'TRACE_FILE': f},
                          timeout=1800)
        v.diag_results.append(res)
        for iss in res.issues:
            if iss.kind not in ('invariant', 'action_property') or not iss.trace:
                continue
            last = iss.trace[-1][1]
            k, l = last.get('tid'), last.get('l')
            if k is None or l is None:
                continue
            tid = tids[int(k) - 1]
            cur = v.rejected.get(tid)
            if cur is not None and cur.get('kind') == 'property' and (cur.get('at') or 0) <= int(l):
                continue
            tr = traces[tid - 1]
            v.rejected[tid] = dict(kind='property', name=iss.name, at=int(l), detail='',
                                   event=tr[int(l) - 2] if 0 <= int(l) - 2 < len(tr) else None)
    finally:
        shutil.rmtree(d, ignore_errors=True)


# ---------------------------------------------------------------------------
# the check
# ---------------------------------------------------------------------------

def _init_kinds(state):
    conn = state['conn']
    items = conn.items() if isinstance(conn, dict) else enumerate(conn, start=1)
    return {int(c): (str(r['kind']), bool(r['obf'])) for c, r in items}


def _conn_of(state, c):
    conn = state['conn']
    return conn[c] if isinstance(conn, dict) else conn[c - 1]


def dump_graph_all_states(spec, cfg, **kw):
    """tlc.dump_graph with every state parsed.  (tlc.dump_graph's node pattern runs into the tooltip attribute TLC
    adds to non-initial nodes, so only initial states can be parsed through it.)"""
    import os
    d = tempfile.mkdtemp(prefix='tlcdot-')
    try:
        path = os.path.join(d, 'g')
        res = tlc.run_tlc(spec, cfg, dump_dot=path, workers=1, **kw)   # one worker: reproducible BFS order
        g = tlc.Graph({}, [], [])
        raw = {}
        with open(path + '.dot', encoding='utf8') as fh:
            for line in fh:
                line = line.rstrip('\n')
                m = tlc._DOT_EDGE.match(line)
                if m:
                    g.edges.append((m.group(1), m.group(3).replace('\\"', '"').replace('\\\\', '\\'), m.group(2)))
                    continue
                k = line.find(' [label="')
                if k <= 0 or not line[:k].lstrip('-').isdigit():
                    continue
                body = line[k + 9:]
                end = body.find('",tooltip="')
                if end < 0:
                    end = body.rfind('"')
                raw[line[:k]] = body[:end]
                if 'style = filled' in body[end:]:
                    g.init.append(line[:k])

        class LazyStates(dict):
            def __missing__(self, key):
                txt = raw[key].replace('\\n', '\n').replace('\\\\', '\\').replace('\\"', '"')
                self[key] = st = tlc.parse_state(txt)
                return st
        g.states = LazyStates()
        g.n_states = len(raw)
        return g, res
    finally:
        shutil.rmtree(d, ignore_errors=True)


def _settled(r) -> bool:
    return r['dpc'] == '-' and r['apc'] not in ('begin', 'sendinit', 'finalize', 'finish', 'repCONNECTING',
                                                 'repCONNECTED', 'repACCEPT')


def _control(r) -> tuple:
    key = tuple(str(r[k]) for k in ('kind', 'hnd', 'cs', 'inReg', 'att', 'cnc', 'apc', 'rd', 'wr', 'dpc', 'dby', 'sblk'))
    # how the address was obtained matters while the attempt is connecting (and ending a failed connect)
    return key + ((str(r['adr']),) if str(r['apc']) in ('begin', 'repCONNECTING', 'opening', 'indisc') else ('-',))


def _follows(real, model, settled) -> bool:
    return real == model or (not settled and real[:len(model)] == model)


def collect_behaviours(chk: Check, thorough: bool):
    """[(init_kinds, labels, source, final model rep per conn or None)]"""
    behs = []
    # 'cover': reports return at once (stimuli between reports);  'slow': every report of the connection is held by a
    # suspending listener and released by the behaviour (stimuli inside the reports)
    for source, cfg in (('cover', 'MC_cover.cfg'), ('slow', 'MC_cover_slow.cfg')):
        g, res = dump_graph_all_states(SPEC, cfg, timeout=900)
        if not res.ok:
            raise MachineryFailure(f'graph dump failed: {[(i.kind, i.name) for i in res.issues]}')
        paths = tlc.path_cover(g)
        chk.cov[f'graph_states_{source}'] = g.n_states
        chk.cov[f'graph_edges_{source}'] = len(g.edges)
        chk.cov[f'{source}_paths'] = len(paths)
        seen = set()
        for p in paths:
            init = g.states[p[0][0]]
            last = g.states[p[-1][2]]
            kinds = _init_kinds(init)
            # quick-tier selection: the paths that cover every transition up to the history counters (deliveries, sends,
            # API calls, server lives), i.e. every (action, control state of the connection) pair
            new = False
            for e in p:
                key = (e[1], _control(_conn_of(g.states[e[0]], 1)))
                if key not in seen:
                    seen.add(key)
                    new = True
            behs.append((kinds, [e[1] for e in p], source, {c: list(_conn_of(last, c)['rep']) for c in kinds},
                         {c: _settled(_conn_of(last, c)) for c in kinds}, new))
        chk.cov[f'{source}_paths_control_cover'] = sum(1 for b in behs if b[2] == source and b[5])
        chk.log(f'graph {cfg}: {g.n_states} states, {len(g.edges)} edges, {len(paths)} cover paths')
    if thorough:
        sims, sres = tlc.simulate_behaviours(SPEC, 'MC_two.cfg', num=1500, depth=28, seed=chk.seed + 1, timeout=900)
        for b in sims:
            kinds = _init_kinds(b[0][1])
            behs.append((kinds, [lab for lab, _ in b[1:]], 'sim2',
                         {c: list(_conn_of(b[-1][1], c)['rep']) for c in kinds},
                         {c: _settled(_conn_of(b[-1][1], c)) for c in kinds}, True))
        chk.cov['sim_behaviours_two'] = len(sims)
        chk.log(f'simulation: {len(sims)} behaviours of the two-connection model')
    return behs


def run(chk: Check, args):
    thorough = chk.tier == 'thorough'
    chk.cov['rule'] = ('behaviours = paths through the one-connection state graphs of ConnLifecycle (reports returning at '
                       'once; every report held by a suspending listener) covering every (action, control state) pair '
                       '(quick) / every edge (thorough) + simulated two-connection behaviours (thorough); each is '
                       'executed on a real Network over the simulated net, with wait_closed held (explicit '
                       'DisconnectEnd), with natural timing and with sub-slot bursts, plain/obfuscated, P/D connection '
                       'types; plus hand-written race / Network.disconnect / slow-listener / back-pressure / '
                       'whole-client scenarios; distinct = distinct recorded traces; non-trivial = the trace contains '
                       'at least one reported state of a peer or server connection beyond the fixture')
    # -- design model ---------------------------------------------------------------
    r = tlc.model_check(SPEC, 'MC_one.cfg', expect_actions=EXPECT_ACTIONS, timeout=900)
    chk.add_model('ConnLifecycle 1 connection, all kinds, suspending listeners (exhaustive)', r)
    teeth = {}
    for cfg, expected in (('MC_orig_accept.cfg', {'Monotone', 'NothingAfterClosed'}),
                          ('MC_orig_cancel.cfg', {'RegistryExact', 'ClosedWhenEnded'}),
                          ('MC_orig_connect.cfg', {'Monotone', 'NothingAfterClosed', 'NoSendAfterClosed'}),
                          ('MC_orig_connecting_report.cfg', {'RegistryExact', 'ClosedWhenEnded'}),
                          ('MC_orig_closing_report.cfg', {'RegistryExact', 'ClosedWhenEnded'})):
        rs = tlc.run_tlc(SPEC, cfg, timeout=900)
        hit = sorted(i.name for i in rs.issues if i.name in expected)
        teeth[cfg] = hit
        if not hit:
            raise MachineryFailure(f'{cfg}: the as-found design does not violate any of {sorted(expected)}')
    chk.cov['binding_selftest']['as_found_design_models_violate'] = teeth
    if thorough:
        r2 = tlc.model_check(SPEC, 'MC_two.cfg', timeout=3000)
        chk.add_model('ConnLifecycle 2 connections, all kinds, reports return at once (exhaustive)', r2)
        r3 = tlc.model_check(SPEC, 'MC_two_slow.cfg', timeout=3000)
        chk.add_model('ConnLifecycle 2 peer connections (out/in), suspending listeners (exhaustive)', r3)

    # -- replay ------------------------------------------------------------------------
    behs = collect_behaviours(chk, thorough)
    if not thorough:
        # quick: every cover path of a peer connection, a seeded sample of the server connection's (its second
        # life repeats the first)
        behs = [b for b in behs if b[5]]
    chk.cov['cover_paths_replayed'] = sum(1 for b in behs if b[2] == 'cover')
    chk.cov['slow_paths_replayed'] = sum(1 for b in behs if b[2] == 'slow')
    chk.cov['exhaustive'] = thorough        # thorough: the whole transition cover of the finite model is replayed
    traces, metas = [], []
    agree = [0, 0]
    too_many = 0
    for n, (kinds, labels, source, model_rep, settled, _) in enumerate(behs):
        # concretisation: plain/obfuscated, created by create_peer_connection / by a ConnectToPeer, type P / D
        kinds = {c: (k, k != 'server' and (o or (n + c) % 2 == 1)) for c, (k, o) in kinds.items()}
        runs = [(True, dict(via='api' if (n // 2) % 2 == 0 else 'ctp', typ='P' if n % 3 else 'D'))]
        if source == 'slow':
            runs = [(True, dict(slow=True, typ='P' if n % 3 else 'D'))]
        elif thorough or n % 4 == 0:
            runs.append((False, dict(via='ctp' if (n // 2) % 2 == 0 else 'api', typ='P')))
        if source != 'slow' and (n % 2 == 1 if thorough else n % 6 == 1):
            # sub-slot schedules: some stimuli are applied without letting the loop run in between
            runs.append((n % 2 == 0, dict(via='api' if n % 4 < 2 else 'ctp', typ='P', burst=0.4)))
        peer_disc = any(lab.startswith('Disconnect(') for lab in labels) and any(k != 'server' for k, _ in kinds.values())
        if source != 'slow' and peer_disc and (n % 2 == 0 if thorough else n % 3 == 2):
            # the disconnect comes from Network.disconnect(): whatever is registered at that moment is closed
            runs.append((True, dict(typ='P', netdisc=True)))
        if any('"resolve"' in lab for lab in labels):
            # the address is resolved through the server and both ports are advertised: which one is tried depends on
            # the obfuscation preference - run with both
            runs = runs + [(h, dict(v, flip_obf=True)) for h, v in runs]
        base_kinds = kinds
        for hold, variant in runs:
            kinds = ({c: (k, k != 'server' and not o) for c, (k, o) in base_kinds.items()}
                     if variant.get('flip_obf') else base_kinds)
            rseed = f'{chk.seed}:{n}:{int(hold)}'
            try:
                out = replay_behaviour(kinds, labels, random.Random(rseed), hold=hold, variant=variant)
            except TooManyConnections:
                too_many += 1
                continue
            traces.append(out['trace'])
            metas.append(dict(source=source, kinds={str(k): list(v) for k, v in kinds.items()}, labels=labels,
                              hold=hold, variant=variant, rseed=rseed))
            if hold and not variant.get('burst'):
                # informational: did the real connection report what the model's behaviour reports?  (a behaviour
                # that ends with an internal step or a disconnect pending may be one report ahead in reality)
                agree[1] += 1
                if all(_follows(out['reports'].get(c, []), rep, settled[c]) for c, rep in model_rep.items()):
                    agree[0] += 1
    chk.cov['replay_follows_model'] = f'{agree[0]}/{agree[1]}'
    chk.log(f'replayed {len(traces)} schedules on the real code; reported states equal the model\'s in '
            f'{agree[0]}/{agree[1]} held runs')

    # -- scenarios ----------------------------------------------------------------------
    tmp = tempfile.mkdtemp(prefix='c10-')
    try:
        scn = sorted(scenarios(chk.seed, tmp).items())
        for name, fn in scn:
            out = fn()
            traces.append(out['trace'])
            metas.append(dict(source='scenario', name=name))
    finally:
        shutil.rmtree(tmp, ignore_errors=True)
    if too_many:
        chk.notes.append(f'{too_many} runs skipped: more than {MAX_CONNS} connections')

    for tr in traces:
        sig = tuple((e['ev'], e.get('c'), e.get('st'), e.get('reason'), tuple(e.get('reg', ())),
                     tuple(e.get('att', ())), tuple(e.get('sock', ()))) for e in tr if e['ev'] != 'stim')
        chk.count((sig, tuple(tr[0]['kind']), tuple(tr[0]['obf'])),
                  nontrivial=sum(1 for e in tr if e['ev'] == 'state') > 2)
    for i in (0, len(traces) // 3, len(traces) - 1):
        chk.sample(dict(meta=metas[i], trace=traces[i]))

    # the attempt of every outgoing connection created in a Network-level run must be known to the recorder while
    # the connection is CONNECTING - otherwise the "being opened by a still-running attempt" half of RegistryExact
    # would silently not be evaluated
    blind = 0
    for tr, meta in zip(traces, metas):
        if str(meta.get('name', '')).startswith('client:'):
            continue
        last = {}
        for e in tr[1:]:
            if e['ev'] == 'state':
                last[e['c']] = e['st']
            elif e['ev'] == 'q':
                blind += sum(1 for i, k in enumerate(tr[0]['kind'], start=1)
                             if k == 'out' and last.get(i) == 'CONNECTING' and e['att'][i - 1] == 'unknown')
    chk.cov['binding_selftest']['connecting_with_unknown_attempt'] = blind
    chk.cov['binding_selftest']['attempt_discovery_health'] = f"{DISCOVERY['found']}/{DISCOVERY['probes']}"
    if blind:
        # The attempt of a connect-back is found structurally (new task whose coroutine stack references the
        # connection).  If that mechanism cannot even see the attempts the driver started itself, the machinery is
        # broken; otherwise the code under test is merely opaque here: those records are judged on what remains
        # observable (RegistryOK skips the attempt half for them) and the run says so.
        if DISCOVERY['probes'] and DISCOVERY['found'] < DISCOVERY['probes']:
            raise MachineryFailure(f'{blind} quiescent records have a CONNECTING outgoing connection whose attempt is '
                                   f'unknown and the structural discovery is unhealthy ({DISCOVERY})')
        chk.notes.append(f'{blind} quiescent records have a CONNECTING outgoing connection whose attempt could not be '
                         f'determined; for them only the reported-state half of RegistryExact was judged')

    # -- B: TLC judges the recorded executions ------------------------------------------------
    # strict reading (fidelity only): a fixed-stride sample and the scenarios; its search multiplies the silent steps
    # of independent connections, so traces with many connections are left to the thorough tier
    step = max(1, len(traces) // (1500 if thorough else 160))
    sample = sorted(t for t in set(range(1, len(traces) + 1, step)) |
                    {t for t in range(1, len(traces) + 1) if metas[t - 1].get('source') == 'scenario'}
                    if thorough or traces[t - 1][0]['n'] <= 3)
    v = judge(traces, strict_sample=sample)
    checked = getattr(v, 'strict_checked', set())
    strict = sum(1 for m in v.accepted.values() if 'strict' in m)

    def is_burst(t):
        return bool((metas[t - 1].get('variant') or {}).get('burst'))
    settled_acc = [t for t in v.accepted if t in checked and not is_burst(t)]
    burst_acc = [t for t in v.accepted if t in checked and is_burst(t)]
    chk.cov['model_fidelity'] = dict(
        what='accepted traces that are also explained action by action by the design spec (strict reading; run on '
             'a fixed-stride sample of the traces and on every scenario)',
        stimuli_at_quiescent_points=f"{sum(1 for t in settled_acc if 'strict' in v.accepted[t])}/{len(settled_acc)}",
        sub_slot_schedules=f"{sum(1 for t in burst_acc if 'strict' in v.accepted[t])}/{len(burst_acc)}")
    only_generic = sorted(t for t in settled_acc if 'strict' not in v.accepted[t])
    if only_generic:
        chk.notes.append(f'{len(only_generic)} accepted traces (stimuli at quiescent points) satisfy the properties '
                         f'but are not explained by the code-shaped actions (first: trace {only_generic[0]}, '
                         f'{metas[only_generic[0] - 1]})')
    for tidk in list(v.accepted):
        v.accepted[tidk] = set()               # 'strict' / 'generic' are readings, not deviations
    chk.apply_verdicts(v, traces, _fingerprint, meta_of=lambda tid: metas[tid - 1])
    hist = {}
    for tid, info in v.rejected.items():
        fp = _fingerprint(tid, info, traces[tid - 1])
        hist[fp] = hist.get(fp, 0) + 1
    if hist:
        chk.cov['rejected_by_fingerprint'] = hist
        for fp, k in sorted(hist.items()):
            chk.log(f'  rejected: {k:5d} x {fp}')
    chk.log(f'trace validation: {len(v.accepted)} accepted ({strict} strict), {len(v.rejected)} rejected')

    # -- binding self-test: corrupted observations must be rejected ------------------------------------
    corrupted = _corruptions(traces)
    if corrupted:
        cv = judge([t for _, t in corrupted], diagnose=False, timeout=900)
        res = {}
        for k, (what, _) in enumerate(corrupted, start=1):
            res.setdefault(what, [0, 0])
            res[what][1] += 1
            if k in cv.rejected:
                res[what][0] += 1
        chk.cov['binding_selftest']['corrupted_traces_rejected'] = {k: f'{a}/{b}' for k, (a, b) in res.items()}
        if any(a != b for a, b in res.values()):
            raise MachineryFailure(f'corrupted traces were accepted by the trace spec: {res}')
    chk.assumptions += [
        'asyncio.open_connection/start_server are replaced by harness.simnet links (real StreamReaders, scripted '
        'writers); kernel-specific orderings of real sockets (half-open TCP) are not produced',
        'the attempt of a connection is the task the driver started (create_peer_connection / connect_server), for a '
        'connect-back the new task whose coroutine stack references the connection (no task or attribute names of '
        'the code under test are used), or the accept callback task of harness.simnet; in whole-client scenarios it is unknown and RegistryExact is not '
        'evaluated for connections that are still CONNECTING',
        'listening connections are outside the property (peer and server connections only)',
        'a decodable-but-unexpected init message is produced with a harness-side PeerInitializationMessage subclass',
    ]


def _corruptions(traces):
    """Realistic observation faults; each must make the trace spec reject."""
    out = []
    want = {'unregistered-while-connecting': 3, 'swap-closing-closed': 3, 'duplicate-closed': 3, 'registry-leftover': 3, 'delivery-after-closed': 3,
            'wire-after-closed': 3, 'connected-after-closed': 3, 'send-success-after-closed': 3}
    for tr in traces:
        if not any(want.values()):
            break
        states = [(k, e) for k, e in enumerate(tr) if e['ev'] == 'state']
        if want['unregistered-while-connecting']:
            for k, e in states:
                c = e['c']
                if (e['st'] == 'CONNECTING' and tr[0]['kind'][c - 1] == 'out' and k + 1 < len(tr)
                        and tr[k + 1]['ev'] == 'q' and tr[k + 1]['att'][c - 1] == 'running' and c in tr[k + 1]['reg']):
                    bad = copy.deepcopy(tr)
                    for j in (k, k + 1):
                        bad[j]['reg'] = [x for x in bad[j]['reg'] if x != c]
                    out.append(('unregistered-while-connecting', bad))
                    want['unregistered-while-connecting'] -= 1
                    break
        closed = [(k, e) for k, e in states if e['st'] == 'CLOSED' and tr[0]['kind'][e['c'] - 1] in ('in', 'out')]
        if not closed:
            continue
        k, e = closed[0]
        c = e['c']
        if want['duplicate-closed']:
            bad = copy.deepcopy(tr)
            bad.insert(k + 1, copy.deepcopy(e))
            out.append(('duplicate-closed', bad))
            want['duplicate-closed'] -= 1
        if want['connected-after-closed']:
            bad = copy.deepcopy(tr)
            x = copy.deepcopy(e)
            x['st'], x['reason'] = 'CONNECTED', 'UNKNOWN'
            bad.insert(k + 1, x)
            out.append(('connected-after-closed', bad))
            want['connected-after-closed'] -= 1
        if want['swap-closing-closed'] and k >= 1 and tr[k - 1]['ev'] == 'state' and tr[k - 1]['c'] == c \
                and tr[k - 1]['st'] == 'CLOSING':
            bad = copy.deepcopy(tr)
            bad[k - 1]['st'], bad[k]['st'] = 'CLOSED', 'CLOSING'
            out.append(('swap-closing-closed', bad))
            want['swap-closing-closed'] -= 1
        if want['delivery-after-closed']:
            bad = copy.deepcopy(tr)
            bad.insert(k + 1, dict(ev='deliver', c=c, msg='X', reg=list(e['reg'])))
            out.append(('delivery-after-closed', bad))
            want['delivery-after-closed'] -= 1
        if want['send-success-after-closed']:
            bad = copy.deepcopy(tr)
            bad.insert(k + 1, dict(ev='sent', c=c, res='ok', wrote=True, reg=list(e['reg'])))
            out.append(('send-success-after-closed', bad))
            want['send-success-after-closed'] -= 1
        if want['wire-after-closed']:
            bad = copy.deepcopy(tr)
            bad.insert(k + 1, dict(ev='wire', c=c, n=4, reg=list(e['reg'])))
            out.append(('wire-after-closed', bad))
            want['wire-after-closed'] -= 1
        if want['registry-leftover']:
            qs = [j for j in range(k + 1, len(tr)) if tr[j]['ev'] == 'q']
            if qs:
                bad = copy.deepcopy(tr)
                for j in range(k, len(bad)):
                    if 'reg' in bad[j] and c not in bad[j]['reg']:
                        bad[j]['reg'] = sorted(bad[j]['reg'] + [c])
                out.append(('registry-leftover', bad))
                want['registry-leftover'] -= 1
    return out


def replay(chk: Check, data: dict):
    """Re-execute the behaviour / scenario of a replay file on the current tree and judge the new trace."""
    meta = (data.get('replay') or {}).get('meta') or {}
    tmp = tempfile.mkdtemp(prefix='c10-')
    try:
        if meta.get('source') == 'scenario':
            out = scenarios(data.get('seed', 0), tmp)[meta['name']]()
        else:
            kinds = {int(c): (k, bool(o)) for c, (k, o) in meta['kinds'].items()}
            out = replay_behaviour(kinds, meta['labels'], random.Random(meta.get('rseed', '0')),
                                   hold=bool(meta.get('hold', True)), variant=meta.get('variant') or {})
    finally:
        shutil.rmtree(tmp, ignore_errors=True)
    tr = out['trace']
    for k, e in enumerate(tr, start=1):
        print(f'  {k:3d}', e)
    v = judge([tr], timeout=600, strict_sample=[1])
    for tidk in list(v.accepted):
        print('  accepted; readings:', sorted(v.accepted[tidk]))
        v.accepted[tidk] = set()
    chk.apply_verdicts(v, [tr], _fingerprint, meta_of=lambda tid: meta)

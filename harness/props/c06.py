"""C06 - after abort/pause/remove returns nothing more happens for that transfer; at most one
background negotiation per transfer and kind (spec: TransferTasks).

A real, logged-in SoulSeekClient runs on harness.simnet with harness.simserver in virtual time.  The
peer is scripted: every connect attempt towards it is a gate the schedule resolves (ok / refuse) or
leaves hanging (10 s connect timeout, then the indirect path, 60 s), it dials in to offer uploads and
to open file connections.  Schedules are projected from TLC behaviours of TransferTasks; every real
execution is recorded and judged by TLC with TransferTasksTrace.
"""
from __future__ import annotations

import asyncio
import copy
import json
import os
import re
import shutil
import struct
import tempfile

from .. import tlc, vloop, simnet, simserver
from ..core import Check, MachineryFailure

SPEC = 'TransferTasks/TransferTasks.tla'
TRACE = 'TransferTasks/TransferTasksTrace.tla'

NT = 3                      # traces are padded to three transfers (T = {1,2,3} in Trace.cfg)
MAX_TASK_IDS = 96           # MaxTasks of Trace.cfg
PEER = 'peer'
PEER_IP = '10.0.0.2'
PEER_PORT = 5000
ME_PORT = 61000
FILESIZE = 4000

# the two task slots of a Transfer (private attributes; Transfer.get_tasks() is the public accessor but does not
# say which is which) - if they are renamed the kinds are told apart by the coroutine a slot task runs
SLOT_ATTRS = (('rq', '_remotely_queue_task'), ('init', '_transfer_task'))
HARNESS_PREFIX = ('user-', 'peer-link-', 'sim-accept-')     # tasks of the harness itself


# ---------------------------------------------------------------------------
# the simulated world around one real client
# ---------------------------------------------------------------------------

class PeerLink:
    """One connection between the client and the scripted peer, seen from the peer."""

    def __init__(self, world, ep, dialed_by_peer):
        self.world = world
        self.ep = ep
        self.dialed_by_peer = dialed_by_peer
        self.typ = 'P' if dialed_by_peer else None
        self.raw = bytearray()          # bytes received on a file connection after the init frame
        self.ticket = None
        self.closed = False
        self.t = None                   # transfer the file connection belongs to

    async def run(self, expect_init=True):
        """Reader loop on the peer's side: parses what the client writes and reports it."""
        from aioslsk.protocol import messages as M
        w = self.world
        if expect_init:
            frame = await self.ep.read_frame()
            if frame is None:
                self.closed = True
                return
            try:
                init = M.PeerInitializationMessage.deserialize_request(frame)
            except Exception:
                init = None
            self.typ = getattr(init, 'typ', None) or 'P'
        if self.typ == 'F':
            while True:
                try:
                    data = await self.ep.reader.read(65536)
                except ConnectionError:
                    data = b''
                if not data:
                    self.closed = True
                    return
                self.raw += data
                w.on_file_bytes(self, data)
        else:
            while True:
                frame = await self.ep.read_frame()
                if frame is None:
                    self.closed = True
                    return
                try:
                    msg = M.PeerMessage.deserialize_request(frame)
                except Exception:
                    continue
                w.on_peer_message(self, msg)


class World:
    def __init__(self, loop, tmpdir, kinds, conc):
        self.loop = loop
        self.tmp = tmpdir
        self.kinds = list(kinds)
        self.n = len(kinds)
        self.conc = conc                  # concretisation choices (dict)
        self.events: list[dict] = []
        self.transfers = []               # real Transfer objects, index = t - 1
        self.names = []                   # remote paths
        self.task_ids: dict = {}          # asyncio.Task -> small int, creation order
        self.task_owner: dict = {}        # asyncio.Task -> t
        self.task_kind: dict = {}         # asyncio.Task -> 'rq' | 'init' (slot it was first seen in)
        self.degraded = None
        self.gates: list[dict] = []       # connect attempts towards the peer
        self.indirect: list[dict] = []    # ConnectToPeer requests seen by the server
        self.links: list[PeerLink] = []
        self.peer_p = None                # PeerLink the peer uses to send its own messages
        self.offers: dict[int, int] = {}  # ticket of a PeerTransferRequest sent by the peer -> t
        self.accepted_offers: set = set()  # tickets the client answered with allowed=True
        self.used_tickets: set = set()
        self.requests: dict[int, dict] = {}  # t -> last PeerTransferRequest received from the client (uploads)
        self.keep = []                    # strong refs
        self.status_flip = 0
        self.file_gate: list = []         # gated executor calls (os.remove / exists of an aborting download)
        self.hold_files = False
        self.fs_hold = False
        self.fs_queue: list = []          # executor jobs of the code under test waiting for fs_release
        self.harness_errors: list[str] = []
        self.peer_ticket = 700
        self.main_task = None
        self.telling: list = []           # fields the peer has told and the client has not taken over yet

    # -- set-up ------------------------------------------------------------
    async def setup(self):
        from aioslsk.protocol import messages as M
        from aioslsk.protocol.primitives import UserStats
        from aioslsk.transfer.model import Transfer, TransferDirection
        from aioslsk.transfer.state import TransferState
        from aioslsk.user.model import UserStatus
        self.M = M
        loop = self.loop
        self.main_task = asyncio.current_task()
        self.net = simnet.SimNet(loop).install()
        self.srv = simserver.ScriptedServer(self.net)
        self.status = {PEER: UserStatus.OFFLINE.value}

        def add_user(srv, sess, msg):
            st = self.status.get(msg.username, UserStatus.ONLINE.value)
            return [M.AddUser.Response(msg.username, True, status=st,
                                       user_stats=UserStats(avg_speed=100, uploads=1, shared_file_count=1,
                                                            shared_folder_count=1),
                                       country_code='BE')]
        self.srv.handlers[M.AddUser.Request] = add_user
        self.srv.on_frame = self._on_server_frame
        await self.srv.start()
        self.srv.addresses[PEER] = (PEER_IP, PEER_PORT, 0)
        self.srv.addresses['me'] = ('10.0.0.1', ME_PORT, 0)
        self.net.policy = self._policy

        self.dl_dir = os.path.join(self.tmp, 'dl')
        self.sh_dir = os.path.join(self.tmp, 'shared')
        os.makedirs(self.dl_dir, exist_ok=True)
        os.makedirs(self.sh_dir, exist_ok=True)
        for i in range(self.n):
            with open(os.path.join(self.sh_dir, f'up{i + 1}.mp3'), 'wb') as fh:
                fh.write(bytes([65 + i]) * FILESIZE)
        settings = simserver.make_settings('me', port=ME_PORT, obfuscated_port=ME_PORT + 1,
                                           download_dir=self.dl_dir,
                                           shared=[dict(path=self.sh_dir, share_mode='everyone')],
                                           transfers=dict(report_interval=30.0))   # (fewer idle wake-ups)
        self.client = simserver.make_client(settings)
        await self.client.start()
        await self.client.login()
        await self.client.shares.scan()
        await vloop.settle(loop)
        self.tm = self.client.transfers

        # the peer listens; it is known to be OFFLINE until the schedule's first cycle trigger
        self.peer = simserver.ScriptedPeer(self.net, PEER, PEER_PORT)
        self.peer.on_accept = self._peer_accepted
        await self.peer.listen()
        await self.client.users.track_user(PEER)
        await asyncio.sleep(0.5)
        await vloop.settle(loop)
        self.peer_user = self.client.users.get_user_object(PEER)
        self.keep.append(self.peer_user)

        loop.executor_gate = self._executor_gate

        # the transfers, in list order
        tag = self.conc.get('tag', 'a')
        for i, kd in enumerate(self.kinds):
            t = i + 1
            if kd == 'uq':
                item = None
                for d in self.client.shares.shared_directories:
                    for it in d.items:
                        if it.filename == f'up{t}.mp3':
                            item = it
                if item is None:
                    raise MachineryFailure('shared file not indexed')
                name = item.get_remote_path()
                tr = Transfer(PEER, name, TransferDirection.UPLOAD)
                tr.local_path = item.get_absolute_path()
                tr.filesize = FILESIZE
                tr.state = TransferState.init_from_state(TransferState.QUEUED, tr)
                tr = await self.tm.add(tr)
            else:
                name = f'@@{tag}\\music\\song{t}.mp3'
                if kd == 'dq':
                    tr = await self.tm.download(PEER, name)
                else:
                    tr = Transfer(PEER, name, TransferDirection.DOWNLOAD)
                    if kd == 'di':
                        tr.state = TransferState.init_from_state(TransferState.INCOMPLETE, tr)
                        tr.local_path = os.path.join(self.dl_dir, f'song{t}.mp3')
                        with open(tr.local_path, 'wb') as fh:
                            fh.write(b'x' * 1000)
                        tr.filesize = FILESIZE
                        tr.bytes_transfered = 1000
                    else:   # df: FAILED without a reason (as restored from a cache): retried by the scheduler
                        tr.state = TransferState.init_from_state(TransferState.FAILED, tr)
                    tr = await self.tm.add(tr)
            self.transfers.append(tr)
            self.names.append(name)
            lst = _Listener(self, t)
            self.keep.append(lst)
            tr.state_listeners.append(lst)
        await asyncio.sleep(0.5)
        await vloop.settle(loop)
        self._hook_server_writer()
        init = self._record('init')
        init['kinds'] = self.kinds + ['dq'] * (NT - self.n)

    def _hook_server_writer(self):
        """Attribute frames written to the server (GetPeerAddress, ConnectToPeer) to the task writing them."""
        link = self.net.links[0]
        wr = link.writers[0]
        orig = wr.write
        world = self

        def write(data):
            world._server_write(bytes(data))
            return orig(data)
        wr.write = write

    def teardown(self):
        self.net.uninstall()

    # -- observation ---------------------------------------------------------
    def _lib_tasks(self):
        """Every task of the code under test (the harness' own tasks left out)."""
        out = []
        for tk in asyncio.all_tasks(self.loop):
            if tk is self.main_task or tk.get_name().startswith(HARNESS_PREFIX):
                continue
            out.append(tk)
        return out

    @staticmethod
    def _name_key(tk):
        m = re.search(r'(\d+)$', tk.get_name())
        return (int(m.group(1)) if m else 0, tk.get_name())

    def _slots(self, tr):
        """{'rq': task|None, 'init': task|None} read from the two slot attributes, or None when they are not there."""
        out = {}
        for kind, attr in SLOT_ATTRS:
            if not hasattr(tr, attr):
                return None
            out[kind] = getattr(tr, attr)
        return out

    def _slot_tasks(self, tr):
        try:
            return list(tr.get_tasks())
        except AttributeError:
            sl = self._slots(tr)
            if sl is None:
                raise MachineryFailure('neither Transfer.get_tasks() nor the slot attributes exist: the task slots '
                                       'of a transfer cannot be observed')
            return [x for x in sl.values() if x is not None]

    def _note_slots(self):
        """The kind of a task is the slot in which it is first seen (right after its creation a task is reachable
        from exactly one slot of its transfer); it also settles which transfer the task works for.  Task names
        play no part."""
        for i, tr in enumerate(self.transfers):
            sl = self._slots(tr)
            if sl is not None:
                pairs = [(k, tk) for k, tk in sl.items() if tk is not None]
            else:
                # slot attributes renamed: tell the kinds apart by the coroutine the slot task runs
                pairs = []
                for tk in self._slot_tasks(tr):
                    try:
                        nm = tk.get_coro().cr_code.co_name.lower()
                    except Exception:
                        nm = ''
                    pairs.append(('rq' if ('queue' in nm and 'remote' in nm) else 'init', tk))
                self.degraded = 'slot attributes not found: kinds taken from the coroutine names of the slot tasks'
            for kind, tk in pairs:
                if tk not in self.task_kind:
                    self.task_kind[tk] = kind
                self.task_owner.setdefault(tk, i + 1)

    def _owner(self, tk):
        """Transfer a task works for: the transfer whose slot holds it, else the Transfer object - or the remote path
        of one - found among the locals of its coroutine.  A task is recognised by what it holds, not by its name."""
        if tk in self.task_owner:
            return self.task_owner[tk]
        t = 0
        try:
            fr = tk.get_coro().cr_frame
            if fr is not None:
                for v in fr.f_locals.values():
                    for i, tr in enumerate(self.transfers):
                        if v is tr or (isinstance(v, str) and v == self.names[i]):
                            t = i + 1
        except Exception:
            t = 0
        if t:
            self.task_owner[tk] = t
        return t

    def _scan_tasks(self):
        if len(self.transfers) < self.n:
            return
        self._note_slots()
        new = [tk for tk in self._lib_tasks() if tk not in self.task_ids and not tk.done() and self._owner(tk)]
        for tk in sorted(new, key=self._name_key):
            self.task_ids[tk] = len(self.task_ids) + 1
            self.keep.append(tk)

    def _kind(self, tk):
        """'rq' / 'init': the slot the task was first seen in; 'oth': a task working for a transfer that has never
        been reachable from one of its slots."""
        return self.task_kind.get(tk, 'oth')

    def live(self, t, kind):
        self._scan_tasks()
        return sorted(i for tk, i in self.task_ids.items()
                      if not tk.done() and self._kind(tk) == kind and self._owner(tk) == t)

    def nth_task(self, t, kind, i):
        ids = self.live(t, kind)
        if len(ids) < i:
            return None
        want = ids[i - 1]
        for tk, j in self.task_ids.items():
            if j == want:
                return tk
        return None

    def fields(self, tr):
        def s(v):
            return 'none' if v is None else str(v)
        lp = tr.local_path
        return dict(st=tr.state.VALUE.name, remQ=bool(tr.remotely_queued), qa=int(tr.queue_attempts),
                    piq=s(tr.place_in_queue), failR=s(tr.fail_reason), ar=s(tr.abort_reason),
                    lp='none' if lp is None else os.path.basename(lp), bt=int(tr.bytes_transfered))

    def snapshot(self):
        self._scan_tasks()
        out = []
        for i, tr in enumerate(self.transfers):
            t = i + 1
            rq = tt = 0
            sl = self._slots(tr)
            pairs = ([(k, tk) for k, tk in sl.items() if tk is not None] if sl is not None
                     else [(self._kind(tk), tk) for tk in self._slot_tasks(tr)])
            for kind, tk in pairs:
                if tk not in self.task_ids:
                    self.task_ids[tk] = len(self.task_ids) + 1
                    self.keep.append(tk)
                if kind == 'rq':
                    rq = self.task_ids[tk]
                else:
                    tt = self.task_ids[tk]
            out.append(dict(present=any(x is tr for x in self.tm.transfers), rq=rq, tt=tt,
                            lrq=self.live(t, 'rq'), ltt=self.live(t, 'init'), loth=self.live(t, 'oth'),
                            f=self.fields(tr)))
        while len(out) < NT:
            out.append(dict(present=False, rq=0, tt=0, lrq=[], ltt=[], loth=[],
                            f=dict(st='NONE', remQ=False, qa=0, piq='none', failR='none', ar='none', lp='none', bt=0)))
        return out

    def _record(self, ev, t=0, o='none', val='none', what='none', ts=(), amb=False):
        # a frame in which the peer tells a field stays "being told" until the client has taken it over: the
        # reader loop of that connection may be held up behind an earlier frame (a handler waiting for a state lock)
        told = [[e['t'], e['f']] for e in self.telling]
        for e in list(self.telling):
            cur = self._told_value(e['t'], e['f'])
            if cur != e['old'] or e.get('closed_noop'):
                self.telling.remove(e)
        rec = dict(ev=ev, t=t, o=o, val=val, what=what, ts=list(ts), amb=bool(amb), told=told,
                   s=self.snapshot(), nT=len(self.task_ids), vt=int(round((self.loop.time() - 1000.0) * 1000)))
        self.events.append(rec)
        return rec

    def _current_owner(self):
        """Transfer on whose behalf the currently running task acts (0: not a negotiation task)."""
        try:
            tk = asyncio.current_task(self.loop)
        except RuntimeError:
            tk = None
        if tk is None or tk is self.main_task or tk.get_name().startswith(HARNESS_PREFIX):
            return 0, tk
        self._scan_tasks()
        return self._owner(tk), tk

    def _peer_transfers(self):
        return [i + 1 for i in range(self.n)]

    def _conn_event(self, what):
        t, tk = self._current_owner()
        if t:
            self._record('conn', what=what, ts=[t])
        else:
            self._record('conn', what=what, ts=self._peer_transfers(), amb=True)
        return t, tk

    # connect attempts towards the peer are gates
    def _policy(self, host, port):
        if host != PEER_IP:
            return 'ok'
        t, tk = self._conn_event('connect')
        fut = self.loop.create_future()
        self.gates.append(dict(fut=fut, t=t, task=tk, at=self.loop.time()))
        return ('gate', fut)

    def _server_write(self, data):
        M = self.M
        try:
            msg = M.ServerMessage.deserialize_request(data)
        except Exception:
            return
        if isinstance(msg, M.GetPeerAddress.Request) and msg.username == PEER:
            self._conn_event('GetPeerAddress')
        elif isinstance(msg, M.ConnectToPeer.Request) and msg.username == PEER:
            t, tk = self._conn_event('ConnectToPeer')
            self.indirect.append(dict(ticket=msg.ticket, typ=msg.typ, t=t, task=tk, done=False))

    def _on_server_frame(self, sess, msg):
        pass

    def file_of(self, name):
        for i, nm in enumerate(self.names):
            if nm == name:
                return i + 1
        return 0

    def on_peer_message(self, link, msg):
        M = self.M
        if isinstance(msg, M.PeerTransferQueue.Request):
            self._record('msg', t=self.file_of(msg.filename), what='PeerTransferQueue')
        elif isinstance(msg, M.PeerPlaceInQueueRequest.Request):
            self._record('msg', t=self.file_of(msg.filename), what='PeerPlaceInQueueRequest')
        elif isinstance(msg, M.PeerUploadFailed.Request):
            self._record('msg', t=self.file_of(msg.filename), what='PeerUploadFailed')
        elif isinstance(msg, M.PeerTransferRequest.Request):
            t = self.file_of(msg.filename)
            self.requests[t] = dict(ticket=msg.ticket, link=link)
            self._record('msg', t=t, what='PeerTransferRequest')
        elif isinstance(msg, M.PeerTransferReply.Request):
            t = self.offers.get(msg.ticket, 0)
            if msg.allowed:
                self.accepted_offers.add(msg.ticket)
                self._record('msg', t=t, what='PeerTransferReply')
            # a refusal answers the peer's own request; it is not a message on the transfer's behalf

    def on_file_bytes(self, link, data):
        """Bytes on a file connection: ticket (upload), offset (download) or file data, all about one file."""
        t = link.t
        if t is None and len(link.raw) >= 4 and not link.dialed_by_peer:
            ticket = struct.unpack('<I', bytes(link.raw[:4]))[0]
            link.ticket = ticket
            for tt, rq in self.requests.items():
                if rq['ticket'] == ticket:
                    t = link.t = tt
        if t:
            if not getattr(link, 'reported', False):
                link.reported = True
                self._record('msg', t=t, what='file-connection-data')

    async def _peer_accepted(self, ep):
        link = PeerLink(self, ep, dialed_by_peer=False)
        self.links.append(link)
        await link.run(expect_init=True)

    def _executor_gate(self, func, args):
        """Executor round trips (file system) take as long as the schedule says: while fs_hold is set every job the
        code under test issues - except those of the user call in progress, which has its own switch - waits
        until fs_release; independently the file removal of an abort can be held (hold_files)."""
        try:
            cur = asyncio.current_task(self.loop)
        except RuntimeError:
            cur = None
        mine = cur is None or cur is self.main_task or cur.get_name().startswith(HARNESS_PREFIX)
        if self.fs_hold and not mine:
            fut = self.loop.create_future()
            self.fs_queue.append((fut, func, args))
            return fut
        if not self.hold_files:
            return None
        f = getattr(func, 'func', func)
        if f in (os.remove, os.path.exists):
            fut = self.loop.create_future()
            self.file_gate.append((fut, func, args))
            return fut
        return None

    def release_fs(self):
        self.fs_hold = False
        n = 0
        while self.fs_queue:
            fut, func, args = self.fs_queue.pop(0)
            if fut.done():
                continue
            n += 1
            try:
                fut.set_result(func(*args))
            except BaseException as exc:  # noqa
                fut.set_exception(exc)
        return n

    def release_files(self):
        self.hold_files = False
        while self.file_gate:
            fut, func, args = self.file_gate.pop(0)
            if fut.done():
                continue
            try:
                fut.set_result(func(*args))
            except BaseException as exc:  # noqa
                fut.set_exception(exc)

    # -- stimuli ---------------------------------------------------------------
    async def pause_a_bit(self, dt=0.2):
        await asyncio.sleep(dt)
        await vloop.settle(self.loop)

    def _request_cycle_direct(self):
        tm = self.tm
        try:
            flag = type(tm._management_flags)(2)
            tm.request_management_cycle(flag)
            return True
        except Exception:
            return False

    async def cycle(self, how=None):
        """Trigger a management cycle the way the running system does: a status update of the peer from the
        server, or a request from inside the client."""
        from aioslsk.user.model import UserStatus
        M = self.M
        first = self.status[PEER] == UserStatus.OFFLINE.value
        how = how or ('status' if first or self.conc.get('cycle', 'status') == 'status' else 'request')
        if how == 'request' and not first and self._request_cycle_direct():
            pass
        else:
            self.status_flip += 1
            st = UserStatus.ONLINE.value if self.status_flip % 2 else UserStatus.AWAY.value
            self.status[PEER] = st
            sess = self.srv.session_of('me')
            sess.send(M.GetUserStatus.Response(PEER, st, False))
        await self.pause_a_bit()
        self._record('stim', o='cycle')

    async def cycle_hold(self):
        """A management cycle during which executor round trips do not complete: whatever the cycle (or anything
        else) asks of the file system stays pending until fs_release."""
        self.fs_hold = True
        await self.cycle()

    async def fs_release(self):
        n = self.release_fs()
        await self.pause_a_bit()
        self._record('stim', o='fs-release' if n else 'fs-release-none')

    def _gate_of(self, tk):
        for g in self.gates:
            if g['task'] is tk and not g['fut'].done():
                return g
        return None

    def _indirect_of(self, tk):
        for g in self.indirect:
            if g['task'] is tk and not g['done']:
                return g
        return None

    async def direct(self, t, kind, i, res, label='direct'):
        tk = self.nth_task(t, kind, i)
        g = self._gate_of(tk) if tk is not None else None
        if g is None:
            self._record('stim', o=f'{label}-{res}-skipped', t=t)
            return False
        g['fut'].set_result('ok' if res == 'ok' else 'refuse')
        await self.pause_a_bit()
        self._record('stim', o=f'{label}-{res}', t=t)
        return True

    async def indirect_(self, t, kind, i, res, label='indirect'):
        tk = self.nth_task(t, kind, i)
        g = self._indirect_of(tk) if tk is not None else None
        if g is None:
            self._record('stim', o=f'{label}-{res}-skipped', t=t)
            return False
        g['done'] = True
        if res == 'ok':
            ep = await self.peer.pierce(ME_PORT, g['ticket'])
            link = PeerLink(self, ep, dialed_by_peer=True)
            link.typ = g['typ']
            self.links.append(link)
            self.keep.append(self.loop.create_task(link.run(expect_init=False), name=f'peer-link-{len(self.links)}'))
        else:
            self.srv.session_of('me').send(self.M.CannotConnect.Response(g['ticket']))
        await self.pause_a_bit()
        self._record('stim', o=f'{label}-{res}', t=t)
        return True

    async def _peer_p_link(self):
        """The P connection the peer uses for its own requests (dials in when it has none)."""
        if self.peer_p is not None and not self.peer_p.closed and not self.peer_p.ep.at_eof:
            return self.peer_p
        ep = await self.peer.dial(ME_PORT, typ='P', ticket=0)
        link = PeerLink(self, ep, dialed_by_peer=True)
        self.links.append(link)
        self.keep.append(self.loop.create_task(link.run(expect_init=False), name=f'peer-link-{len(self.links)}'))
        self.peer_p = link
        await vloop.settle(self.loop)
        return link

    async def peer_offer(self, t):
        M = self.M
        if self.transfers[t - 1].is_upload():
            self._record('stim', o='offer-skipped', t=t)
            return
        link = await self._peer_p_link()
        self._record('stim', o='offer-begin', t=t)
        self.peer_ticket += 1
        self.offers[self.peer_ticket] = t
        link.ep.send_message(M.PeerTransferRequest.Request(1, self.peer_ticket, self.names[t - 1], filesize=FILESIZE))
        await self.pause_a_bit()
        self._record('stim', o='offer', t=t)

    def _told_value(self, t, f):
        fl = self.fields(self.transfers[t - 1])
        return (fl['st'], fl['failR']) if f == 'fail' else fl[f]

    async def peer_queue_failed(self, t, r='text'):
        """The peer refuses to queue download t (PeerTransferQueueFailed); the reason is a free-form string, r='empty'
        sends the boundary value ''.  A PAUSED download is failed by this frame (documented edge): the peer is
        "telling" its state / fail reason until the client has taken it over."""
        tr = self.transfers[t - 1]
        if tr.is_upload() or not any(x is tr for x in self.tm.transfers):
            self._record('stim', o='queue-failed-skipped', t=t)
            return
        link = await self._peer_p_link()
        entry = dict(t=t, f='fail', old=self._told_value(t, 'fail'))
        self.telling.append(entry)
        self._record('stim', o='queue-failed-begin', t=t, what=r)
        reason = '' if r == 'empty' else self.conc.get('reason', 'Banned')
        link.ep.send_message(self.M.PeerTransferQueueFailed.Request(self.names[t - 1], reason))
        await self.pause_a_bit()
        if not self._call_pending(t):
            entry['closed_noop'] = True     # no handler is waiting for the transfer's state lock: it has been handled
        self._record('stim', o='queue-failed', t=t, what=r)

    async def peer_queue(self, t):
        """The peer asks again for upload t (PeerTransferQueue for a transfer we already have)."""
        tr = self.transfers[t - 1]
        if not tr.is_upload() or not any(x is tr for x in self.tm.transfers):
            self._record('stim', o='peer-queue-skipped', t=t)
            return
        link = await self._peer_p_link()
        link.ep.send_message(self.M.PeerTransferQueue.Request(self.names[t - 1]))
        await self.pause_a_bit()
        self._record('stim', o='peer-queue', t=t)

    async def peer_tells(self, t, f):
        """The peer tells where download t stands in its queue: PeerUploadFailed (no longer queued there) or
        PeerPlaceInQueueReply."""
        tr = self.transfers[t - 1]
        if tr.is_upload() or not any(x is tr for x in self.tm.transfers):
            self._record('stim', o='peer-tells-skipped', t=t)
            return
        link = await self._peer_p_link()
        entry = dict(t=t, f=f, old=self.fields(tr)[f])
        self.telling.append(entry)
        self._record('stim', o='peer-tells-begin', t=t, what=f)
        if f == 'remQ':
            link.ep.send_message(self.M.PeerUploadFailed.Request(self.names[t - 1]))
        else:
            self.place = getattr(self, 'place', 3) + 1
            link.ep.send_message(self.M.PeerPlaceInQueueReply.Request(self.names[t - 1], self.place))
        await self.pause_a_bit()
        if f == 'remQ' and entry['old'] is False:
            entry['closed_noop'] = True        # nothing to take over: the field already says "not queued there"
        self._record('stim', o='peer-tells-end', t=t, what=f)

    async def pconn_lost(self):
        """The peer closes every peer (P) connection it has with the client."""
        n = 0
        for lk in self.links:
            if lk.typ == 'P' and not lk.closed and not getattr(lk, 'shut', False):
                lk.shut = True
                lk.ep.close()
                n += 1
        self.peer_p = None
        await self.pause_a_bit()
        self._record('stim', o='pconn-lost' if n else 'pconn-lost-skipped')

    async def file_conn(self, t, i, res):
        """The peer opens the file connection for its latest offer of t."""
        if res != 'ok':
            self._record('stim', o='fileconn-timeout-skipped', t=t)
            return
        ticket = None
        tickets = [tk_ for tk_, tt in sorted(self.offers.items()) if tt == t and tk_ in self.accepted_offers
                   and tk_ not in self.used_tickets]
        if tickets:
            ticket = tickets[min(i, len(tickets)) - 1]
            self.used_tickets.add(ticket)
        if ticket is None or self.nth_task(t, 'init', i) is None:
            self._record('stim', o='fileconn-skipped', t=t)
            return
        ep = await self.peer.dial(ME_PORT, typ='F', ticket=0)
        link = PeerLink(self, ep, dialed_by_peer=True)
        link.typ = 'F'
        link.t = t
        link.reported = True     # what the client writes here is the offset; recorded below
        self.links.append(link)
        self.keep.append(self.loop.create_task(link.run(expect_init=False), name=f'peer-link-{len(self.links)}'))
        ep.send(struct.pack('<I', ticket))
        self.dl_links = getattr(self, 'dl_links', {})
        self.dl_links[t] = link
        await self.pause_a_bit()
        if len(link.raw) >= 8:
            link.offset = struct.unpack('<Q', bytes(link.raw[:8]))[0]
            # first part of the file
            ep.send(b'd' * 500)
        await self.pause_a_bit()
        self._record('stim', o='fileconn-ok', t=t)

    async def xfer(self, t, i, res):
        tr = self.transfers[t - 1]
        if tr.is_upload():
            link = getattr(self, 'ul_links', {}).get(t)
            if link is None or self.nth_task(t, 'init', i) is None:
                self._record('stim', o=f'xfer-{res}-skipped', t=t)
                return
            cw = self._client_writer(link)
            if res == 'done':
                # the data goes through, then the downloader closes
                cw.resume()
                await vloop.settle(self.loop)
                link.ep.close()
            else:
                # the downloader goes away mid-transfer: the client's pending write fails
                exc = ConnectionResetError(104, 'Connection reset by peer')
                cw.fail_writes = exc
                waiter = getattr(cw, '_resume', None)
                cw.paused = False
                if waiter is not None and not waiter.done():
                    waiter.set_exception(exc)
                if res == 'reset':
                    link.ep.link.cut('reset')
                else:
                    link.ep.close()
        else:
            link = getattr(self, 'dl_links', {}).get(t)
            if link is None or self.nth_task(t, 'init', i) is None or not hasattr(link, 'offset'):
                self._record('stim', o=f'xfer-{res}-skipped', t=t)
                return
            if res == 'done':
                link.ep.send(b'd' * (FILESIZE - link.offset - 500))
            elif res == 'reset':
                link.ep.link.cut('reset')
            else:
                link.ep.close()
        await self.pause_a_bit()
        self._record('stim', o=f'xfer-{res}', t=t)

    async def reply(self, t, i, res):
        M = self.M
        rq = self.requests.get(t)
        if rq is None or self.nth_task(t, 'init', i) is None or res == 'timeout':
            self._record('stim', o=f'reply-{res}-skipped', t=t)
            return
        link = rq['link']
        if res == 'allow':
            link.ep.send_message(M.PeerTransferReply.Request(rq['ticket'], True))
        else:
            link.ep.send_message(M.PeerTransferReply.Request(rq['ticket'], False, reason='Cancelled'))
        await self.pause_a_bit()
        self._record('stim', o=f'reply-{res}', t=t)

    async def offset(self, t, i, res):
        link = None
        for lk in self.links:
            if lk.typ == 'F' and lk.t == t and not lk.closed and not getattr(lk, 'used', False):
                link = lk
        if link is None or self.nth_task(t, 'init', i) is None:
            self._record('stim', o=f'offset-{res}-skipped', t=t)
            return
        link.used = True
        self.ul_links = getattr(self, 'ul_links', {})
        self.ul_links[t] = link
        if res == 'ok':
            # back-pressure on the client's side: the upload stays in progress until the schedule ends it
            self._client_writer(link).paused = True
            link.ep.send(struct.pack('<Q', 0))
        else:
            link.ep.close()
        await self.pause_a_bit()
        self._record('stim', o=f'offset-{res}', t=t)

    @staticmethod
    def _client_writer(link):
        return link.ep.link.writers[1 - link.ep.writer.side]

    async def call(self, t, o, cyc=None, hold=False):
        """The user calls abort / pause / remove.  cyc = None | 0 | 1 | 2: a management cycle is requested so that
        it runs while the call is suspended (0: right after the cancellation, 1: after the cancelled task ended,
        2: after its done-callback).  hold: the file removal of an abort is held until release()."""
        from aioslsk.exceptions import InvalidStateTransition
        tr = self.transfers[t - 1]
        if any(self._call_pending(u + 1) for u in range(self.n)):
            self._record('stim', o=f'{o}-skipped', t=t)          # one user call at a time
            return
        self.hold_files = bool(hold)
        self.pending_t = t

        async def caller():
            self._record('call', t=t, o=o)
            try:
                await getattr(self.tm, o)(tr)
                val = 'ok'
            except InvalidStateTransition:
                val = 'refused'
            except asyncio.CancelledError:
                raise
            except Exception as exc:  # raised by the code under test: an observation
                val = f'exc:{type(exc).__name__}'
            self._record('ret', t=t, o=o, val=val)

        tk = self.loop.create_task(caller(), name=f'user-{o}-{t}')
        self.keep.append(tk)
        self.pending_call = tk
        if cyc is not None:
            def req(depth):
                if depth <= 0:
                    self._request_cycle_direct()
                else:
                    self.loop.call_soon(req, depth - 1)
            self.loop.call_soon(req, cyc) if cyc > 0 else self._request_cycle_direct()
        await self.pause_a_bit()
        if not hold:
            for _ in range(20):
                if tk.done():
                    break
                await self.pause_a_bit()

    def _call_pending(self, t):
        tk = getattr(self, 'pending_call', None)
        return tk is not None and not tk.done() and getattr(self, 'pending_t', 0) == t

    async def release(self, t):
        self.release_files()
        await self.pause_a_bit()
        tk = getattr(self, 'pending_call', None)
        for _ in range(20):
            if tk is None or tk.done():
                break
            await self.pause_a_bit()
        self._record('stim', o='release', t=t)

    async def requeue(self, t):
        """The user puts the transfer back in the queue."""
        from aioslsk.exceptions import InvalidStateTransition, TransferNotFoundError
        tr = self.transfers[t - 1]
        if self._call_pending(t):
            self._record('stim', o='requeue-skipped', t=t)     # would wait for the state lock of the parked call
            return
        self._record('call', t=t, o='queue')
        try:
            await self.tm.queue(tr)
            val = 'ok'
        except (InvalidStateTransition, TransferNotFoundError):
            val = 'refused'
        except Exception as exc:
            val = f'exc:{type(exc).__name__}'
        # recorded at the return of queue(), before anything else runs
        self._record('ret', t=t, o='queue', val=val)
        await self.pause_a_bit()
        self._record('stim', o='after-requeue', t=t)

    async def window(self, mode):
        """Observation window: virtual minutes, covering the 10 s connect, 60 s indirect / file-connection,
        30 s reply and 180 s transfer timeouts."""
        self.release_fs()
        self.release_files()
        if mode in ('ok', 'fail'):
            for g in list(self.gates):
                if not g['fut'].done():
                    g['fut'].set_result('ok' if mode == 'ok' else 'refuse')
            await self.pause_a_bit()
            self._record('stim', o=f'window-{mode}')
        steps = [0.5] * 2 + [4.0] * 3 + [10.0] * 7 + [30.0] * 9
        for dt in steps:
            await asyncio.sleep(dt)
            await vloop.settle(self.loop)
            self._record('tick')
        tk = getattr(self, 'pending_call', None)
        if tk is not None and not tk.done():
            # the user call did not return within the whole window (every gate released, every timeout elapsed):
            # an observation, judged by the trace spec (no action explains it)
            o = tk.get_name().split('-')[1]
            self._record('ret', t=getattr(self, 'pending_t', 0), o=o, val='exc:NeverReturned')
            tk.cancel()
            await vloop.settle(self.loop)


class _Listener:
    def __init__(self, world, t):
        self.world, self.t = world, t

    async def on_transfer_state_changed(self, transfer, old, new):
        self.world._record('notify', t=self.t, o=f'{old.name}->{new.name}')


# ---------------------------------------------------------------------------
# TLC behaviours -> stimulus schedules
# ---------------------------------------------------------------------------

_LBL = re.compile(r'^(\w+)(?:\((.*)\))?$')


def _parse_label(lab):
    m = _LBL.match(lab.strip())
    if not m:
        return lab, ()
    args = []
    if m.group(2):
        for a in m.group(2).split(','):
            a = a.strip()
            args.append(a[1:-1] if a.startswith('"') else int(a))
    return m.group(1), tuple(args)


def stimuli_of(labels):
    """Project a behaviour of TransferTasks onto what the harness drives.  Internal steps (task steps after a
    cancellation, done-callbacks, the end of a user call) happen by themselves in the real loop; a Cycle inside a
    user call becomes a request placed so that the cycle runs while the call is suspended."""
    out = []
    labs = [_parse_label(x) for x in labels]
    open_call = None      # index in out of the call whose return has not been seen
    seen_cd = seen_cb = False
    for pos, (name, a) in enumerate(labs):
        if name == 'Call':
            t, o = a
            hold = False
            for n2, a2 in labs[pos + 1:]:
                if n2 == 'FileGone' and a2[0] == t:
                    hold = True
                    break
                if n2 == 'Call':
                    break
            out.append(['call', t, o, None, hold])
            open_call = len(out) - 1
            seen_cd = seen_cb = False
        elif name == 'CancelDelivered':
            seen_cd = True
        elif name == 'DoneCallback':
            if seen_cd:
                seen_cb = True
        elif name == 'OpCancelled':
            if open_call is not None and not out[open_call][4]:
                open_call = None
            elif open_call is not None:
                open_call = -1 - open_call      # parked in the file removal: stimuli are ordinary again
        elif name == 'FileGone':
            out.append(['release', a[0]])
            open_call = None
        elif name == 'CycleSelect':
            out.append(['cycle_hold'])
        elif name == 'CycleStart':
            out.append(['fs_release'])
        elif name == 'Cycle':
            if open_call is not None and open_call >= 0 and out[open_call][3] is None:
                # the call is (possibly) suspended in gather(): the request is placed inside it - right after the
                # cancellation (0), after the cancelled task ended (1), after its done-callback (2).  For a call
                # that did not suspend this is simply a cycle right after it.
                out[open_call][3] = 0 if not seen_cd else (1 if not seen_cb else 2)
                continue
            out.append(['cycle'])
        elif name in ('Direct', 'Indirect'):
            t, kd, i, res = a
            out.append(['direct' if name == 'Direct' else 'indirect_', t, kd, i, res])
        elif name in ('FDirect', 'FIndirect'):
            t, i, res = a
            out.append(['direct' if name == 'FDirect' else 'indirect_', t, 'init', i, res,
                        'fdirect' if name == 'FDirect' else 'findirect'])
        elif name == 'PeerOffer':
            out.append(['peer_offer', a[0]])
        elif name == 'PeerQueueFailed':
            out.append(['peer_queue_failed', a[0], a[1]])
        elif name == 'PeerQueue':
            out.append(['peer_queue', a[0]])
        elif name == 'PeerTells':
            out.append(['peer_tells', a[0], a[1]])
        elif name == 'PConnLost':
            out.append(['pconn_lost'])
        elif name == 'Notify':
            t, i, stage, res = a
            out.append(['direct' if stage == 'ndirect' else 'indirect_', t, 'init', i, res, stage])
        elif name == 'FileConn':
            out.append(['file_conn', a[0], a[1], a[2]])
        elif name == 'Reply':
            out.append(['reply', a[0], a[1], a[2]])
        elif name == 'Offset':
            out.append(['offset', a[0], a[1], a[2]])
        elif name == 'Xfer':
            out.append(['xfer', a[0], a[1], a[2]])
        elif name == 'Requeue':
            out.append(['requeue', a[0]])
    return tuple(tuple(x) for x in out)


# ---------------------------------------------------------------------------
# light readers for TLC's dot dump and simulation files: only the action labels and kind0 of the first state
# are needed (tlc.dump_graph / tlc.simulate_behaviours parse every state, which dominates the run time here)
# ---------------------------------------------------------------------------

_KIND0 = re.compile(r'kind0 = <<(.*?)>>')


def _kinds_from_text(txt):
    m = _KIND0.search(txt.replace('\\"', '"'))
    if not m:
        raise MachineryFailure('kind0 not found in a TLC state')
    return tuple(x.strip().strip('"') for x in m.group(1).split(','))


def dump_graph_light(cfg, timeout=1500):
    d = tempfile.mkdtemp(prefix='c06dot-')
    try:
        path = os.path.join(d, 'g')
        res = tlc.run_tlc(SPEC, cfg, dump_dot=path, workers=1, timeout=timeout, parse_traces=False)
        g = tlc.Graph({}, [], [])
        with open(path + '.dot', encoding='utf8') as fh:
            for line in fh:
                head = line[:48]
                if ' -> ' in head:
                    src, _, rest = line.partition(' -> ')
                    dst, _, rest = rest.partition(' [label="')
                    end = rest.find('",color=')
                    lab = rest[:end] if end >= 0 else rest[:rest.rindex('"')]
                    g.edges.append((src.strip(), lab.replace('\\"', '"'), dst.strip()))
                elif 'style = filled' in line[-40:]:
                    nid = line[:line.index(' ')]
                    g.states[nid] = _kinds_from_text(line)
                    g.init.append(nid)
        return g, res
    finally:
        shutil.rmtree(d, ignore_errors=True)


def simulate_light(cfg, num, depth, seed, timeout=1500):
    """[(kinds, [labels...])] for `num` random behaviours."""
    d = tempfile.mkdtemp(prefix='c06sim-')
    try:
        res = tlc.run_tlc(SPEC, cfg, simulate=f'file={d}/tr,num={num}', depth=depth, workers=1, seed=seed,
                          timeout=timeout, parse_traces=False)
        out = []
        for fn in sorted(os.listdir(d)):
            if not fn.startswith('tr'):
                continue
            txt = open(os.path.join(d, fn), encoding='utf8').read()
            labels = re.findall(r'(?m)^\\\* <(.*?)(?: line \d+[^>]*)?>$', txt)
            if not labels:
                continue
            out.append((_kinds_from_text(txt), [x for x in labels if not x.startswith('Init')]))
        return out, res
    finally:
        shutil.rmtree(d, ignore_errors=True)


# schedules that are always replayed (instances of model behaviours, pinned so that sampling cannot miss them)
PINNED = [
    (('dq',), (('cycle',), ('cycle',), ('cycle',), ('call', 1, 'abort', None, False)), 'timeout'),
    (('dq',), (('cycle',), ('cycle',), ('cycle',), ('call', 1, 'abort', None, False)), 'ok'),
    (('dq',), (('cycle',), ('cycle',), ('call', 1, 'pause', None, False), ('requeue', 1)), 'fail'),
    (('di',), (('cycle',), ('direct', 1, 'rq', 1, 'fail'), ('indirect_', 1, 'rq', 1, 'fail'),
               ('call', 1, 'abort', None, False)), 'timeout'),
    (('uq',), (('cycle',), ('direct', 1, 'init', 1, 'fail'), ('indirect_', 1, 'init', 1, 'fail'),
               ('call', 1, 'pause', None, False)), 'timeout'),
    (('df',), (('cycle',), ('call', 1, 'remove', None, False)), 'timeout'),
    (('df',), (('cycle',), ('call', 1, 'remove', None, False)), 'ok'),
    (('di',), (('cycle',), ('call', 1, 'abort', None, True), ('cycle',), ('release', 1)), 'timeout'),
    (('dq',), (('cycle',), ('call', 1, 'pause', 1, False)), 'timeout'),
    (('di',), (('call', 1, 'abort', None, True), ('peer_offer', 1), ('release', 1)), 'ok'),
    (('dq',), (('cycle',), ('call', 1, 'abort', 0, False)), 'ok'),
    (('dq',), (('cycle',), ('call', 1, 'remove', None, False)), 'ok'),
    (('dq',), (('cycle',), ('call', 1, 'pause', None, False)), 'ok'),
    (('dq',), (('cycle',), ('peer_offer', 1), ('call', 1, 'abort', None, False)), 'ok'),
    (('dq',), (('cycle',), ('peer_offer', 1), ('file_conn', 1, 1, 'ok'), ('call', 1, 'pause', None, False)), 'ok'),
    (('uq',), (('cycle',), ('direct', 1, 'init', 1, 'ok'), ('call', 1, 'abort', None, False)), 'timeout'),
    (('uq',), (('cycle',), ('direct', 1, 'init', 1, 'ok'), ('reply', 1, 1, 'allow'), ('call', 1, 'pause', None, False)),
     'ok'),
    (('uq',), (('cycle',), ('direct', 1, 'init', 1, 'ok'), ('reply', 1, 1, 'allow'), ('direct', 1, 'init', 1, 'ok', 'fdirect'),
               ('offset', 1, 1, 'ok'), ('call', 1, 'abort', None, False)), 'timeout'),
    # a cycle lands inside remove() of a transfer that cannot be aborted (the call is waiting for its cancelled task)
    (('df',), (('cycle',), ('call', 1, 'remove', 0, False)), 'timeout'),
    (('df',), (('cycle',), ('call', 1, 'remove', 1, False)), 'ok'),
    (('df',), (('cycle',), ('call', 1, 'remove', 2, False)), 'timeout'),
    # a user call lands while the management cycle waits for the file system between selecting and starting
    (('uq',), (('cycle_hold',), ('call', 1, 'abort', None, False), ('fs_release',)), 'ok'),
    (('uq',), (('cycle_hold',), ('call', 1, 'remove', None, False), ('fs_release',)), 'timeout'),
    (('dq', 'uq'), (('cycle_hold',), ('call', 2, 'pause', None, False), ('call', 1, 'pause', None, False), ('fs_release',),
                    ('requeue', 2)), 'ok'),
    (('di',), (('cycle_hold',), ('call', 1, 'abort', None, True), ('fs_release',), ('release', 1)), 'timeout'),
    # the peer fails a paused download, with the boundary value of the free-form reason; cycles follow
    (('dq',), (('cycle',), ('call', 1, 'pause', None, False), ('peer_queue_failed', 1, 'empty'), ('cycle',), ('cycle',)), 'ok'),
    (('dq', 'dq'), (('call', 1, 'pause', None, False), ('peer_queue_failed', 1, 'text'), ('cycle',),
                    ('peer_queue_failed', 2, 'empty'), ('cycle',), ('call', 2, 'pause', None, False), ('cycle',)), 'timeout'),
    (('di',), (('cycle',), ('call', 1, 'pause', None, False), ('peer_queue_failed', 1, 'empty'), ('cycle',),
               ('requeue', 1)), 'timeout'),
    # peer frames landing inside a parked call / after its return
    (('di',), (('call', 1, 'abort', None, True), ('peer_queue_failed', 1), ('release', 1)), 'timeout'),
    (('di',), (('cycle',), ('call', 1, 'remove', None, True), ('peer_queue_failed', 1), ('peer_tells', 1, 'piq'),
               ('release', 1), ('peer_queue_failed', 1, 'text')), 'ok'),
    (('dq',), (('cycle',), ('direct', 1, 'rq', 1, 'ok'), ('call', 1, 'abort', None, False), ('peer_tells', 1, 'remQ'),
               ('peer_tells', 1, 'piq'), ('peer_queue_failed', 1, 'text')), 'timeout'),
    # the uploader repeats its offer with a new ticket while the first is being processed
    (('dq',), (('cycle',), ('peer_offer', 1), ('peer_offer', 1), ('call', 1, 'abort', None, False)), 'timeout'),
    (('dq',), (('cycle',), ('peer_offer', 1), ('peer_offer', 1), ('call', 1, 'pause', None, False),
               ('file_conn', 1, 1, 'ok')), 'ok'),
    (('dq',), (('cycle',), ('peer_offer', 1), ('direct', 1, 'rq', 1, 'fail'), ('indirect_', 1, 'rq', 1, 'fail'), ('cycle',),
               ('peer_offer', 1), ('call', 1, 'abort', None, False)), 'timeout'),
    # an upload breaks mid-transfer while the peer is hard to reach for the PeerUploadFailed notification
    (('uq',), (('cycle',), ('direct', 1, 'init', 1, 'ok'), ('reply', 1, 1, 'allow'), ('direct', 1, 'init', 1, 'ok', 'fdirect'),
               ('offset', 1, 1, 'ok'), ('pconn_lost',), ('xfer', 1, 1, 'break'), ('call', 1, 'remove', None, False)), 'ok'),
    (('uq',), (('cycle',), ('direct', 1, 'init', 1, 'ok'), ('reply', 1, 1, 'allow'), ('direct', 1, 'init', 1, 'ok', 'fdirect'),
               ('offset', 1, 1, 'ok'), ('pconn_lost',), ('xfer', 1, 1, 'reset'), ('peer_queue', 1), ('cycle',),
               ('call', 1, 'abort', None, False)), 'ok'),
    (('uq',), (('cycle',), ('direct', 1, 'init', 1, 'ok'), ('reply', 1, 1, 'allow'), ('direct', 1, 'init', 1, 'ok', 'fdirect'),
               ('offset', 1, 1, 'ok'), ('pconn_lost',), ('xfer', 1, 1, 'break'),
               ('direct', 1, 'init', 1, 'fail', 'ndirect'), ('call', 1, 'remove', None, False)), 'timeout'),
    (('dq', 'dq', 'uq'), (('cycle',), ('direct', 1, 'rq', 1, 'ok'), ('cycle',), ('call', 2, 'remove', None, False),
                          ('call', 3, 'pause', None, False), ('requeue', 3)), 'timeout'),
]


# ---------------------------------------------------------------------------
# replay
# ---------------------------------------------------------------------------

def execute(kinds, stimuli, conc, window):
    """Execute one schedule on the real client; returns the recorded trace (list of JSON-able records)."""
    tmp = tempfile.mkdtemp(prefix='c06-')
    box = {}

    async def main(loop):
        w = World(loop, tmp, kinds, conc)
        box['w'] = w
        try:
            await w.setup()
            for st in stimuli:
                fn = getattr(w, st[0])
                await fn(*st[1:])
            await w.window(window)
            try:
                await asyncio.wait_for(w.client.stop(), 30)
            except BaseException:  # noqa  (a stop() that hangs or raises is not a C06 observation)
                pass
        finally:
            w.teardown()
        return w.events

    try:
        try:
            events, loop = vloop.run(main)
        except vloop.Deadlock:
            # the code under test left the loop with nothing to run (e.g. awaiting a task nobody will finish):
            # keep what was recorded; a call that never returned is reported as such
            w = box['w']
            events = w.events
            tk = getattr(w, 'pending_call', None)
            if tk is not None and not any(e['ev'] == 'ret' and e['t'] == getattr(w, 'pending_t', 0) for e in events[-3:]):
                last = events[-1]
                events.append(dict(last, ev='ret', t=getattr(w, 'pending_t', 0), o=tk.get_name().split('-')[1],
                                   val='exc:NeverReturned'))

            class _L:
                unhandled = []
            loop = _L()
    finally:
        shutil.rmtree(tmp, ignore_errors=True)
    w = box['w']
    if w.harness_errors:
        raise MachineryFailure(f'harness could not observe: {w.harness_errors[:3]}')
    nmax = max((e['nT'] for e in events), default=0)
    if nmax > MAX_TASK_IDS:
        raise MachineryFailure(f'{nmax} negotiation tasks in one run exceed MaxTasks of Trace.cfg')
    return events, len(loop.unhandled)


def classify(traces, tids, timeout=900):
    """One TLC start (TraceWhy.cfg) naming, for every trace in `tids`, the first event that breaks a property."""
    if not tids:
        return {}
    d = tempfile.mkdtemp(prefix='c06why-')
    try:
        f = os.path.join(d, 'batch.json')
        with open(f, 'w') as fh:
            json.dump([traces[t - 1] for t in tids], fh)
        res = tlc.run_tlc(TRACE, 'TraceWhy.cfg', workers=4, deadlock=False, env=dict(TRACE_FILE=f), timeout=timeout,
                          parse_traces=False)
        out = {}
        joined = ' '.join(res.prints)
        for m in re.finditer(r'<<"REJECT", (\d+), (\d+), "(\w+)">>', joined):
            tid = tids[int(m.group(1)) - 1]
            l = int(m.group(2))
            if tid not in out or l < out[tid][0]:
                out[tid] = (l, m.group(3))
        return out
    finally:
        shutil.rmtree(d, ignore_errors=True)


def fingerprint(tid, info, trace):
    """Names the failing site: which property, at which kind of event, in which way."""
    ev = info.get('event') or {}
    name = info.get('name')
    at = info.get('at')
    if info.get('kind') != 'property':
        if ev:
            return f"C06:unexplained:{ev.get('ev')}:{ev.get('o')}:{str(ev.get('val'))[:40]}"
        return 'C06:rejected-trace'
    s = ev.get('s') or []
    kinds0 = trace[0].get('kinds') or []
    if name == 'AtMostOneNegotiation':
        for i, x in enumerate(s):
            if len(x['ltt']) > 1 and i < len(kinds0) and kinds0[i] != 'uq':
                # state of the transfer when the repeated offer was accepted (record before the failing one)
                idx = (at or 1) - 1
                prev = trace[idx - 1]['s'][i]['f']['st'] if 0 < idx < len(trace) else '?'
                return ('C06:peer-transfer-request:second-initialize-download-started-while-one-is-in-flight:'
                        f'state-{prev}')
        kind = 'queue-remotely' if any(len(x['lrq']) > 1 for x in s) else 'initialize'
        return f'C06:manage_transfers:second-{kind}-task-started-while-one-is-in-flight'
    if name == 'SlotsTrackLive':
        if any(x.get('loth') for x in s):
            return 'C06:detached-task:works-for-the-transfer-outside-its-slots'
        for x in s:
            for live, slot in ((x['lrq'], x['rq']), (x['ltt'], x['tt'])):
                if any(k != slot for k in live):
                    if slot == 0:
                        return 'C06:done-callback:slot-cleared-while-a-newer-task-is-live'
                    return 'C06:slot:overwritten-while-its-task-is-live'
        return 'C06:SlotsTrackLive'
    if name == 'QuietNoTasks':
        if ev.get('ev') == 'ret':
            o, t = ev.get('o'), ev.get('t')
            st = s[t - 1]['f']['st'] if 0 < t <= len(s) else '?'
            # was the surviving task started while the call was in progress?
            idx = (at or 1) - 1
            n_before = None
            for j in range(idx - 1, -1, -1):
                if trace[j]['ev'] == 'call' and trace[j]['t'] == t:
                    n_before = trace[j]['nT']
                    break
            live = s[t - 1]['lrq'] + s[t - 1]['ltt'] + s[t - 1].get('loth', []) if 0 < t <= len(s) else []
            if o == 'remove' and st != 'ABORTED':
                return f'C06:remove:task-survives-remove-in-state-{st}'
            if n_before is not None and any(k > n_before for k in live):
                kinds = trace[0].get('kinds') or []
                by_peer = (0 < t <= len(kinds) and kinds[t - 1] != 'uq'
                           and any(k > n_before for k in s[t - 1]['ltt']))
                by = 'by-peer-transfer-request' if by_peer else 'by-manage_transfers'
                return f'C06:{o}:task-started-during-the-call-survives-it:{by}'
            return f'C06:{o}:live-task-after-return'
        return f"C06:quiet:task-live-after-return:{ev.get('ev')}"
    if name in ('QuietAfterReturn', 'QuietAfterReturnT'):
        if ev.get('ev') == 'msg':
            return f"C06:after-return:message:{ev.get('what')}"
        if ev.get('ev') == 'conn':
            return f"C06:after-return:connection:{ev.get('what')}"
        return f"C06:after-return:field-change:{ev.get('ev')}"
    return f'C06:{name}'


def _trace_key(ev):
    return tuple((e['ev'], e['t'], e['o'], e['val'], e['what'],
                  tuple((x['f']['st'], x['rq'], x['tt'], tuple(x['lrq']), tuple(x['ltt'])) for x in e['s'])) for e in ev)


def collect_schedules(chk: Check, thorough: bool):
    """(kinds, stimuli) -> source.  Edge cover of an exhaustive state graph, simulation of the three-transfer model
    in the repaired and in the code's switch position, and the pinned schedules."""
    scheds = {}
    for kinds, stim, window in PINNED:
        scheds.setdefault((kinds, stim, window), 'pinned')

    cover_cfg = 'MC_quick.cfg' if thorough else 'MC_cover.cfg'
    num = 1500 if thorough else 130
    sims = (('MC_sim.cfg', 'sim3'), ('MC_code_sim.cfg', 'sim3-code-position'))
    g, res = dump_graph_light(cover_cfg)
    if not res.ok:
        raise MachineryFailure(f'graph dump failed: {[(i.kind, i.name) for i in res.issues]}')
    paths = tlc.path_cover(g)
    n0 = len(scheds)
    for p in paths:
        kinds = g.states[p[0][0]]
        st = stimuli_of([e[1] for e in p])
        if st:
            scheds.setdefault((kinds, st, None), 'cover')
    chk.log(f'graph {cover_cfg}: {res.distinct_states} states, {len(g.edges)} edges, {len(paths)} cover paths, '
            f'{len(scheds) - n0} distinct schedules')
    chk.cov['graph_edges'] = len(g.edges)
    chk.cov['cover_paths'] = len(paths)
    chk.cov['cover_schedules'] = len(scheds) - n0

    # exhaustive model of the cycle that waits between selecting and starting; its graph is checked (all
    # properties) and covered in the same TLC run
    g2, res2 = dump_graph_light('MC_split.cfg')
    if not res2.ok:
        raise MachineryFailure(f'MC_split.cfg: {[(i.kind, i.name) for i in res2.issues]}')
    labels2 = {e[1].split('(')[0] for e in g2.edges}
    if not {'CycleSelect', 'CycleStart', 'Call'} <= labels2:
        raise MachineryFailure('vacuity: MC_split.cfg never takes CycleSelect / CycleStart')
    chk.add_model('TransferTasks 1 transfer, cycle waits between select and start (exhaustive)', res2)
    n2 = len(scheds)
    for p in tlc.path_cover(g2):
        labs = [e[1] for e in p]
        if not any(x.startswith('CycleSelect') for x in labs):
            continue
        st = stimuli_of(labs)
        if st:
            scheds.setdefault((g2.states[p[0][0]], st, None), 'cover-split')
    chk.log(f'graph MC_split.cfg: {res2.distinct_states} states, {len(g2.edges)} edges, {len(scheds) - n2} new schedules')

    for cfg, src in sims:
        behs, sres = simulate_light(cfg, num, 28, chk.seed + 11)
        if src == 'sim3' and any(i.kind in ('invariant', 'action_property') for i in sres.issues):
            raise MachineryFailure(f'simulation of the repaired design found {[(i.kind, i.name) for i in sres.issues]}')
        n1 = len(scheds)
        for kinds, labels in behs:
            st = stimuli_of(labels)
            if st:
                scheds.setdefault((kinds, st, None), src)
        chk.log(f'simulation {cfg}: {len(behs)} behaviours, {len(scheds) - n1} new schedules')
        chk.cov[f'behaviours_{src}'] = len(behs)
    return scheds


EXPECT_ACTIONS = ['Cycle', 'DoneCallback', 'CancelDelivered', 'Direct', 'Indirect', 'PeerOffer', 'PeerQueueFailed',
                  'PeerQueue', 'PeerTells', 'PConnLost', 'FileConn', 'Reply', 'FDirect', 'FIndirect', 'Offset', 'Xfer',
                  'Call', 'OpCancelled', 'FileGone', 'Requeue']

SWITCH_EXPECT = {
    'SkipOccupied': 'AtMostOneNegotiation',
    'CallbackOwnOnly': 'SlotsTrackLive',
    'RemoveCancels': 'QuietNoTasks',
    'CycleSkipsLocked': 'QuietNoTasks',
    'OfferSkipsLocked': 'QuietNoTasks',
    'OfferSkipsOccupied': 'AtMostOneNegotiation',
    'StartRechecks': 'QuietNoTasks',
}


def _classified(traces, v):
    """Name, for every rejected trace, the first event that breaks a property (TraceWhy.cfg, one TLC start)."""
    why = classify(traces, sorted(v.rejected))
    for tid, (l, prop) in why.items():
        info = v.rejected[tid]
        v.rejected[tid] = dict(kind='property', name=prop, at=l,
                               detail=(info.get('detail') or '') + ' [event named by TraceWhy.cfg]',
                               event=traces[tid - 1][l - 1] if 0 < l <= len(traces[tid - 1]) else None)
    for tid, info in v.rejected.items():
        if info.get('kind') == 'rejected' and info.get('at') is None:
            # no property named and not diagnosed: an event no action of the trace spec explains
            tr = traces[tid - 1]
            bad = next((e for e in tr if e['ev'] == 'ret' and e['val'] not in ('ok', 'refused')), None)
            v.rejected[tid] = dict(kind='unexplained_event', name='NoSpecActionMatches', at=-1, detail='',
                                   event=bad or (tr[-1] if tr else None))
    return v


def replay(chk: Check, data: dict):
    """./check C06 --replay FILE: re-execute the schedule of a replay file on the current tree and validate it."""
    meta = (data.get('replay') or {}).get('meta') or {}
    kinds = tuple(meta['kinds'])
    stim = tuple(tuple(x) for x in meta['stimuli'])
    trace, _ = execute(kinds, stim, meta.get('conc') or {}, meta.get('window') or 'timeout')
    for e in trace:
        if e['ev'] != 'tick':
            print('  ', e['vt'], {k: x for k, x in e.items() if k not in ('s', 'vt', 'ts', 'amb', 'nT') and x not in ('none', 0)},
                  ' | '.join(f"{x['f']['st']} slots={x['rq']},{x['tt']} live={x['lrq']}{x['ltt']}"
                             for x in e['s'][:len(kinds)]))
    chk.count(_trace_key(trace))
    v = tlc.validate_traces(TRACE, 'Trace.cfg', [trace], diag_cfg='TraceDiag.cfg', timeout=600)
    chk.apply_verdicts(_classified([trace], v), [trace], fingerprint, meta_of=lambda tid: meta)
    chk.log(f'replay: {"accepted" if v.accepted else "rejected"}')


def run(chk: Check, args):
    thorough = chk.tier == 'thorough'
    chk.cov['rule'] = ('schedule = (flavours of 1..3 transfers with one peer, sequence of stimuli: management-cycle '
                       'trigger, connect outcome per attempt, peer frames, abort/pause/remove/queue calls incl. a '
                       'cycle placed inside the call / the call held in its file removal), projected from TLC '
                       'behaviours (edge cover of an exhaustive graph + simulation of the 3-transfer model in the '
                       'repaired and in the code\'s switch position + pinned instances); each is executed on a real '
                       'logged-in SoulSeekClient on the simulated network in virtual time, followed by a 353 s '
                       'observation window; distinct = distinct recorded traces; non-trivial = contains a user call')

    # ---- design model ------------------------------------------------------------------------------
    r = tlc.model_check(SPEC, 'MC_quick.cfg', expect_actions=EXPECT_ACTIONS, timeout=1500)
    chk.add_model('TransferTasks 1 transfer (exhaustive)', r)
    chk.add_model('TransferTasks 1 download, repeated offers (exhaustive)',
                  tlc.model_check(SPEC, 'MC_reoffer.cfg', expect_actions=['PeerOffer', 'FileConn'], timeout=1500))
    chk.add_model('TransferTasks 1 upload to the end incl. failure notification (exhaustive)',
                  tlc.model_check(SPEC, 'MC_up.cfg', expect_actions=['Notify', 'Xfer', 'PConnLost', 'PeerQueue'], timeout=1500))
    # the design with the switches in the code's (pre-repair) positions must break the properties: all switches at
    # once in the quick tier (one TLC start), one by one with the property each is expected to break in the thorough
    # tier (these runs depend on the specification text only, not on the code under test)
    rs = tlc.run_tlc(SPEC, 'MC_no_all.cfg', workers=2, timeout=900)
    hit = any(i.kind in ('invariant', 'action_property') for i in rs.issues)
    chk.cov['binding_selftest']['model_with_all_switches_FALSE_violates_a_property'] = hit
    if not hit:
        raise MachineryFailure('design model with every switch FALSE satisfies all properties')
    if thorough:
        for sw, prop in SWITCH_EXPECT.items():
            rs = tlc.run_tlc(SPEC, f'MC_no_{sw}.cfg', workers=2, timeout=900)
            hit = any(i.name == prop for i in rs.issues)
            chk.cov['binding_selftest'][f'model_with_{sw}_FALSE_violates_{prop}'] = hit
            if not hit:
                raise MachineryFailure(f'design model with {sw}=FALSE did not violate {prop}')
        chk.log('design model: each switch in the code\'s position violates its expected property (7 configs)')
    if thorough:
        r2 = tlc.model_check(SPEC, 'MC_t2.cfg', timeout=3000)
        chk.add_model('TransferTasks 2 transfers (exhaustive)', r2)

    # ---- schedules ---------------------------------------------------------------------------------
    scheds = collect_schedules(chk, thorough)
    keys = sorted(scheds, key=repr)
    cap = 1500 if thorough else 280
    pinned = [k for k in keys if scheds[k] == 'pinned']
    rest = [k for k in keys if scheds[k] != 'pinned']
    if len(rest) > cap - len(pinned):
        # keep the sources balanced
        by = {}
        for k in rest:
            by.setdefault(scheds[k], []).append(k)
        take = []
        for src in sorted(by):
            chk.rng.shuffle(by[src])
        while len(take) < cap - len(pinned) and any(by.values()):
            for src in sorted(by):
                if by[src] and len(take) < cap - len(pinned):
                    take.append(by[src].pop())
        rest = sorted(take, key=repr)
    keys = pinned + rest
    chk.cov['schedules_total'] = len(scheds)
    chk.cov['schedules_replayed'] = len(keys)
    chk.cov['exhaustive'] = False

    traces, metas = [], []
    unhandled = 0
    for (kinds, stim, window) in keys:
        conc = dict(tag=chk.rng.choice('abcdef') + str(chk.rng.randrange(100)),
                    cycle=chk.rng.choice(['status', 'status', 'request']))
        win = window or chk.rng.choice(['timeout', 'timeout', 'ok', 'fail'])
        ev, nun = execute(kinds, stim, conc, win)
        unhandled += nun
        traces.append(ev)
        metas.append(dict(kinds=list(kinds), stimuli=[list(x) for x in stim], conc=conc, window=win,
                          source=scheds[(kinds, stim, window)]))
        chk.count(_trace_key(ev), nontrivial=any(e['ev'] == 'call' for e in ev))
    import hashlib
    chk.cov['trace_digest'] = hashlib.sha1(json.dumps(traces, sort_keys=True).encode()).hexdigest()[:16]
    chk.log(f'replayed {len(traces)} schedules on the real client '
            f'({sum(len(t) for t in traces)} events, {unhandled} loop-level exceptions outside C06 ignored)')
    chk.notes.append(f'{unhandled} exceptions reached the loop exception handler during the runs; they are not '
                     f'C06 observations (C10/C11/C12 territory) and are ignored here')
    for i in (0, len(traces) // 2, len(traces) - 1):
        chk.sample(dict(meta=metas[i], trace=[{k: x for k, x in e.items() if k != 's'} for e in traces[i]][:40]))

    # ---- verdicts: TLC on the recorded traces ---------------------------------------------------------
    v = tlc.validate_traces(TRACE, 'Trace.cfg', traces, diag_cfg='TraceDiag.cfg', max_diag=2, timeout=1500, chunk=1500)
    _classified(traces, v)
    chk.apply_verdicts(v, traces, fingerprint, meta_of=lambda tid: metas[tid - 1])
    chk.log(f'trace validation: {len(v.accepted)} accepted, {len(v.rejected)} rejected')
    fps = {}
    for tid, info in v.rejected.items():
        fp = fingerprint(tid, info, traces[tid - 1])
        fps[fp] = fps.get(fp, 0) + 1
    chk.cov['rejected_by_fingerprint'] = fps
    for fp, n in sorted(fps.items()):
        chk.log(f'  {n:4d} x {fp}')

    # ---- binding self-test: corrupted observations must be rejected -------------------------------
    corrupted = []
    pool = [traces[tid - 1] for tid in sorted(v.accepted)]
    for tr in pool:
        idx = [i for i, e in enumerate(tr) if e['ev'] == 'ret' and e['val'] == 'ok' and e['o'] != 'queue']
        if not idx or idx[-1] + 2 >= len(tr):
            continue
        i = idx[-1]
        t = tr[i]['t']
        if any(e['ev'] == 'call' for e in tr[i + 1:]):
            continue
        kind = len(corrupted) % 4
        bad = copy.deepcopy(tr)
        j = i + 2
        if kind == 0:       # a task of the transfer is still live after the return
            for e in bad[i:]:
                e['s'][t - 1]['lrq'] = [e['nT'] + 1]
                e['s'][t - 1]['rq'] = e['nT'] + 1
                e['nT'] += 1
        elif kind == 1:     # a message about the file is written after the return
            bad.insert(j, dict(bad[j], ev='msg', t=t, what='PeerTransferQueue'))
        elif kind == 2:     # a field changes after the return
            for e in bad[j:]:
                e['s'][t - 1]['f']['remQ'] = not e['s'][t - 1]['f']['remQ']
        else:               # a connection is opened on its behalf
            bad.insert(j, dict(bad[j], ev='conn', ts=[t], amb=False, what='connect'))
        corrupted.append(bad)
        if len(corrupted) >= 8:
            break
    # a live task that its slot does not reach / two live tasks of one kind
    for tr in pool[:40]:
        for i, e in enumerate(tr):
            if e['s'][0]['lrq'] and len(corrupted) < 12:
                bad = copy.deepcopy(tr)
                if len(corrupted) % 2:
                    bad[i]['s'][0]['rq'] = 0
                else:
                    bad[i]['s'][0]['lrq'] = bad[i]['s'][0]['lrq'] + [bad[i]['nT'] + 1]
                    bad[i]['nT'] += 1
                corrupted.append(bad)
                break
    if corrupted:
        cv = tlc.validate_traces(TRACE, 'Trace.cfg', corrupted, max_diag=0, timeout=600)
        chk.cov['binding_selftest']['corrupted_traces_rejected'] = f'{len(cv.rejected)}/{len(corrupted)}'
        if len(cv.rejected) != len(corrupted):
            raise MachineryFailure(f'corrupted traces were accepted by the trace spec: {sorted(cv.accepted)}')
    else:
        raise MachineryFailure('no accepted trace with a returned call to corrupt')
    chk.assumptions += [
        'CPython asyncio: task.cancel() is delivered at the task\'s next step; done-callbacks run one ready-slot '
        'after the task ended, in registration order; Queue.put_nowait wakes the getter through the ready queue',
        'tasks are found by what they hold (the Transfer object or its remote path among the locals of their '
        'coroutine) or by the slot that references them, never by name; the kind of a task is the slot '
        '(_remotely_queue_task / _transfer_task) in which it is first seen',
        'remotely_queued / place_in_queue mirror the peer\'s queue: a change of exactly that field in the span in '
        'which the peer tells it (PeerUploadFailed / PeerPlaceInQueueReply) is not a change made by the client; '
        'likewise PAUSED -> FAILED (+ fail_reason) on the peer\'s PeerTransferQueueFailed is a documented edge - the '
        'transfer stays quiet afterwards (a queue failure is no re-queue); the reason is sent with ordinary text '
        'and with the boundary value \'\'',
        'any task (whatever its name) whose coroutine holds the Transfer object or its remote path counts as working '
        'for the transfer; it must be reachable through Transfer.get_tasks()',
        'peer status changes used as cycle triggers are ONLINE/AWAY (an OFFLINE status resets remotely_queued of '
        'every download of that user, also of aborted ones; judged benign and left out)',
        'one peer, fallback connect mode, GetPeerAddress answered at once; timeouts (10 s connect, 60 s indirect / '
        'file connection, 30 s reply) elapse only in the observation window',
    ]

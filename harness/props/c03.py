"""C03 - transfer state changes follow the documented graph (spec: TransferState)."""
from __future__ import annotations

import asyncio
import os
import re
import shutil
import tempfile
from unittest.mock import AsyncMock, MagicMock

from .. import tlc, vloop
from ..core import Check, MachineryFailure

SPEC = 'TransferState/TransferState.tla'
TRACE = 'TransferState/TransferStateTrace.tla'

_CALL = re.compile(r'Call\((\d+),"(\w+)",(TRUE|FALSE)\)')


# ---------------------------------------------------------------------------
# behaviours -> stimulus schedules
# ---------------------------------------------------------------------------

def _stimuli_of(labels):
    """Project a behaviour (sequence of action labels) onto the steps the harness drives:
    Call / TasksGone / FileGone.  Internal steps happen by themselves in the real code."""
    out = []
    ren = {}
    for lab in labels:
        m = _CALL.match(lab)
        if m:
            c = ren.setdefault(m.group(1), len(ren) + 1)
            out.append(('call', c, m.group(2), m.group(3) == 'TRUE'))
        elif lab.startswith('TasksGone'):
            out.append(('tasksgone',))
        elif lab.startswith('FileGone'):
            out.append(('filegone',))
        elif lab.startswith('FileFail'):
            out.append(('filefail',))
        elif lab.startswith('ListenerDone'):
            out.append(('lstdone',))
        elif lab.startswith('CancelInListener'):
            out.append(('lstcancel',))
    return tuple(out)


def _suspended_holders(labels):
    """Number of distinct callers that were suspended inside a method body in this behaviour."""
    return len({m.group(1) for lab in labels for m in [re.match(r'(?:TasksGone|FileGone|FileFail)\((\d+)\)', lab)] if m})


def _init_key(st):
    return (str(st['dir']), str(st['st']), bool(st['file']), bool(st['bg']), bool(st['failR']),
            str(st['lst2']), bool(st['loaded']))


# ---------------------------------------------------------------------------
# replay on the real objects
# ---------------------------------------------------------------------------

class Replayer:
    def __init__(self, tmpdir, api: bool, allbytes: bool = False):
        self.tmpdir = tmpdir
        self.api = api
        self.allbytes = allbytes      # load mode: the stored record had received/sent every byte

    def run(self, init, stimuli):
        return self.run_batch([(init, stimuli)])[0]

    def run_batch(self, items):
        """Execute many schedules in one virtual loop, one after the other."""
        out = []

        async def main(loop):
            self._env = None
            for init, stimuli in items:
                events = []
                before = set(asyncio.all_tasks(loop))
                n0 = len(loop.unhandled)
                try:
                    await self._main(loop, init, stimuli, events)
                except Exception as exc:          # raised by the code under test outside a caller
                    events.append(dict(ev='harness_saw_exception', what=type(exc).__name__,
                                       snap=events[-1]['snap'] if events else {}))
                if len(loop.unhandled) > n0:
                    events.append(dict(ev='loop_exception', what=str(loop.unhandled[n0].get('message'))[:200],
                                       snap=events[-1]['snap']))
                # leftovers of this schedule must not leak into the next one
                left = [tk for tk in asyncio.all_tasks(loop) if tk not in before and not tk.done()
                        and tk is not asyncio.current_task()]
                for tk in left:
                    tk.cancel()
                if left:
                    try:
                        await asyncio.wait(left, timeout=5)
                    except RecursionError:
                        pass
                loop.executor_gate = None
                out.append(events)
        vloop.run(main)
        return out

    async def _main(self, loop, init, stimuli, events):
        from aioslsk.transfer.model import Transfer, TransferDirection
        from aioslsk.transfer.state import TransferState
        from aioslsk.transfer.manager import TransferManager
        from aioslsk.exceptions import InvalidStateTransition
        from aioslsk.settings import Settings
        from aioslsk.events import EventBus
        from aioslsk.user.manager import UserManager

        d, s0, has_file, has_bg = init[:4]
        has_reason = init[4] if len(init) > 4 else (s0 == 'FAILED')
        lst2 = init[5] if len(init) > 5 else 'none'
        loaded = init[6] if len(init) > 6 else True
        direction = TransferDirection.UPLOAD if d == 'up' else TransferDirection.DOWNLOAD
        t = Transfer('peer', 'music\\song.mp3', direction)
        t.state = TransferState.init_from_state(TransferState.State[s0], t)
        path = os.path.join(self.tmpdir, 'song.mp3')
        if os.path.exists(path):
            os.remove(path)
        if d == 'down' and s0 != 'VIRGIN':
            t.local_path = path
            if has_file:
                with open(path, 'wb') as fh:
                    fh.write(b'x' * 10)
        if d == 'up':
            t.local_path = os.path.join(self.tmpdir, 'shared.mp3')
            with open(t.local_path, 'wb') as fh:
                fh.write(b'y' * 10)
        if s0 == 'FAILED' and has_reason:
            t.fail_reason = 'r0'
        if s0 == 'ABORTED':
            t.abort_reason = 'Requested'
        if s0 in ('DOWNLOADING', 'UPLOADING', 'COMPLETE', 'INCOMPLETE'):
            t.start_time = 5.0
        if s0 in ('COMPLETE', 'INCOMPLETE'):
            t.complete_time = 6.0

        if getattr(self, '_env', None) is None:
            settings = Settings(credentials={'username': 'me', 'password': 'pw'})
            bus = EventBus()
            network = AsyncMock()
            um = UserManager(settings, bus, network)
            self._env = (settings, bus, um, TransferManager(settings, bus, um, AsyncMock(), network))
        manager = self._env[3]
        manager._transfers.clear()
        added_seen = []
        if loaded:
            await manager.add(t)
        else:
            # stored record: installed the way a start-up does it, through read_cache(); the
            # application attaches its listener from the TransferAddedEvent handler
            from aioslsk.events import TransferAddedEvent
            t.filesize = 10
            t.bytes_transfered = 10 if self.allbytes else 3
        from aioslsk.user.model import BlockingFlag
        if self.api == 'mgmt':
            self._env[0].users.blocked['peer'] = BlockingFlag.UPLOADS
        else:
            self._env[0].users.blocked.pop('peer', None)

        tsmap = {}
        cancels = [0]
        removed_gate = []          # pending gated executor calls

        def snap():
            key = (t.start_time, t.complete_time)
            ts = tsmap.setdefault(key, len(tsmap))
            upl = os.path.join(self.tmpdir, 'shared.mp3')
            return dict(st=t.state.VALUE.name,
                        file=os.path.exists(path) if d == 'down' else os.path.exists(upl),
                        lp=t.local_path is not None,
                        fr=t.fail_reason if t.fail_reason is not None else 'none',
                        ar=t.abort_reason if t.abort_reason is not None else 'none',
                        ts=ts, rq=bool(t.remotely_queued), nc=cancels[0],
                        bt=t.bytes_transfered)

        class Listener:
            async def on_transfer_state_changed(self, transfer, old, new):
                events.append(dict(ev='notify', old=old.name, new=new.name, snap=snap()))

        lst = Listener()

        class ListenerBoom(Exception):
            pass

        lst_gates = []             # (future, task) of callers suspended in the slow application listener
        lst_cancelled = set()      # tasks the harness cancelled there

        class Listener2:
            async def on_transfer_state_changed(self, transfer, old, new):
                if lst2 == 'raise':
                    raise ListenerBoom()
                if lst2 == 'slow':
                    fut = loop.create_future()
                    lst_gates.append((fut, asyncio.current_task()))
                    await fut

        lst2_obj = Listener2()
        if loaded:
            t.state_listeners.append(lst)
            t.state_listeners.append(lst2_obj)
        else:
            async def on_added(event):
                if event.transfer is t or event.transfer == t:
                    tr = event.transfer
                    added_seen.append(tr.state.VALUE.name)
                    events.append(dict(ev='init', dir=d, st=tr.state.VALUE.name,
                                       file=os.path.exists(path) if d == 'down' else False,
                                       bg=False, failR=tr.fail_reason is not None, lst2=lst2, load=True, snap=snap()))
                    tr.state_listeners.append(lst)
                    tr.state_listeners.append(lst2_obj)
            self._keep = on_added       # the bus holds listeners weakly
            self._env[1].register(TransferAddedEvent, on_added)
            old_cache = manager.cache
            manager.cache = MagicMock()
            manager.cache.read = MagicMock(return_value=[t])
            try:
                await manager.read_cache()
            finally:
                manager.cache = old_cache
                self._env[1].unregister(TransferAddedEvent, on_added)
            await vloop.settle(loop)
            if not added_seen:
                events.append(dict(ev='init', dir=d, st=t.state.VALUE.name, file=False, bg=False, failR=False,
                                   lst2=lst2, load=True, snap=snap()))
                events.append(dict(ev='harness_saw_exception', what='no-TransferAddedEvent-for-the-stored-transfer',
                                   snap=snap()))
                return events

        # gated executor: hold os.remove until the behaviour says FileGone
        def gate(func, a):
            if getattr(func, 'func', func) is os.remove or func is os.remove:
                fut = loop.create_future()
                removed_gate.append((fut, func, a))
                return fut
            return None
        loop.executor_gate = gate

        # background task of the transfer (a queue-remotely attempt in flight)
        bg_release = loop.create_future()

        async def bg_task():
            try:
                await loop.create_future()
            except asyncio.CancelledError:
                cancels[0] += 1
                try:
                    await asyncio.shield(bg_release)
                except asyncio.CancelledError:
                    cancels[0] += 1
                    await asyncio.shield(bg_release)
                raise

        if has_bg:
            t._remotely_queue_task = asyncio.create_task(bg_task(), name='queue-remotely-sim')
            t._remotely_queue_task.add_done_callback(t._remotely_queue_task_complete)
            await asyncio.sleep(0)

        if loaded:
            events.append(dict(ev='init', dir=d, st=s0, file=snap()['file'] if d == 'down' else False,
                               bg=has_bg, failR=bool(has_reason), lst2=lst2, load=False, snap=snap()))
            if d == 'up':
                events[-1]['file'] = False

        task_slot_used = [False]

        async def caller(c, op, as_task):
            state_obj = t.state
            seen = state_obj.VALUE.name
            events.append(dict(ev='call', c=c, op=op, seen=seen, task=as_task, snap=snap()))
            try:
                if self.api == 'mgmt' and op == 'abort' and not as_task:
                    # the management job's way of aborting: manage_shares_changed() for a blocked user
                    n0 = sum(1 for e in events if e['ev'] == 'notify' and e['new'] == 'ABORTED')
                    await manager.manage_shares_changed()
                    val = sum(1 for e in events if e['ev'] == 'notify' and e['new'] == 'ABORTED') > n0
                elif self.api and op in ('abort', 'queue', 'pause') and not as_task:
                    # TransferManager API: raises InvalidStateTransition on refusal
                    try:
                        await getattr(manager, op)(t)
                        val = True
                    except InvalidStateTransition:
                        val = False
                else:
                    meth = getattr(state_obj, {'start': 'start_transferring'}.get(op, op))
                    if op == 'fail':
                        val = await meth(reason=f'r{c}')
                    elif op == 'abort':
                        val = await meth(reason='Requested' if self.api == 'mgmt' else f'A{c}')
                    else:
                        val = await meth()
            except asyncio.CancelledError:
                if asyncio.current_task() in lst_cancelled:
                    # cancelled by the environment inside the slow application listener
                    events.append(dict(ev='ret', c=c, val='raised', snap=snap()))
                    return
                events.append(dict(ev='cancelled', c=c, snap=snap()))
                raise
            except ListenerBoom:
                events.append(dict(ev='ret', c=c, val='raised', snap=snap()))
                return
            except Exception as exc:  # the code under test raised: an observation
                events.append(dict(ev='ret', c=c, val=f'exc:{type(exc).__name__}', snap=snap()))
                return
            events.append(dict(ev='ret', c=c, val='true' if val is True else 'false' if val is False else repr(val),
                               snap=snap()))

        tasks = []
        for stim in stimuli:
            if stim[0] == 'call':
                _, c, op, as_task = stim
                if as_task and task_slot_used[0]:
                    as_task = False
                tk = asyncio.create_task(caller(c, op, as_task), name=f'caller-{c}')
                if as_task:
                    task_slot_used[0] = True
                    t._transfer_task = tk
                    tk.add_done_callback(t._transfer_task_complete)
                tasks.append(tk)
            elif stim[0] == 'tasksgone':
                if not bg_release.done():
                    bg_release.set_result(None)
            elif stim[0] == 'filegone':
                self._release_files(removed_gate)
            elif stim[0] == 'filefail':
                # the removal fails: the held os.remove raises instead of running
                while removed_gate:
                    fut, func, a = removed_gate.pop(0)
                    if not fut.done():
                        fut.set_exception(OSError(5, 'Input/output error'))
                        break
            elif stim[0] == 'lstdone':
                self._release_listener(lst_gates)
            elif stim[0] == 'lstcancel':
                while lst_gates:
                    fut, tk = lst_gates.pop(0)
                    if not fut.done() and not tk.done():
                        lst_cancelled.add(tk)
                        tk.cancel()
                        break
            await vloop.settle(loop)
        # let everything finish: release all gates
        for _ in range(8):
            if not bg_release.done():
                bg_release.set_result(None)
            self._release_files(removed_gate)
            while self._release_listener(lst_gates):
                pass
            await vloop.settle(loop)
        pending = [tk for tk in tasks if not tk.done()]
        if pending:
            events.append(dict(ev='stuck', n=len(pending), snap=snap()))
        for x in (lst, lst2_obj):
            if x in t.state_listeners:
                t.state_listeners.remove(x)
        return events

    @staticmethod
    def _release_listener(gates):
        while gates:
            fut, tk = gates.pop(0)
            if not fut.done():
                fut.set_result(None)
                return True
        return False

    @staticmethod
    def _release_files(gated):
        while gated:
            fut, func, a = gated.pop(0)
            if fut.done():
                continue
            try:
                fut.set_result(func(*a))
            except BaseException as exc:  # noqa
                fut.set_exception(exc)


# ---------------------------------------------------------------------------

def _fingerprint(tid, info, trace):
    ev = info.get('event') or {}
    if info.get('kind') == 'property':
        return f"C03:{info.get('name')}"
    if ev.get('ev') == 'notify':
        return f"C03:illegal-or-unexpected-transition:{ev.get('old')}->{ev.get('new')}"
    if ev.get('ev') == 'ret' and ev.get('val') == 'false':
        return 'C03:refusal-with-side-effect-or-unjustified'
    if ev.get('ev') == 'ret':
        return f"C03:unexpected-result:{ev.get('val')}"
    return f"C03:unexplained:{ev.get('ev')}"


DOUBLE = set()     # schedules in which two different holders were suspended one after the other


def collect_schedules(chk: Check, thorough: bool):
    """TLC-generated behaviours projected onto stimulus schedules, by source."""
    scheds = {}
    DOUBLE.clear()

    def add_cover(cfg, tag):
        g, res = tlc.dump_graph(SPEC, cfg, parse_states='init', timeout=1500)
        if not res.ok:
            raise MachineryFailure(f'graph dump failed for {cfg}: {[(i.kind, i.name) for i in res.issues]}')
        paths = tlc.path_cover(g)
        n = 0
        for p in paths:
            init = _init_key(g.states[p[0][0]])
            labels = [e[1] for e in p]
            st = _stimuli_of(labels)
            if st and _suspended_holders(labels) >= 2:
                DOUBLE.add((init, st))
            if st and (init, st) not in scheds:
                scheds[(init, st)] = tag
                n += 1
        chk.log(f'{tag}: {len(g.states)} states, {len(g.edges)} edges, {len(paths)} cover paths, {n} new schedules')
        chk.cov[f'graph_edges_{tag}'] = len(g.edges)
        chk.cov[f'cover_paths_{tag}'] = len(paths)

    # (1) transition cover of the exhaustive 2-caller graph
    add_cover('MC_c2.cfg', 'cover2')
    # (2) transition cover of the 3-caller graph restricted to a slow first call (the only way for
    #     calls to overlap in the real code is a holder suspended in task cancellation / file removal)
    add_cover('MC_c3_slow.cfg', 'slow3')
    # (2b) the application listener behind the manager raises / is slow (caller cancelled inside it)
    add_cover('MC_c2_lst_cover.cfg', 'lst2')
    # (2c) the transfer starts as a stored record installed through read_cache()
    add_cover('MC_c1_load_cover.cfg', 'load1')
    # (3) random behaviours of the unrestricted 3-caller model
    num = 30000 if thorough else 800
    behs, sres = tlc.simulate_behaviours(SPEC, 'MC_c3.cfg', num=num, depth=16 if thorough else 14, seed=chk.seed + 1,
                                         timeout=1500)
    n3 = 0
    for b in behs:
        init = _init_key(b[0][1])
        st = _stimuli_of([lab for lab, _ in b[1:]])
        if st and (init, st) not in scheds:
            scheds[(init, st)] = 'sim3'
            n3 += 1
    chk.log(f'sim3: {len(behs)} behaviours of the 3-caller model, {n3} new schedules')
    chk.cov['sim_behaviours_c3'] = len(behs)
    return scheds


def repo_test_traces(chk: Check):
    """Thorough tier: run the repository's own transfer tests (real sockets, real time) under the
    observer plugin and validate every transfer's notification sequence against Edge."""
    import json
    import subprocess
    import sys
    from ..core import REPO, VERIF
    out = tempfile.mktemp(prefix='c03-obs-', suffix='.json')
    env = dict(os.environ, VERIF_OBS_OUT=out, PYTHONPATH=f'{os.path.join(REPO, "src")}:{VERIF}')
    try:
        p = subprocess.run([sys.executable, '-m', 'pytest', '-q', '-p', 'no:cacheprovider', '-p', 'harness.pytest_obs',
                            '--timeout=600', 'tests/unit/transfer', 'tests/e2e/test_e2e_transfer.py'],
                           cwd=REPO, env=env, stdout=subprocess.PIPE, stderr=subprocess.STDOUT, text=True, timeout=1200)
        if not os.path.exists(out):
            chk.notes.append('repository tests produced no observation file: ' + p.stdout[-300:])
            return
        with open(out) as fh:
            data = json.load(fh)
    finally:
        if os.path.exists(out):
            os.remove(out)
    traces = [dict(chained=False, events=t) for t in data.get('transfers', []) if t]
    if not traces:
        return
    v = tlc.validate_traces('TransferState/TransferStateEdgesTrace.tla', 'EdgesTrace.cfg', traces,
                            diag_cfg='EdgesTraceDiag.cfg', timeout=900)
    chk.cov['repo_test_transfer_traces'] = len(traces)
    for t in traces:
        chk.count(('repo-test', tuple((e['old'], e['new']) for e in t['events'])))
    chk.apply_verdicts(v, traces, lambda tid, info, tr: 'C03:repo-test:illegal-edge:' +
                       '->'.join(str((info.get('event') or {}).get(k)) for k in ('old', 'new')))
    chk.log(f'repository test-suite traces: {len(v.accepted)} accepted, {len(v.rejected)} rejected')


def run(chk: Check, args):
    thorough = chk.tier == 'thorough'
    chk.cov['rule'] = ('schedules = (initial state, sequence of Call/TasksGone/FileGone stimuli) projected from '
                       'TLC behaviours (edge cover of the 2-caller state graph + simulation of the 3-caller '
                       'model); each is executed on real Transfer/TransferManager objects in a virtual loop, once '
                       'through the state methods and once through the TransferManager API; distinct = distinct '
                       'recorded traces; non-trivial = at least one call event')
    # design model
    r = tlc.model_check(SPEC, 'MC_c2.cfg', expect_actions=['Call', 'Acquire', 'Refuse', 'BodyStart', 'TasksGone',
                                                           'FileGone', 'FileFail', 'Transition'], timeout=900)
    chk.add_model('TransferState 2 callers (exhaustive)', r)
    # the original design (stale dispatch) must violate LegalEdges: shows the property has teeth
    rs = tlc.run_tlc(SPEC, 'MC_c2_stale.cfg', timeout=900)
    stale_caught = any(i.name == 'LegalEdges' for i in rs.issues)
    chk.cov['binding_selftest']['model_without_redispatch_violates_LegalEdges'] = stale_caught
    if not stale_caught:
        raise MachineryFailure('stale-dispatch design model did not violate LegalEdges')
    if thorough:
        r3 = tlc.model_check(SPEC, 'MC_c3.cfg', timeout=3000)
        chk.add_model('TransferState 3 callers (exhaustive)', r3)

    scheds = collect_schedules(chk, thorough)
    by_src = {}
    for k, src in scheds.items():
        by_src.setdefault(src, []).append(k)
    keys = []
    caps = dict(cover2=None, slow3=None, sim3=None, lst2=None, load1=None) if thorough else dict(cover2=3800, slow3=3800, sim3=600, lst2=2400, load1=None)
    for src, ks in sorted(by_src.items()):
        ks.sort()
        cap = caps.get(src)
        if cap is not None and len(ks) > cap:
            # stratified sample: schedules in which a call lands between two releases of suspended
            # holders (a third operation meets a second suspended one) are the rarest and get half
            def sandwiched(k):
                rel = [i for i, x in enumerate(k[1]) if x[0] != 'call']
                return len(rel) >= 2 and any(x[0] == 'call' for x in k[1][rel[0]:rel[-1]])
            dbl = [k for k in ks if k in DOUBLE]          # rarest class: always all of them
            rest = [k for k in ks if k not in DOUBLE]
            a = [k for k in rest if sandwiched(k)]
            b = [k for k in rest if not sandwiched(k)]
            chk.rng.shuffle(a)
            chk.rng.shuffle(b)
            room = max(0, cap - len(dbl))
            na = min(len(a), room // 2)
            ks = sorted(dbl + a[:na] + b[:room - na])
            chk.cov[f'schedules_{src}_double_suspension'] = len(dbl)
            chk.cov[f'schedules_{src}_sandwiched_total'] = len(a)
        chk.cov[f'schedules_{src}'] = len(ks)
        keys += ks
    tmp = tempfile.mkdtemp(prefix='c03-')
    traces, metas = [], []
    API_OPS = ('abort', 'queue', 'pause')
    try:
        for api, allbytes in ((False, False), (True, False), ('mgmt', False), (False, True)):
            rp = Replayer(tmp, api, allbytes)
            # the API variant differs only when some non-task call is abort/queue/pause; the management
            # variant (abort through manage_shares_changed for a blocked user) applies to uploads with
            # exactly one non-task abort
            if allbytes:
                ks = [k for k in keys if not k[0][6] and k[0][1] in ('DOWNLOADING', 'UPLOADING')]
            elif api == 'mgmt':
                ks = [k for k in keys if k[0][0] == 'up' and k[0][5] == 'none' and
                      sum(1 for s in k[1] if s[0] == 'call' and s[2] == 'abort' and not s[3]) == 1 and
                      not any(s[0] == 'call' and s[2] == 'abort' and s[3] for s in k[1])]
            else:
                ks = [k for k in keys if not api or any(s[0] == 'call' and s[2] in API_OPS and not s[3] for s in k[1])]
            for i in range(0, len(ks), 400):
                part = ks[i:i + 400]
                for (init, stim), ev in zip(part, rp.run_batch(part)):
                    traces.append(ev)
                    metas.append(dict(init=init, stimuli=stim, api=api, allbytes=allbytes, source=scheds[(init, stim)]))
                    chk.count(tuple((e['ev'], e.get('c'), e.get('op'), e.get('old'), e.get('new'), e.get('val'),
                                     e.get('seen')) for e in ev) + (init,),
                              nontrivial=any(e['ev'] == 'call' for e in ev))
    finally:
        shutil.rmtree(tmp, ignore_errors=True)
    chk.log(f'replayed {len(traces)} schedules on the real code')
    for i in (0, len(traces) // 2, len(traces) - 1):
        chk.sample(dict(meta=metas[i], trace=[{k: v for k, v in e.items() if k != 'snap'} for e in traces[i]]))

    v = tlc.validate_traces(TRACE, 'Trace.cfg', traces, diag_cfg='TraceDiag.cfg', timeout=1500)
    chk.apply_verdicts(v, traces, _fingerprint, meta_of=lambda tid: metas[tid - 1])
    chk.log(f'trace validation: {len(v.accepted)} accepted, {len(v.rejected)} rejected')

    if thorough:
        repo_test_traces(chk)

    # binding self-test: corrupt one recorded field -> must be rejected
    import copy
    corrupted = []
    for tr in traces:
        for i, e in enumerate(tr):
            if e['ev'] == 'notify':
                bad = copy.deepcopy(tr)
                bad[i]['new'] = 'VIRGIN'
                bad[i]['snap']['st'] = 'VIRGIN'
                corrupted.append(bad)
                break
        if len(corrupted) >= 5:
            break
    if corrupted:
        cv = tlc.validate_traces(TRACE, 'Trace.cfg', corrupted, max_diag=0, timeout=600)
        chk.cov['binding_selftest']['corrupted_traces_rejected'] = f'{len(cv.rejected)}/{len(corrupted)}'
        if len(cv.rejected) != len(corrupted):
            raise MachineryFailure('corrupted traces were accepted by the trace spec')
    chk.assumptions += [
        'the documented state graph (docs/diagrams/Transfer States.png) is the oracle; it is transcribed in TransferState.tla',
        'CPython asyncio.Lock is FIFO and an uncontended acquire does not suspend',
        'start states are installed with TransferState.init_from_state, as read_cache does',
    ]


def replay(chk: Check, data: dict):
    """Re-execute the schedule of a replay file on the current tree and validate the new trace."""
    meta = (data.get('replay') or {}).get('meta') or {}
    init = tuple(meta['init'])
    stim = tuple(tuple(x) for x in meta['stimuli'])
    tmp = tempfile.mkdtemp(prefix='c03-')
    try:
        ev = Replayer(tmp, meta.get('api'), bool(meta.get('allbytes'))).run(init, stim)
    finally:
        shutil.rmtree(tmp, ignore_errors=True)
    for e in ev:
        print('  ', {k: v for k, v in e.items() if k != 'snap'})
    v = tlc.validate_traces(TRACE, 'Trace.cfg', [ev], diag_cfg='TraceDiag.cfg', timeout=600)
    chk.apply_verdicts(v, [ev], _fingerprint, meta_of=lambda tid: meta)

"""X01 (beyond the listed properties) - EventBus ordering / isolation / weak listeners
(spec: EventBus).  Not registered in MANIFEST.checks (it is not one of the given properties);
run with ./check X01."""
from __future__ import annotations

import asyncio
import gc
import re

from .. import tlc, vloop
from ..core import Check, MachineryFailure

SPEC = 'EventBus/EventBus.tla'
TRACE = 'EventBus/EventBusTrace.tla'


def _beh_json(b):
    return [b[0]] + [int(x) for x in b[1:]]


def replay(init_beh, labels):
    from aioslsk.events import EventBus, Event

    class Ev(Event):
        pass

    events = [dict(ev='init', beh=[_beh_json(init_beh[i]) for i in sorted(init_beh)])]

    async def main(loop):
        bus = EventBus()
        registered = set()
        holders = {}

        def body(x):
            events.append(dict(ev='call', x=x))
            b = init_beh[x]
            if b[0] == 'raise':
                raise RuntimeError('listener failure')
            if b[0] == 'reg':
                tgt, p = int(b[1]), int(b[2])
                if tgt in holders and tgt not in registered:
                    bus.register(Ev, holders[tgt].cb if hasattr(holders[tgt], 'cb') else holders[tgt], priority=p)
                    registered.add(tgt)
            if b[0] == 'unreg':
                tgt = int(b[1])
                if tgt in registered:
                    bus.unregister(Ev, holders[tgt].cb if hasattr(holders[tgt], 'cb') else holders[tgt])
                    registered.discard(tgt)

        class Holder:            # async bound method listener (WeakMethod path)
            def __init__(self, x):
                self.x = x

            async def cb(self, event):
                await asyncio.sleep(0)
                body(self.x)

        def make_fn(x):          # plain function listener (weakref.ref path)
            def fn(event):
                body(x)
            return fn

        for x in sorted(init_beh):
            holders[x] = Holder(x) if x % 2 else make_fn(x)

        def cb_of(x):
            h = holders[x]
            return h.cb if hasattr(h, 'cb') else h

        for lab in labels:
            m = re.match(r'(\w+)(?:\((.*)\))?', lab)
            name, a = m.group(1), [int(v) for v in (m.group(2) or '').split(',') if v.strip()]
            if name == 'Register':
                bus.register(Ev, cb_of(a[0]), priority=a[1])
                registered.add(a[0])
                events.append(dict(ev='register', x=a[0], p=a[1]))
            elif name == 'Unregister':
                bus.unregister(Ev, cb_of(a[0]))
                registered.discard(a[0])
                events.append(dict(ev='unregister', x=a[0]))
            elif name == 'Kill':
                del holders[a[0]]
                registered.discard(a[0])
                gc.collect()
                events.append(dict(ev='kill', x=a[0]))
            elif name == 'EmitBegin':
                events.append(dict(ev='emit_begin'))
                try:
                    await bus.emit(Ev())
                except Exception as exc:      # an escaping exception is an observation
                    events.append(dict(ev='emit_raised', what=type(exc).__name__))
                events.append(dict(ev='emit_end'))
    vloop.run(main)
    return events


def run(chk: Check, args):
    thorough = chk.tier == 'thorough'
    chk.cov['rule'] = ('behaviours of the EventBus model from TLC simulation, replayed on the real EventBus with '
                       'async-method and plain-function listeners; distinct = distinct recorded traces')
    r = tlc.model_check(SPEC, 'MC.cfg', expect_actions=['Register', 'Unregister', 'Kill', 'EmitBegin', 'CallNext', 'EmitEnd'],
                        timeout=900)
    chk.add_model('EventBus 3 listeners x 2 priorities', r)
    behs, _ = tlc.simulate_behaviours(SPEC, 'MC.cfg', num=5000 if thorough else 500, depth=22, seed=chk.seed + 7, timeout=900)
    traces = []
    seen = set()
    for b in behs:
        init = {int(k): v for k, v in dict(b[0][1]['beh']).items()} if isinstance(b[0][1]['beh'], dict) else \
            {i + 1: v for i, v in enumerate(b[0][1]['beh'])}
        labels = tuple(lab for lab, _ in b[1:])
        key = (tuple(sorted((k, tuple(v)) for k, v in init.items())), labels)
        if key in seen:
            continue
        seen.add(key)
        ev = replay(init, labels)
        traces.append(ev)
        chk.count(tuple(tuple(sorted(e.items(), key=str)) for e in map(lambda d: {k: str(v) for k, v in d.items()}, ev)),
                  nontrivial=any(e['ev'] == 'call' for e in ev))
    chk.sample(traces[0] if traces else {})
    chk.sample(traces[-1] if traces else {})
    v = tlc.validate_traces(TRACE, 'Trace.cfg', traces, diag_cfg='TraceDiag.cfg', timeout=900)
    chk.apply_verdicts(v, traces, lambda tid, info, tr: f"X01:{(info.get('event') or {}).get('ev')}:{info.get('name')}")
    chk.log(f'{len(v.accepted)} accepted, {len(v.rejected)} rejected')
    import copy
    bad = []
    for tr in traces:
        ci = [i for i, e in enumerate(tr) if e['ev'] == 'call']
        if len(ci) >= 2 and tr[ci[0]]['x'] != tr[ci[1]]['x'] and ci[1] == ci[0] + 1:
            t2 = copy.deepcopy(tr)
            t2[ci[0]], t2[ci[1]] = t2[ci[1]], t2[ci[0]]
            bad.append(t2)
        if len(bad) >= 5:
            break
    if bad:
        cv = tlc.validate_traces(TRACE, 'Trace.cfg', bad, max_diag=0, timeout=600)
        chk.cov['binding_selftest']['swapped_calls_rejected'] = f'{len(cv.rejected)}/{len(bad)}'
        if len(cv.rejected) != len(bad):
            raise MachineryFailure('corrupted EventBus traces were accepted')

"""X04 (beyond the listed properties) - persistence and start-up of the shares (spec: SharesCachePersist).
Not registered in MANIFEST.checks; run with ./check X04 --tier quick|thorough.

Pipeline
  TLC behaviour of SharesCachePersist (edge cover of the small state graphs + -simulate of a larger
  configuration): a history of settings changes, disk changes, start / scan / add / remove / update /
  reload / write / stop / crash over abstract directories and files
    -> concretised (names built from the abstract words in several styles, path spellings, which
       overload of the API is called) into a *plan* (pure data)
    -> executed on a real SoulSeekClient with a SharesShelveCache over a temporary data directory and
       real tagged WAV files in a temporary tree, in virtual time; every life is a fresh client (rig
       'A': start(connect=False); rig 'B': connected to a scripted server on the simulated network and
       logged in; thorough tier: also every life in a fresh Python process)
    -> recorded as a trace (arguments + the index a user can see after every call)
    -> judged by TLC against SharesCachePersistTrace.
The executor is gated: scan() is held between its two phases so that write / stop / crash fall in there.
Attribute extraction is observed at the library's outer edge (calls of mutagen.File) and, black box,
through files whose content changes while the modification time is put back.
"""
from __future__ import annotations

import asyncio
import copy
import json
import os
import random
import re
import shutil
import subprocess
import sys
import tempfile
import wave

from .. import tlc, vloop
from ..core import Check, MachineryFailure, VERIF

SPEC = 'SharesCachePersist/SharesCachePersist.tla'
TRACE = 'SharesCachePersist/SharesCachePersistTrace.tla'
MARK = 'read-reowns-moved-items'
ZMARK = 'scan-survives-stop'
OBSERVATIONS = {
    MARK: ('SharesShelveCache.read() makes the holding directory the owner of every item: items moved by add/remove of a '
           'nested directory and not rescanned come back with a path that does not exist'),
    ZMARK: ('stop() does not cancel the scan() task that start() created for scan_on_start: it stays pending after '
            'stop() returned (docstring of stop(): "Cancel all pending tasks and waiting for them to complete")'),
}
MT0 = 1_000_000          # mtime of version v is MT0 + v + 0.25 (a real mtime is not a whole number)
FRAC_NS = 250_000_000
RATE0 = 8000             # sample rate of content version c is RATE0 + c
ACTIONS = ['Start', 'Stop', 'Crash', 'Write', 'ScanBegin', 'ScanFilesDone', 'ScanAttrsDone', 'Add', 'Remove',
           'Update', 'Reload', 'ConfAdd', 'ConfRemove', 'ConfUpdate', 'ConfSos', 'Delete', 'Touch', 'Rewrite']
USER = 'u1'
PROPS = {'StopEndsScan', 'LoadedEqualsWritten', 'ReloadOK', 'CacheIsLastWrite', 'ScanOnStart', 'KeepsUnchanged', 'MidScanAsAllowed',
         'ReadsOnlyMissing', 'FreshIndexIsDisk', 'StatsEqualIndex', 'ReportsEqualIndex', 'QueriesExact', 'ReadbackIsWritten'}
CLIENT_PORT = 61000
XPROC_EVERY = 40      # thorough: one history in XPROC_EVERY runs every life in a fresh Python process


# ---------------------------------------------------------------------------
# the world: abstract paths <-> real files
# ---------------------------------------------------------------------------
_WAV: dict[int, bytes] = {}


def wav_bytes(c: int) -> bytes:
    """A tagged WAV file whose sample rate encodes the content version (extract_attributes ignores
    files without tags)."""
    if c not in _WAV:
        from mutagen.wave import WAVE
        from mutagen.id3 import TIT2
        fd, p = tempfile.mkstemp(suffix='.wav', prefix='x04-')
        os.close(fd)
        try:
            with wave.open(p, 'wb') as w:
                w.setnchannels(1)
                w.setsampwidth(2)
                w.setframerate(RATE0 + c)
                w.writeframes(b'\0\0' * 4)
            f = WAVE(p)
            f.add_tags()
            f.tags.add(TIT2(encoding=3, text='t'))
            f.save()
            with open(p, 'rb') as fh:
                _WAV[c] = fh.read()
        finally:
            os.remove(p)
    return _WAV[c]


ALPHABETS = {
    'ascii': 'abcdefghijklmnopqrstuvwxyz0123456789',
    'mixed': 'abcdefghijklmnopqrstuvwxyz',
    'uni': 'джялфбгéèüöñçå',
}
SEPS = [' ', '_', '-', '.', ' - ', '(', "'"]


def tup(x):
    return tuple(tup(y) for y in x) if isinstance(x, (list, tuple)) else x


class World:
    """Names of one history.  comp (tuple of words) -> concrete name; everything JSON-able."""

    def __init__(self, base: str, names: dict, words: dict):
        self.base = base
        self.root = os.path.join(base, 'tree')
        self.data = os.path.join(base, 'data')
        self.names = {tup(json.loads(k)): v for k, v in names.items()}
        self.words = dict(words)
        self.rev = {v: list(k) for k, v in self.names.items()}

    @staticmethod
    def make(base: str, comps, style: str, rng: random.Random) -> 'World':
        words, names = {}, {}
        used = set()
        for comp in sorted(comps):
            for wd in comp:
                if wd in words:
                    continue
                if wd == 'wav' or style == 'plain':
                    words[wd] = wd
                else:
                    while True:
                        cand = ''.join(rng.choice(ALPHABETS[style]) for _ in range(rng.randint(2, 6)))
                        if cand not in used and cand != 'wav':
                            break
                    words[wd] = cand
                used.add(words[wd])
        for comp in sorted(comps):
            def shown(wd):
                s = words[wd]
                if style in ('mixed', 'uni') and wd != 'wav':
                    s = ''.join(ch.upper() if rng.random() < 0.5 else ch for ch in s)
                return s
            if comp[-1] == 'wav':
                body = comp[:-1]
                name = ''
                for i, wd in enumerate(body):
                    name += (rng.choice(SEPS) if i else '') + shown(wd)
                if "(" in name:
                    name += ')'
                name += '.wav'
            else:
                name = ''
                for i, wd in enumerate(comp):
                    name += (rng.choice(SEPS[:5]) if i else '') + shown(wd)
            names[json.dumps(list(comp))] = name
        return World(base, names, words)

    def spec(self):
        return dict(base=self.base, names={json.dumps(list(k)): v for k, v in self.names.items()}, words=self.words)

    def path(self, comps) -> str:
        return os.path.join(self.root, *[self.names[tup(c)] for c in comps])

    def comps(self, path: str):
        try:
            rel = os.path.relpath(path, self.root)
        except ValueError:
            return [['?', str(path)]]
        if rel == '.':
            return []
        return [self.rev.get(p, ['?', p]) for p in rel.split(os.sep)]

    # disk -------------------------------------------------------------------
    def write_file(self, f, v, c):
        p = self.path(f)
        os.makedirs(os.path.dirname(p), exist_ok=True)
        with open(p, 'wb') as fh:
            fh.write(wav_bytes(c))
        ns = (MT0 + v) * 1_000_000_000 + FRAC_NS
        os.utime(p, ns=(ns, ns))

    def disk_op(self, op, events):
        kind = op['op']
        if kind in ('create', 'touch'):
            self.write_file(op['f'], op['v'], op['v'])
            events.append(dict(ev=kind, f=op['f'], v=op['v']))
        elif kind == 'delete':
            os.remove(self.path(op['f']))
            events.append(dict(ev='delete', f=op['f']))
        elif kind == 'rewrite':
            p = self.path(op['f'])
            ns = os.stat(p).st_mtime_ns
            with open(p, 'wb') as fh:
                fh.write(wav_bytes(op['c']))
            os.utime(p, ns=(ns, ns))
            events.append(dict(ev='rewrite', f=op['f'], c=op['c']))
        else:
            return False
        return True


def spell(path: str, how: int) -> str:
    """The same directory written differently (settings are edited by people)."""
    if how == 1:
        return path + os.sep
    if how == 2:
        head, tail = os.path.split(path)
        return os.path.join(head, '.', tail)
    return path


def conf_op(st: dict, op: dict, events: list, settings=None, world: World | None = None):
    """Settings changes: `st` is what the application would persist; a live Settings object is edited too."""
    kind = op['op']
    if kind == 'conf_add':
        st['conf'].append(dict(d=op['d'], sh=op['sh'], sp=op.get('sp', 0)))
        events.append(dict(ev='conf_add', d=op['d'], sh=op['sh']))
    elif kind == 'conf_remove':
        st['conf'] = [e for e in st['conf'] if e['d'] != op['d']]
        events.append(dict(ev='conf_remove', d=op['d']))
    elif kind == 'conf_update':
        for e in st['conf']:
            if e['d'] == op['d']:
                e['sh'] = op['sh']
        events.append(dict(ev='conf_update', d=op['d'], sh=op['sh']))
    elif kind == 'conf_sos':
        st['sos'] = bool(op['b'])
        events.append(dict(ev='conf_sos', b=bool(op['b'])))
    else:
        return False
    if settings is not None:
        if kind == 'conf_sos':
            settings.shares.scan_on_start = st['sos']
        else:
            settings.shares.directories = entries_of(st, world)
    return True


def entries_of(st, world):
    from aioslsk.settings import SharedDirectorySettingEntry
    return [SharedDirectorySettingEntry(path=spell(world.path(e['d']), e.get('sp', 0)), share_mode=e['sh']['m'],
                                        users=list(e['sh']['u'])) for e in st['conf']]


# ---------------------------------------------------------------------------
# one life of a client
# ---------------------------------------------------------------------------

def version_of(modified) -> int:
    x = modified - MT0 - 0.25
    return int(x) if x == int(x) and 0 <= x < 1000 else -7


def attr_code(attrs) -> int:
    if attrs is None:
        return 0
    try:
        if len(attrs) == 0:
            return -1
        for k, v in attrs:
            if k == 4 and RATE0 < v < RATE0 + 1000:
                return int(v) - RATE0
    except Exception:
        pass
    return -2


async def _life(loop, world: World, st: dict, ops: list, events: list, plan: dict):
    """ops[0] is 'start'; returns when the life ends (stop, crash, or the operations ran out)."""
    import mutagen
    from .. import simnet, simserver
    from aioslsk.client import SoulSeekClient
    from aioslsk.shares.cache import SharesShelveCache
    from aioslsk.shares.model import DirectoryShareMode
    from aioslsk.events import ScanCompleteEvent
    from aioslsk.protocol.messages import SharedFoldersFiles

    rig = plan.get('rig', 'A')
    rng = random.Random(plan.get('seed', 0) * 7919 + len(events))
    queries = plan.get('queries', [])
    os.makedirs(world.data, exist_ok=True)
    os.makedirs(world.root, exist_ok=True)

    reads: list = []
    real_file = mutagen.File

    def recording_file(filething, *a, **kw):
        reads.append(world.comps(str(filething)))
        return real_file(filething, *a, **kw)

    # the executor gate: while `holding`, jobs wait until the driver releases them
    holding = [False]
    jobs: list = []
    graveyard: list = []
    my_scans: list = []

    def gate(func, a):
        if not holding[0]:
            return None
        fut = loop.create_future()
        jobs.append((fut, func, a))
        return fut

    def release():
        n = 0
        while jobs:
            fut, func, a = jobs.pop(0)
            if fut.done():
                continue
            n += 1
            try:
                fut.set_result(func(*a))
            except Exception as e:  # noqa
                fut.set_exception(e)
        return n

    net = server = None
    told: list = []
    seen_reports = [0]
    client = None
    scan_task = [None]
    mutagen.File = recording_file
    loop.executor_gate = gate
    try:
        settings = simserver.make_settings('me', port=CLIENT_PORT, obfuscated_port=CLIENT_PORT + 1,
                                           download_dir=os.path.join(world.base, 'dl'))
        settings.shares.scan_on_start = bool(st['sos'])
        settings.shares.directories = entries_of(st, world)
        if rng.random() < 0.5:
            # as an application would: the settings come back from their JSON form
            settings = type(settings).model_validate_json(settings.model_dump_json())
        if rig == 'B':
            net = simnet.SimNet(loop).install()
            server = simserver.ScriptedServer(net)
            await server.start()
            server.addresses['me'] = ('10.0.0.1', CLIENT_PORT, 0)
        client = SoulSeekClient(settings, shares_cache=SharesShelveCache(world.data))
        shares = client.shares

        async def on_scan_complete(event):
            told.append([int(event.folder_count), int(event.file_count)])
        client.events.register(ScanCompleteEvent, on_scan_complete)      # (held weakly: keep the reference)

        def take_told():
            if server is not None:
                reqs = server.requests(SharedFoldersFiles.Request)
                for m in reqs[seen_reports[0]:]:
                    told.append([int(m.shared_folder_count), int(m.shared_file_count)])
                seen_reports[0] = len(reqs)
            out = list(told)
            told.clear()
            return out

        def sh_of(d):
            mode = d.share_mode.value if isinstance(d.share_mode, DirectoryShareMode) else str(d.share_mode)
            return dict(m=mode, u=[str(u) for u in (d.users or [])])

        def key_of(it):
            sub = [p for p in (it.subdir or '').split(os.sep) if p] + [it.filename]
            return dict(own=world.comps(it.shared_directory.absolute_path) if it.shared_directory is not None else [['?', 'None']],
                        sub=[world.rev.get(p, ['?', p]) for p in sub], v=version_of(it.modified))

        def observe():
            dirs, items = [], []
            for d in list(shares.shared_directories):
                dc = world.comps(d.absolute_path)
                dirs.append(dict(d=dc, sh=sh_of(d), al=str(d.alias)))
                for it in list(d.items):
                    rec = key_of(it)
                    rec['d'] = dc
                    rec['a'] = attr_code(it.attributes)
                    items.append(rec)
            items.sort(key=lambda r: json.dumps(r, sort_keys=True))
            try:
                folders, files = shares.get_stats()
                stats = [int(folders), int(files)]
            except Exception:
                stats = [-1, -1]
            qs = []
            for q in (queries if items else queries[:2]):
                text = ' '.join([world.words[x] for x in q['inc']] + ['-' + world.words[x] for x in q['exc']])
                try:
                    vis, lck = shares.query(text, username=USER)
                    qs.append(dict(inc=q['inc'], exc=q['exc'], vis=[key_of(i) for i in vis], lck=[key_of(i) for i in lck]))
                except Exception as e:   # an observation
                    qs.append(dict(inc=q['inc'], exc=q['exc'], vis=[dict(own=[['?', type(e).__name__]], sub=[], v=0)], lck=[]))
            return dict(dirs=dirs, items=items, stats=stats, told=take_told(), queries=qs)

        def readback():
            rd = SharesShelveCache(world.data).read()
            dirs, items = [], []
            for d in rd:
                dc = world.comps(d.absolute_path)
                dirs.append(dict(d=dc, sh=sh_of(d), al=str(d.alias)))
                for it in d.items:
                    k = key_of(it)
                    items.append(dict(d=dc, sub=k['sub'], v=k['v'], a=attr_code(it.attributes)))
            items.sort(key=lambda r: json.dumps(r, sort_keys=True))
            return dict(dirs=dirs, items=items)

        def find_obj(path):
            for d in shares.shared_directories:
                if d.absolute_path == os.path.normpath(os.path.abspath(path)):
                    return d
            return None

        def surviving_scans():
            """pending scan() tasks other than the application's own call (observation only: which task is
            which is read from the coroutine's name)"""
            out = []
            for t in asyncio.all_tasks(loop):
                if t.done() or any(t is m for m in my_scans):
                    continue
                if getattr(t.get_coro(), '__qualname__', '') == 'SharesManager.scan':
                    out.append(t)
            return out

        def loop_trouble():
            bad = [c for c in loop.unhandled if not isinstance(c.get('exception'), asyncio.CancelledError)]
            if bad:
                events.append(dict(ev='loop_exception', what=str(bad[0].get('message'))[:200] + ' ' + repr(bad[0].get('exception'))[:200]))
                del loop.unhandled[:]

        alive = False
        for op in ops:
            kind = op['op']
            if world.disk_op(op, events) or conf_op(st, op, events, settings=settings, world=world):
                continue
            ev = dict(ev=kind, exc='none')
            if not alive and kind != 'start':
                raise MachineryFailure(f'plan operation {kind} while no client is alive')
            try:
                if kind == 'start':
                    alive = True
                    del reads[:]
                    holding[0] = bool(st['sos'])
                    await client.start(connect=(rig == 'B'))
                    if rig == 'B':
                        await client.login()
                    await vloop.settle(loop)
                    if st['sos'] or jobs or told:
                        # scan_on_start: the scan() task is in flight (held at its directory walks) or is over
                        ev['scan'] = 'flight' if (jobs or told) else 'none'
                        holding[0] = bool(jobs)
                    else:
                        ev['scan'] = 'none'
                    scan_task[0] = 'start' if ev['scan'] == 'flight' else None
                elif kind == 'stop':
                    await client.stop()
                    await vloop.settle(loop)
                    ev['zombie'] = len(surviving_scans())
                    ev['rb'] = readback()
                    events.append(ev)
                    loop_trouble()
                    if not plan.get('reuse'):
                        return
                    # the same client object is started again later in this process: what its old scan
                    # was waiting for never arrives
                    graveyard.extend(jobs)
                    del jobs[:]
                    holding[0] = False
                    scan_task[0] = None
                    alive = False
                    continue
                elif kind == 'crash':
                    events.append(dict(ev='crash'))
                    return
                elif kind == 'write':
                    if op.get('how'):
                        await shares.store_data()
                    else:
                        shares.write_cache()
                    ev['rb'] = readback()
                elif kind == 'scan_begin':
                    holding[0] = True
                    del reads[:]
                    scan_task[0] = asyncio.ensure_future(shares.scan())
                    my_scans.append(scan_task[0])
                    await vloop.settle(loop)
                elif kind == 'scan_files':
                    ev.pop('exc')
                    release()
                    await vloop.settle(loop)
                elif kind == 'scan_end':
                    for _ in range(20):
                        if not release():
                            break
                        await vloop.settle(loop)
                    holding[0] = False
                    task, scan_task[0] = scan_task[0], None
                    if isinstance(task, asyncio.Future):
                        await task
                    await vloop.settle(loop)
                    ev['reads'] = sorted(reads, key=json.dumps)
                    del reads[:]
                elif kind == 'add':
                    ev['d'], ev['sh'] = op['d'], op['sh']
                    shares.add_shared_directory(spell(world.path(op['d']), op.get('sp', 0)),
                                                share_mode=DirectoryShareMode(op['sh']['m']), users=list(op['sh']['u']))
                elif kind in ('remove', 'update'):
                    ev['d'] = op['d']
                    path = world.path(op['d'])
                    obj = find_obj(path)
                    arg = obj if (op.get('how') and obj is not None) else spell(path, op.get('sp', 0))
                    if kind == 'remove':
                        shares.remove_shared_directory(arg)
                    else:
                        ev['sh'] = op['sh']
                        shares.update_shared_directory(arg, share_mode=DirectoryShareMode(op['sh']['m']),
                                                       users=list(op['sh']['u']))
                    del obj, arg
                elif kind == 'reload':
                    shares.load_from_settings()
                else:
                    raise MachineryFailure(f'unknown plan operation {kind}')
            except MachineryFailure:
                raise
            except Exception as e:   # raised by the code under test: an observation
                ev['exc'] = type(e).__name__
                ev['msg'] = str(e)[:200]
            await vloop.settle(loop)
            ev['obs'] = observe()
            events.append(ev)
            loop_trouble()
    finally:
        mutagen.File = real_file
        loop.executor_gate = None
        if net is not None:
            net.uninstall()


def run_life(world: World, st: dict, ops: list, plan: dict):
    events: list = []
    vloop.run(lambda lp: _life(lp, world, st, ops, events, plan))
    return events


def run_life_subprocess(world: World, st: dict, ops: list, plan: dict):
    """The same life in a fresh Python process: the cache really crosses a process boundary."""
    env = dict(os.environ, PYTHONPATH=VERIF, PYTHONHASHSEED='0', PYTHONDONTWRITEBYTECODE='1')
    req = dict(world=world.spec(), st=st, ops=ops, plan={k: plan[k] for k in ('rig', 'seed', 'queries', 'reuse') if k in plan})
    p = subprocess.run([sys.executable, '-m', 'harness.props.x04'], input=json.dumps(req), env=env, cwd=VERIF,
                       stdout=subprocess.PIPE, stderr=subprocess.PIPE, text=True, timeout=180)
    if p.returncode != 0:
        raise MachineryFailure(f'life subprocess failed rc={p.returncode}: {p.stderr[-1500:]}')
    out = json.loads(p.stdout.splitlines()[-1])
    st.clear()
    st.update(out['st'])
    return out['events']


def life_main():
    import logging
    logging.disable(logging.CRITICAL)
    from ..core import use_repo
    use_repo()
    req = json.loads(sys.stdin.read())
    w = req['world']
    world = World(w['base'], w['names'], w['words'])
    events = run_life(world, req['st'], req['ops'], req['plan'])
    print(json.dumps(dict(events=events, st=req['st'])))


def run_plan(plan: dict, base: str):
    """Execute a plan in a fresh directory below `base`; returns the trace."""
    hdir = tempfile.mkdtemp(prefix='h', dir=base)
    try:
        w = plan['world']
        world = World(hdir, w['names'], w['words'])
        os.makedirs(world.root)
        os.makedirs(world.data)
        st = dict(conf=[dict(e) for e in plan['init']['conf']], sos=bool(plan['init']['sos']))
        events = [dict(ev='init', disk=[dict(f=f, v=v, c=c) for f, v, c in plan['init']['disk']],
                       conf=[dict(d=e['d'], sh=e['sh']) for e in st['conf']], sos=st['sos'])]
        for e in st['conf']:
            os.makedirs(world.path(e['d']), exist_ok=True)
        for d in plan.get('dirs', []):
            os.makedirs(world.path(d), exist_ok=True)
        for f, v, c in plan['init']['disk']:
            world.write_file(f, v, c)
        ops = plan['ops']
        i = 0
        while i < len(ops):
            op = ops[i]
            if op['op'] != 'start':
                if not (world.disk_op(op, events) or conf_op(st, op, events)):
                    raise MachineryFailure(f'plan operation {op["op"]} while no client is alive')
                i += 1
                continue
            j = i + 1
            ends = ('crash',) if plan.get('reuse') else ('stop', 'crash')
            while j < len(ops) and ops[j - 1]['op'] not in ends:
                j += 1
            life_ops = ops[i:j]
            runner = run_life_subprocess if plan.get('xproc') else run_life
            events.extend(runner(world, st, life_ops, plan))
            i = j
        return events
    finally:
        shutil.rmtree(hdir, ignore_errors=True)


# ---------------------------------------------------------------------------
# TLC behaviours -> plans
# ---------------------------------------------------------------------------
_LABEL = re.compile(r'^(\w+)(?:\((.*)\))?$', re.S)


def parse_label(label: str):
    m = _LABEL.match(label.strip())
    if not m:
        raise MachineryFailure(f'cannot parse action label {label!r}')
    args = tlc.parse_value('<<' + m.group(2) + '>>') if m.group(2) else ()
    return m.group(1), args


def js(x):
    """TLA+ value -> JSON-able (tuples -> lists, records -> dicts)."""
    return tlc.to_jsonable(x)


def sh_js(sh):
    return dict(m=str(sh['m']), u=[str(u) for u in sh['u']])


def abstract_ops(labels):
    """Action labels of a behaviour -> abstract operations (the stimuli; ScanFilesDone / ScanAttrsDone are
    the releases of the gated executor)."""
    ops = []
    for lab in labels:
        name, a = parse_label(lab)
        if name == 'Start':
            ops.append(dict(op='start'))
        elif name in ('Stop', 'Crash', 'Write', 'Reload'):
            ops.append(dict(op=name.lower()))
        elif name == 'ScanBegin':
            ops.append(dict(op='scan_begin'))
        elif name == 'ScanFilesDone':
            ops.append(dict(op='scan_files'))
        elif name == 'ScanAttrsDone':
            ops.append(dict(op='scan_end'))
        elif name == 'Add':
            ops.append(dict(op='add', d=js(a[0]), sh=sh_js(a[1])))
        elif name == 'Remove':
            ops.append(dict(op='remove', d=js(a[0])))
        elif name == 'Update':
            ops.append(dict(op='update', d=js(a[0]), sh=sh_js(a[1])))
        elif name == 'ConfAdd':
            ops.append(dict(op='conf_add', d=js(a[0]), sh=sh_js(a[1])))
        elif name == 'ConfRemove':
            ops.append(dict(op='conf_remove', d=js(a[0])))
        elif name == 'ConfUpdate':
            ops.append(dict(op='conf_update', d=js(a[0]), sh=sh_js(a[1])))
        elif name == 'ConfSos':
            ops.append(dict(op='conf_sos', b=bool(a[0])))
        elif name in ('Create', 'Touch'):
            ops.append(dict(op=name.lower(), f=js(a[0]), v=int(a[1])))
        elif name == 'Delete':
            ops.append(dict(op='delete', f=js(a[0])))
        elif name == 'Rewrite':
            ops.append(dict(op='rewrite', f=js(a[0]), c=int(a[1])))
        else:
            raise MachineryFailure(f'unknown action {name}')
    return ops


def abstract_init(st):
    conf = st['conf']
    conf_items = sorted(conf.items(), key=lambda kv: json.dumps(js(kv[0]))) if isinstance(conf, dict) else []
    return dict(disk=sorted(([js(x['f']), int(x['v']), int(x['c'])] for x in st['disk']), key=json.dumps),
                conf=[dict(d=js(d), sh=sh_js(sh)) for d, sh in conf_items], sos=bool(st['sos']))


def interesting(ops) -> bool:
    """A history the property talks about: an index that a scan filled was persisted and a later life read it."""
    scanned = wrote = False
    for o in ops:
        if o['op'] in ('scan_files', 'scan_end'):
            scanned = True
        elif o['op'] in ('stop', 'crash'):
            wrote = wrote or (scanned and o['op'] == 'stop')
            scanned = False
        elif o['op'] == 'write' and scanned:
            wrote = True
        elif o['op'] == 'start' and wrote:
            return True
    return False


def collect_comps(init, ops):
    comps = set()
    paths = [f for f, _, _ in init['disk']] + [e['d'] for e in init['conf']]
    for o in ops:
        for k in ('d', 'f'):
            if k in o:
                paths.append(o[k])
    for p in paths:
        for c in p:
            comps.add(tup(c))
    return comps, paths


def make_queries(comps, rng):
    words = sorted({wd for c in comps for wd in c})
    qs = [dict(inc=[wd], exc=[]) for wd in words if wd != 'wav'][:6]
    if 'wav' in words:
        others = [wd for wd in words if wd != 'wav']
        qs.insert(0, dict(inc=['wav'], exc=[]))
        if others:
            qs.append(dict(inc=['wav'], exc=[rng.choice(others)]))
    if len(words) >= 2:
        a, b = rng.sample(words, 2)
        qs.append(dict(inc=[a, b], exc=[]))
    return qs[:9]


STYLES = ['plain', 'ascii', 'mixed', 'uni']


def build_plan(init, ops, rng: random.Random, style: str, rig: str, xproc: bool, seed: int, reuse: bool = False) -> dict:
    comps, paths = collect_comps(init, ops)
    world = World.make('/nonexistent', comps, style, rng)
    init = copy.deepcopy(init)
    ops = copy.deepcopy(ops)
    for e in init['conf']:
        e['sp'] = rng.choice([0, 0, 1, 2])
    for o in ops:
        if o['op'] in ('conf_add', 'add', 'remove', 'update'):
            o['sp'] = rng.choice([0, 0, 1, 2])
        if o['op'] in ('remove', 'update', 'write'):
            o['how'] = rng.choice([0, 1])
    dirs = [p for p in paths if not (p and p[-1] and p[-1][-1] == 'wav')]
    return dict(init=init, ops=ops, world=dict(names=world.spec()['names'], words=world.words), dirs=dirs,
                queries=make_queries(comps, rng), rig=rig, xproc=xproc, seed=seed, style=style, reuse=bool(reuse and not xproc))


# ---------------------------------------------------------------------------
# reading TLC's output without parsing every state
# ---------------------------------------------------------------------------

def simulate(chk: Check, cfg: str, num: int, depth: int, seed: int):
    d = tempfile.mkdtemp(prefix='x04sim-')
    try:
        res = tlc.run_tlc(SPEC, cfg, simulate=f'file={d}/tr,num={num}', depth=depth, workers=1, seed=seed, timeout=900)
        if res.issues:
            raise MachineryFailure(f'simulation of {cfg} reported {[(i.kind, i.name) for i in res.issues]}')
        out = []
        for fn in sorted(os.listdir(d)):
            if not fn.startswith('tr'):
                continue
            with open(os.path.join(d, fn), encoding='utf8') as fh:
                txt = fh.read() + '\n\n'
            steps = list(re.finditer(r'\\\* <(.*?)(?: line \d+[^>]*)?>\nSTATE_\d+ == ?\n(.*?)\n\n', txt, re.S))
            if not steps:
                continue
            init = tlc.parse_state(steps[0].group(2))
            out.append((abstract_init(init), [m.group(1) for m in steps[1:]]))
        return out
    finally:
        shutil.rmtree(d, ignore_errors=True)


_DOT_NODE = re.compile(r'^(-?\d+) \[label="((?:[^"\\]|\\.)*)"')
_DOT_EDGE = re.compile(r'^(-?\d+) -> (-?\d+) \[label="((?:[^"\\]|\\.)*)".*\];?$')


def check_and_graph(cfg: str):
    """One TLC run: exhaustive check with coverage, and the state graph (initial states parsed)."""
    d = tempfile.mkdtemp(prefix='x04dot-')
    try:
        path = os.path.join(d, 'g')
        res = tlc.model_check(SPEC, cfg, dump_dot=path, timeout=1500, extra=['-fp', '0'])
        g = tlc.Graph({}, [], [])
        with open(path + '.dot', encoding='utf8') as fh:
            for line in fh:
                line = line.rstrip('\n')
                m = _DOT_EDGE.match(line)
                if m:
                    g.edges.append((m.group(1), m.group(3).replace('\\"', '"').replace('\\\\', '\\'), m.group(2)))
                    continue
                m = _DOT_NODE.match(line)
                if m and 'style = filled' in line:
                    txt = m.group(2).replace('\\n', '\n').replace('\\\\', '\\').replace('\\"', '"')
                    g.states[m.group(1)] = tlc.parse_state(txt)
                    g.init.append(m.group(1))
        g.edges.sort()          # (several TLC workers write the edges in any order)
        g.init.sort()
        return res, g
    finally:
        shutil.rmtree(d, ignore_errors=True)


def edge_cover(g, max_paths: int, rng):
    paths = tlc.path_cover(g, max_paths=max_paths, rng=rng)
    return [(abstract_init(g.states[p[0][0]]), [e[1] for e in p]) for p in paths]


# ---------------------------------------------------------------------------
# verdicts
# ---------------------------------------------------------------------------

def fingerprint(tid, info, trace):
    ev = info.get('event') or {}
    name = info.get('name') or '?'
    if name[-1:] in 'PTA' and name[:-1] in PROPS:
        name = name[:-1]
    what = ev.get('ev', '?')
    if ev.get('exc', 'none') != 'none':
        return f'X04:{what}:raised-{ev["exc"]}'
    if what == 'loop_exception':
        return 'X04:loop-exception'
    return f'X04:{what}:{name}'


def judge(chk: Check, traces, metas, label=''):
    v = tlc.validate_traces(TRACE, 'Trace.cfg', traces, diag_cfg='TraceDiag.cfg', timeout=1500,
                            workers=int(os.environ.get('VERIF_TLC_WORKERS', '8')))
    marked = {tid: set(mk) for tid, mk in v.accepted.items() if mk}
    unknown = {m for mk in marked.values() for m in mk} - set(OBSERVATIONS)
    if unknown:
        raise MachineryFailure(f'unknown marks {unknown}')
    # a marked deviation is an observation (reported, tolerated); everything else is a verdict
    for tid in marked:
        v.accepted[tid] = set()
    chk.apply_verdicts(v, traces, fingerprint, meta_of=lambda tid: metas[tid - 1])
    chk.log(f'{label}: {len(v.accepted)} accepted ({len(marked)} through a marked deviation), {len(v.rejected)} rejected')
    return v, marked


def nontrivial(trace) -> bool:
    seen_write = False
    for e in trace:
        if e['ev'] in ('write', 'stop') and (e.get('rb') or {}).get('items'):
            seen_write = True
        if e['ev'] == 'start' and seen_write:
            return True
    return False


def selftest(chk: Check, traces):
    """Corrupted traces must be rejected."""
    bad, kinds = [], []

    def first(tr, pred):
        for i, e in enumerate(tr):
            if pred(e):
                return i
        return None

    def add(kind, tr):
        bad.append(tr)
        kinds.append(kind)

    want = dict(attr=2, mode=2, alias=2, lost=2, stats=2, query=2, reads=2, rb=2, sos=2, moved=1)
    for tr in traces:
        if not nontrivial(tr):
            continue
        starts = [i for i, e in enumerate(tr) if e['ev'] == 'start' and e['obs']['items'] and
                  any(p['ev'] in ('stop', 'write') for p in tr[:i])]
        if starts and want['attr']:
            t2 = copy.deepcopy(tr)
            it = t2[starts[-1]]['obs']['items'][0]
            it['a'] = 0 if it['a'] != 0 else 1
            add('loaded-attributes-changed', t2)
            want['attr'] -= 1
        if starts and want['lost']:
            t2 = copy.deepcopy(tr)
            t2[starts[-1]]['obs']['items'].pop()
            add('loaded-item-lost', t2)
            want['lost'] -= 1
        if starts and want['mode'] and t2[starts[-1]]['obs']['dirs']:
            t2 = copy.deepcopy(tr)
            d = t2[starts[-1]]['obs']['dirs'][0]
            d['sh'] = dict(m='friends' if d['sh']['m'] != 'friends' else 'everyone', u=[])
            add('share-mode-not-from-settings', t2)
            want['mode'] -= 1
        if starts and want['alias']:
            t2 = copy.deepcopy(tr)
            t2[starts[-1]]['obs']['dirs'][0]['al'] = 'zzzzz'
            add('alias-changed-by-restart', t2)
            want['alias'] -= 1
        if starts and want['stats']:
            t2 = copy.deepcopy(tr)
            t2[starts[-1]]['obs']['stats'][1] += 1
            add('stats-differ-from-index', t2)
            want['stats'] -= 1
        if starts and want['query']:
            i = starts[-1]
            qi = first(tr[i]['obs']['queries'], lambda q: q['vis'] or q['lck'])
            if qi is not None:
                t2 = copy.deepcopy(tr)
                q = t2[i]['obs']['queries'][qi]
                (q['vis'] or q['lck']).pop()
                add('query-answer-incomplete', t2)
                want['query'] -= 1
        ends = [i for i, e in enumerate(tr) if e['ev'] == 'scan_end' and any(p['ev'] == 'stop' for p in tr[:i])]
        if ends and want['reads']:
            i = ends[-1]
            unread = [it for it in tr[i]['obs']['items'] if [*it['own'], *it['sub']] not in tr[i]['reads']]
            if unread:
                t2 = copy.deepcopy(tr)
                t2[i]['reads'].append([*unread[0]['own'], *unread[0]['sub']])
                add('unchanged-file-read-again', t2)
                want['reads'] -= 1
        wr = first(tr, lambda e: e['ev'] in ('write', 'stop') and e['rb']['items'])
        if wr is not None and want['rb']:
            t2 = copy.deepcopy(tr)
            t2[wr]['rb']['items'][0]['v'] += 1
            add('written-cache-differs', t2)
            want['rb'] -= 1
        si = first(tr, lambda e: e['ev'] == 'start' and e.get('scan') == 'none' and e['exc'] == 'none')
        if si is not None and want['sos']:
            t2 = copy.deepcopy(tr)
            t2[0]['sos'] = True
            t2 = [e for e in t2 if e['ev'] != 'conf_sos']
            if all(e['ev'] != 'start' or e.get('scan') == 'none' for e in t2):
                add('scan-on-start-ignored', t2)
                want['sos'] -= 1
        if not any(want.values()):
            break
    if not bad:
        chk.cov['binding_selftest'] = dict(note='no trace suitable for corruption')
        return
    cv = tlc.validate_traces(TRACE, 'Trace.cfg', bad, max_diag=0, timeout=900)
    by_kind: dict = {}
    for i, k in enumerate(kinds):
        r = by_kind.setdefault(k, [0, 0])
        r[1] += 1
        if (i + 1) in cv.rejected:
            r[0] += 1
    chk.cov['binding_selftest'] = dict(corrupted_rejected=f'{len(cv.rejected)}/{len(bad)}',
                                       by_kind={k: f'{a}/{b}' for k, (a, b) in sorted(by_kind.items())})
    chk.log(f'binding self-test: {chk.cov["binding_selftest"]}')
    if len(cv.rejected) != len(bad):
        raise MachineryFailure(f'corrupted traces were accepted: {chk.cov["binding_selftest"]}')


QUICK_CFGS = [('MC_q_nested.cfg', 'nested directories across restarts'),
              ('MC_q_attrs.cfg', 'attributes across restarts'),
              ('MC_q_modes.cfg', 'share modes: settings vs cache')]


def design_checks(chk: Check, thorough: bool):
    graphs = {}
    seen = set()
    for cfg, label in QUICK_CFGS:
        r, g = check_and_graph(cfg)
        chk.add_model(f'{cfg[3:-4]} ({label})', r)
        graphs[cfg] = g
        seen |= {a for a, (d, n) in r.coverage.items() if n}
    if thorough:
        for cfg, label in [('MC_mid.cfg', 'all facets, small budgets'), ('MC_big.cfg', 'three directories, two lives')]:
            # (action coverage is collected on the small configurations: it doubles the time of the big one)
            r = tlc.run_tlc(SPEC, cfg, timeout=1500, coverage=(cfg == 'MC_mid.cfg'))
            chk.add_model(f'{cfg[3:-4]} ({label})', r)
            seen |= {a for a, (d, n) in r.coverage.items() if n}
    missing = [a for a in ACTIONS if a not in seen]
    if missing:
        raise MachineryFailure(f'vacuity: actions never taken in any exhaustive configuration: {missing}')
    r = tlc.run_tlc(SPEC, 'MC_live.cfg', timeout=900)
    chk.add_model('live (a scheduled scan completes; weak fairness)', r)
    # the property has teeth: with the cache reader as it is at the pinned commit the round trip fails
    t = tlc.run_tlc(SPEC, 'MC_teeth_reown.cfg', timeout=900)
    names = {i.name for i in t.issues}
    chk.cov['binding_selftest_design'] = dict(read_reowns=sorted(names))
    if 'LoadedEqualsWritten' not in names:
        raise MachineryFailure(f'MC_teeth_reown.cfg should violate LoadedEqualsWritten, got {names}')
    t = tlc.run_tlc(SPEC, 'MC_teeth_zombie.cfg', timeout=900)
    names2 = {i.name for i in t.issues}
    chk.cov['binding_selftest_design']['stop_does_not_cancel_scan'] = sorted(names2)
    if 'StopEndsScan' not in names2:
        raise MachineryFailure(f'MC_teeth_zombie.cfg should violate StopEndsScan, got {names2}')
    chk.log('teeth: ReadReowns = TRUE violates LoadedEqualsWritten, StopCancelsScan = FALSE violates StopEndsScan '
            'in the design model (as intended)')
    return graphs


def run(chk: Check, args):
    thorough = chk.tier == 'thorough'
    chk.cov['rule'] = ('TLC behaviours (edge cover of the small graphs, -simulate of MC_sim) kept when a later life reads '
                       'something an earlier one wrote; each concretised (name style, spellings, API overloads) and run on a '
                       'real SoulSeekClient + SharesShelveCache (rig A: start(connect=False); rig B: logged in on the simulated '
                       'network; thorough: also one fresh Python process per life); distinct = distinct recorded traces')
    chk.assumptions += [
        'settings entries name distinct directories; nothing but the harness touches the tree or the data directory',
        'no disk change and no add/remove/update/reload while a scan() is in flight (C07 has those histories)',
        'a crash happens between calls, not inside shelve (torn files of dbm are outside the model)',
        'attribute extraction is observed as calls of mutagen.File',
    ]
    graphs = design_checks(chk, thorough)

    rng = chk.rng
    behs = []
    cover = edge_cover(graphs['MC_q_nested.cfg'], 4000 if thorough else 260, random.Random(chk.seed + 1))
    cover2 = edge_cover(graphs['MC_q_attrs.cfg'], 1500 if thorough else 120, random.Random(chk.seed + 2))
    cover3 = edge_cover(graphs['MC_q_modes.cfg'], 1500 if thorough else 120, random.Random(chk.seed + 3))
    sims = simulate(chk, 'MC_sim.cfg', 6000 if thorough else 500, 40, chk.seed + 11)
    behs = cover + cover2 + cover3 + sims
    chk.log(f'behaviours: {len(cover)}+{len(cover2)}+{len(cover3)} cover paths, {len(sims)} simulated')
    hist, seen = [], set()
    for init, labels in behs:
        ops = abstract_ops(labels)
        # cut after the last start that reads something: what follows a final stop adds nothing
        key = json.dumps([init, ops], sort_keys=True)
        if key in seen or not interesting(ops):
            continue
        seen.add(key)
        hist.append((init, ops))
    chk.log(f'{len(hist)} distinct histories with a restart after a write')
    limit = 3000 if thorough else 330
    if len(hist) > limit:
        rng.shuffle(hist)
        hist = hist[:limit]

    base = tempfile.mkdtemp(prefix='x04-')
    probe = os.path.join(base, 'probe')
    with open(probe, 'wb'):
        pass
    os.utime(probe, ns=(MT0 * 1_000_000_000 + FRAC_NS, MT0 * 1_000_000_000 + FRAC_NS))
    if os.path.getmtime(probe) != MT0 + 0.25:
        raise MachineryFailure(f'the file system below {base} does not keep sub-second modification times')
    os.remove(probe)
    plans = []
    for n, (init, ops) in enumerate(hist):
        style = STYLES[n % len(STYLES)]
        rig = 'B' if n % 5 == 0 else 'A'
        xproc = thorough and n % XPROC_EVERY == 3
        plans.append(build_plan(init, ops, random.Random(chk.seed * 1000003 + n), style, rig, xproc, chk.seed + n,
                                reuse=(n % 3 == 1)))
    traces = [None] * len(plans)
    try:
        # lives in fresh Python processes only wait for their children: a few at a time
        from concurrent.futures import ThreadPoolExecutor
        with ThreadPoolExecutor(int(os.environ.get('VERIF_X04_PROCS', '4'))) as pool:
            futs = {n: pool.submit(run_plan, p, base) for n, p in enumerate(plans) if p['xproc']}
            for n, p in enumerate(plans):
                if not p['xproc']:
                    traces[n] = run_plan(p, base)
            for n, f in futs.items():
                traces[n] = f.result()
    finally:
        shutil.rmtree(base, ignore_errors=True)
    metas = plans
    for tr in traces:
        chk.count(json.dumps(tr, sort_keys=True), nontrivial=nontrivial(tr))
    if traces:
        chk.sample(dict(plan=metas[0], trace=traces[0]))
    chk.cov['rigs'] = dict(A=sum(1 for m in metas if m['rig'] == 'A'), B=sum(1 for m in metas if m['rig'] == 'B'),
                           same_client_restarted=sum(1 for m in metas if m['reuse']),
                           fresh_process=sum(1 for m in metas if m['xproc']))
    chk.log(f'executed {len(traces)} histories ({chk.cov["rigs"]}), {sum(len(t) for t in traces)} events')
    v, marked = judge(chk, traces, metas, 'histories')
    chk.cov['observations'] = {}
    for mark, text in OBSERVATIONS.items():
        tids = sorted(t for t, mk in marked.items() if mark in mk)
        if not tids:
            continue
        chk.cov['observations'][mark] = dict(traces=len(tids), example=metas[tids[0] - 1]['ops'])
        chk.notes.append(f'OBSERVATION {mark}: {len(tids)} histories are accepted only through this marked deviation')
        print(f'OBSERVATION property=X04 {mark} :: {text} ({len(tids)} histories, e.g. #{tids[0]}); tolerated', flush=True)
    chk.cov['exhaustive'] = False
    selftest(chk, [traces[tid - 1] for tid in sorted(v.accepted) if tid not in marked])


def replay(chk: Check, data: dict):
    plan = (data.get('replay') or {}).get('meta')
    if not plan:
        raise MachineryFailure('replay file carries no plan')
    base = tempfile.mkdtemp(prefix='x04-')
    try:
        tr = run_plan(plan, base)
    finally:
        shutil.rmtree(base, ignore_errors=True)
    judge(chk, [tr], [plan], 'replay')


if __name__ == '__main__':
    life_main()

"""C17 - transfers survive a restart (spec: TransferCache).

Histories (TLC behaviours of TransferCache, concretised with real user names / paths) are executed on
a real TransferManager + TransferShelveCache over a temp directory; a restart is a fresh manager and
cache object over the same directory (thorough tier: also a fresh Python process per life).  What is
recorded - manager.transfers after every call, cache.read() after every write, what the scheduler
sends for loaded transfers - is judged by TLC against TransferCacheTrace.
"""
from __future__ import annotations

import asyncio
import copy
import hashlib
import json
import os
import re
import shelve
import shutil
import subprocess
import sys
import tempfile

from .. import tlc, vloop
from ..core import Check, MachineryFailure, REPO, VERIF

SPEC = 'TransferCache/TransferCache.tla'
TRACE = 'TransferCache/TransferCacheTrace.tla'

# the same table as Recipe(n) in TransferCache.tla
RECIPES = {
    'virgin': [],
    'queued': ['queue'],
    'queued_r': ['queue_r'],
    'paused': ['pause'],
    'init': ['queue', 'initialize'],
    'init_d': ['queue', 'initialize', 'set_some'],
    'xfer_nosize': ['queue', 'initialize', 'start'],
    'xfer_some': ['queue_r', 'initialize', 'set_some', 'start'],
    'xfer_full': ['queue', 'initialize', 'set_some', 'start', 'set_full'],
    'complete': ['queue', 'initialize', 'set_some', 'start', 'set_full', 'complete'],
    'incomplete': ['queue', 'initialize', 'set_some', 'start', 'incomplete'],
    'failed_r': ['queue', 'fail'],
    'failed_nr': ['queue', 'fail_nr'],
    'failed_xfer': ['queue', 'initialize', 'set_some', 'start', 'fail'],
    'aborted': ['queue', 'abort'],
    'aborted_xfer': ['queue', 'initialize', 'set_some', 'start', 'abort'],
    'paused_xfer': ['queue', 'initialize', 'set_some', 'start', 'pause'],
    'requeued': ['queue', 'fail', 'queue'],
    'init_rq': ['queue_r', 'initialize'],
    'xfer_zero': ['queue', 'initialize', 'set_zero', 'start'],
    'xfer_empty': ['queue', 'initialize', 'set_empty', 'start'],
    'xfer_one': ['queue', 'initialize', 'set_onez', 'start', 'set_one'],
    'xfer_onez': ['queue', 'initialize', 'set_onez', 'start'],
}


def data_of(v, F):
    """(filesize, bytes) of an abstract data value (DataFs / DataBt in TransferCache.tla with n = F):
    boundary sizes {0, 1, n} x bytes {0, part, all}."""
    return {'some': (F, F // 2), 'full': (F, F), 'zero': (F, 0), 'empty': (0, 0), 'one': (1, 1), 'onez': (1, 0)}[v]
ALL_RECIPES = '{' + ', '.join(f'"{n}"' for n in RECIPES) + '}'
FIXTURE = os.path.join(REPO, 'tests', 'unit', 'resources', 'data')
FIXTURE_KEYS = [('user0', '@abcdef\\file.mp3', '1'), ('user1', '@abcdef\\file.flac', '0')]


# ---------------------------------------------------------------------------
# one process life on the real code
# ---------------------------------------------------------------------------

def rec_of(t):
    """The persistent part of a Transfer, as the trace spec's record."""
    def s(v):
        return 'none' if v is None else (v if isinstance(v, str) else f'?{v!r}')

    def i(v, none):
        if v is None:
            return none
        if isinstance(v, bool) or not isinstance(v, int) or not (-2 ** 31 < v < 2 ** 31):
            return -999
        return v
    st = getattr(t.state, 'VALUE', None)
    return dict(k=[t.username, t.remote_path, str(t.direction.value)],
                st=getattr(st, 'name', f'?{t.state!r}'),
                rq=bool(t.remotely_queued), fr=s(t.fail_reason), ar=s(t.abort_reason),
                lp=s(t.local_path), fs=i(t.filesize, -1), bt=i(t.bytes_transfered, -998))


def old_key(t):
    """The key scheme of the pinned release (transfer/cache.py:62-68)."""
    return hashlib.sha256((t.username + t.remote_path + str(t.direction.value)).encode('utf-8')).hexdigest()


class _LegacyForm:
    """Pickles as an aioslsk Transfer whose state dict has the shape of the legacy fixture
    (tests/unit/resources/data/transfers.dat): no abort_reason, with _offset / bytes_read /
    bytes_written."""

    def __init__(self, t):
        self.t = t

    def __reduce_ex__(self, proto):
        state = dict(self.t.__getstate__())
        state.pop('abort_reason', None)
        state['_offset'] = None
        state['bytes_read'] = 0
        state['bytes_written'] = 0
        return (object.__new__, (type(self.t),), state)


class _Aw:
    """Awaitable nothing (harmless when not awaited)."""

    def __await__(self):
        return iter(())


class _Call:
    def __call__(self, *a, **kw):
        return _Aw()


class _Stub:
    """Stands for the network / shares manager: every method is a no-op (sync or awaited)."""

    def __getattr__(self, name):
        if name.startswith('__'):
            raise AttributeError(name)
        c = _Call()
        setattr(self, name, c)
        return c


# Reports received by the application listeners of the history being executed.  It lives outside the
# lives on purpose: an object of an earlier life (or history) that is still told something shows here.
_SINK = dict(hist=0, life=0, reports=[], foreign=0)
REPORT_CAP = 200          # reports kept per event
FOREIGN_CAP = 5000        # reports to listeners of finished histories after which replaying stops


class AppListener:
    """What an application attaches to a transfer it learns about through TransferAddedEvent."""

    def __init__(self, key):
        self.key = key
        self.hist, self.life = _SINK['hist'], _SINK['life']

    async def on_transfer_state_changed(self, transfer, old, new):
        cur = (self.hist, self.life) == (_SINK['hist'], _SINK['life'])
        if not cur:
            _SINK['foreign'] += 1
        if len(_SINK['reports']) < REPORT_CAP:
            _SINK['reports'].append(dict(l=list(self.key), t=[transfer.username, transfer.remote_path, str(transfer.direction.value)],
                                         cur=cur))


_SETTINGS = []


def _settings():
    if not _SETTINGS:
        from aioslsk.settings import Settings
        _SETTINGS.append(Settings(credentials={'username': 'me', 'password': 'pw'},
                                  transfers={'limits': {'upload_slots': 1000}}))
    return _SETTINGS[0]


async def _life(loop, dirpath, ops, restart, events_out, down0=()):
    from aioslsk.events import EventBus
    from aioslsk.exceptions import InvalidStateTransition, PeerConnectionError
    from aioslsk.transfer.cache import TransferShelveCache
    from aioslsk.transfer.manager import TransferManager
    from aioslsk.transfer.model import AbortReason, FailReason, Transfer, TransferDirection
    from aioslsk.user.manager import UserManager

    from aioslsk.events import TransferAddedEvent
    _SINK['life'] += 1
    del _SINK['reports'][:]

    class _Events:
        """every event record carries the reports application listeners received since the previous one"""

        def append(self, e):
            e['reports'] = list(_SINK['reports'])
            del _SINK['reports'][:]
            events_out.append(e)
    events = _Events()
    settings = _settings()
    bus = EventBus()
    app_listeners = []

    def on_added(event):              # one application listener per transfer the client announces
        t = event.transfer
        lst = AppListener((t.username, t.remote_path, str(t.direction.value)))
        app_listeners.append(lst)
        t.state_listeners.append(lst)
    bus.register(TransferAddedEvent, on_added)
    network = _Stub()
    sent = []
    down = set(down0)                 # peers to whom a queue request cannot be delivered
    never = loop.create_future()

    async def send_peer_messages(username, *messages, **kw):
        hang = False
        for m in messages:
            name = type(m).__qualname__
            if name.startswith('PeerTransferQueue.'):
                sent.append([username, m.filename, '1'])
                if username in down:
                    raise PeerConnectionError(f'cannot connect to {username}')
            elif name.startswith('PeerTransferRequest.'):
                sent.append([username, m.filename, '0'])
                hang = True
        if hang:                      # the peer never answers: the upload stays INITIALIZING
            await asyncio.shield(never)
    network.send_peer_messages = send_peer_messages
    um = UserManager(settings, bus, network)
    um.track_user = _Call()          # as the repository's own manager tests do
    um.untrack_user = _Call()
    manager = TransferManager(settings, bus, um, _Stub(), network, cache=TransferShelveCache(dirpath))

    def snap():
        return [rec_of(t) for t in manager.transfers]

    def readback():
        return [rec_of(t) for t in TransferShelveCache(dirpath).read()]

    def take_sent():
        out = list(sent)
        del sent[:]
        return out

    def find(k):
        d = TransferDirection.UPLOAD if k[2] == '0' else TransferDirection.DOWNLOAD
        for t in manager.transfers:
            if (t.username, t.remote_path, t.direction) == (k[0], k[1], d):
                return t
        # the real run left the behaviour (the model chose another winner of a collision in an old
        # file / another upload of the user, or the code lost the transfer): the stimulus is void
        return None

    started = [False]

    async def quiesce():
        if started[0]:
            await asyncio.sleep(0.6)
            await vloop.settle(loop)
            events.append(dict(ev='quiesce', sent=take_sent(), mem=snap()))

    async def mutate(t, op, how):
        if how.get('api') and op in ('queue', 'abort', 'pause'):
            try:
                await getattr(manager, op)(t)
                return True
            except InvalidStateTransition:
                return False
        if op == 'queue':
            return await t.state.queue()
        if op == 'queue_r':
            return await t.state.queue(remotely=True)
        if op == 'initialize':
            return await t.state.initialize()
        if op == 'start':
            return await t.state.start_transferring()
        if op == 'complete':
            return await t.state.complete()
        if op == 'incomplete':
            return await t.state.incomplete()
        if op == 'fail':
            return await t.state.fail(reason=how.get('reason') or FailReason.CANCELLED)
        if op == 'fail_nr':
            return await t.state.fail()
        if op == 'abort':
            return await t.state.abort(reason=how.get('reason') or AbortReason.REQUESTED)
        if op == 'pause':
            return await t.state.pause()
        raise MachineryFailure(f'driver: unknown op {op}')

    cur = None
    try:
        if restart:
            cur = ('restart',)
            await manager.load_data()
            events.append(dict(ev='restart', mem=snap()))
        for op in ops:
            cur = op
            kind = op[0]
            if kind in ('mutate', 'setdata', 'remove') and find(op[1]) is None:
                continue
            if kind == 'add':
                k = op[1]
                if find(k) is not None:
                    continue
                d = TransferDirection.UPLOAD if k[2] == '0' else TransferDirection.DOWNLOAD
                await manager.add(Transfer(k[0], k[1], d))
                events.append(dict(ev='add', k=list(k), mem=snap()))
            elif kind == 'mutate':
                t = find(op[1])
                before = snap()
                ok = await mutate(t, op[2], op[3] if len(op) > 3 else {})
                if not ok and snap() == before:
                    continue          # refused without effect (the run left the behaviour): no event
                events.append(dict(ev='mutate', k=list(op[1]), op=op[2], ok=bool(ok), mem=snap()))
            elif kind == 'setdata':
                t = find(op[1])
                if (t.local_path, t.filesize, t.bytes_transfered) == (op[2], op[3], op[4]):
                    continue
                t.local_path, t.filesize, t.bytes_transfered = op[2], op[3], op[4]
                events.append(dict(ev='setdata', k=list(op[1]), mem=snap()))
            elif kind == 'remove':
                await manager.remove(find(op[1]))
                events.append(dict(ev='remove', k=list(op[1]), mem=snap()))
            elif kind == 'requeue':
                # postlude: one state change on (loaded) transfers that are not being scheduled
                cand = [t for t in manager.transfers
                        if t.state.VALUE.name in ('VIRGIN', 'PAUSED', 'ABORTED', 'FAILED', 'COMPLETE', 'INCOMPLETE')]
                cand.sort(key=lambda t: (t.username, t.remote_path, t.direction.value))
                for t in cand[:op[1]]:
                    k = [t.username, t.remote_path, str(t.direction.value)]
                    ok = await mutate(t, 'queue', {'api': True})
                    events.append(dict(ev='mutate', k=k, op='queue', ok=bool(ok), mem=snap()))
                    await quiesce()
                continue
            elif kind in ('peerdown', 'peerup'):
                if (kind == 'peerdown') == (op[1] in down):
                    continue
                (down.add if kind == 'peerdown' else down.discard)(op[1])
                events.append(dict(ev=kind, u=op[1], mem=snap()))
            elif kind == 'write':
                manager.write_cache()
                events.append(dict(ev='write', mem=snap(), readback=readback()))
            elif kind == 'start':
                await manager.start()
                started[0] = True
                events.append(dict(ev='start', mem=snap()))
            elif kind == 'stopwrite':
                # client.stop(): cancel, await the cancelled tasks, store
                tasks = await manager.stop()
                await asyncio.gather(*tasks, return_exceptions=True)
                members = snap()
                await manager.store_data()
                events.append(dict(ev='stopwrite', mem=members, readback=readback()))
                return
            elif kind == 'oldwrite':
                members = snap()
                with shelve.open(os.path.join(dirpath, 'transfers'), flag='c') as database:
                    for t in manager.transfers:
                        database[old_key(t)] = _LegacyForm(t) if op[1] == 'legacy' else t
                events.append(dict(ev='oldwrite', fmt=op[1], mem=members, readback=readback()))
                return
            elif kind == 'crash':
                events.append(dict(ev='crash', mem=[]))
                return
            else:
                raise MachineryFailure(f'driver: unknown stimulus {op}')
            await quiesce()
    except MachineryFailure:
        raise
    except Exception as exc:   # raised by the code under test: an observation
        events.append(dict(ev='exc', during=str(cur[0]) if cur else '?', type=type(exc).__name__,
                           msg=str(exc)[:200], mem=[]))


def run_life(dirpath, ops, restart, down0=(), clock=1000.0):
    """One process life in a fresh virtual-time loop.  clock = where this process's monotonic clock
    starts: its origin is arbitrary (boot), a new process / a reboot does not continue the old one."""
    events = []
    _, loop = vloop.run(lambda lp: _life(lp, dirpath, ops, restart, events, down0), start=clock)
    bad = [c for c in loop.unhandled if not isinstance(c.get('exception'), asyncio.CancelledError)]
    if bad:
        events.append(dict(ev='loop_exception', what=str(bad[0].get('message'))[:200], mem=[]))
    return events


def run_life_subprocess(dirpath, ops, restart, down0=(), clock=1000.0):
    """The same life in a fresh Python process (real pickling across processes)."""
    env = dict(os.environ, PYTHONPATH=VERIF, PYTHONHASHSEED='0', PYTHONDONTWRITEBYTECODE='1')
    p = subprocess.run([sys.executable, '-m', 'harness.props.c17'], input=json.dumps(dict(dir=dirpath, ops=ops, restart=restart, down=sorted(down0), clock=clock)),
                       env=env, cwd=VERIF, stdout=subprocess.PIPE, stderr=subprocess.PIPE, text=True, timeout=120)
    if p.returncode != 0:
        raise MachineryFailure(f'life subprocess failed rc={p.returncode}: {p.stderr[-1500:]}')
    return json.loads(p.stdout.splitlines()[-1])


def life_main():
    import logging
    logging.disable(logging.CRITICAL)
    from ..core import use_repo
    use_repo()
    req = json.loads(sys.stdin.read())
    ops = [tuple(tuple(x) if isinstance(x, list) else x for x in op) for op in req['ops']]
    print(json.dumps(run_life(req['dir'], ops, req['restart'], req.get('down', ()), req.get('clock', 1000.0))))


# ---------------------------------------------------------------------------
# behaviours -> histories
# ---------------------------------------------------------------------------

_LABEL = re.compile(r'^(\w+)(?:\((.*)\))?$', re.S)


def _shape(d, r):
    return (d, str(r['st']), bool(r['rq']), r['fr'] != 'none', r['ar'] != 'none', r['lp'] != 'none',
            int(r['fs']), int(r['bt']))


def recipe_shapes(tmp):
    """Run every recipe on the real code and note the record shape it yields."""
    table = {}
    for d in ('0', '1'):
        for name, steps in RECIPES.items():
            dirpath = tempfile.mkdtemp(dir=tmp)
            k = ('u', 'p', d)
            ops = [('add', k)] + _recipe_ops(k, steps, dict(lp='L', F=2))
            ev = run_life(dirpath, ops, False)
            if any(e['ev'] in ('exc', 'loop_exception') for e in ev) or not all(e.get('ok', True) for e in ev):
                continue                      # not applicable to this direction (e.g. incomplete upload)
            r = ev[-1]['mem'][0]
            table.setdefault(_shape(d, r), name)
    return table


def _recipe_ops(k, steps, data):
    out = []
    for o in steps:
        if o.startswith('set_'):
            out.append(('setdata', k, data['lp']) + data_of(o[4:], data['F']))
        else:
            out.append(('mutate', k, o))
    return out


def abstract_history(init_state, labels, shapes):
    """(initial state of a behaviour, its action labels) -> abstract stimulus list."""
    init_mem = init_state['mem']
    ops = [('peerdown', u) for u in sorted(init_state.get('failq', ()))]
    for k in sorted(init_mem):
        r = init_mem[k]
        name = shapes.get(_shape(k[2], r))
        if name is None:
            raise MachineryFailure(f'no recipe reaches start record {dict(r)} on the real code')
        ops.append(('add', k))
        ops += [('recipe', k, name)]
    alive, started = True, False
    for lab in labels:
        m = _LABEL.match(lab.strip())
        name, args = m.group(1), m.group(2)
        a = tlc.parse_value('<<' + args + '>>') if args else ()
        if name == 'Add':
            ops.append(('add', a[0]))
        elif name == 'Remove':
            ops.append(('remove', a[0]))
        elif name == 'Mutate':
            ops.append(('mutate', a[0], a[1]))
        elif name == 'SetData':
            ops.append(('data', a[0], a[1]))
        elif name == 'Write':
            ops.append(('write',))
        elif name == 'StopWrite':
            ops.append(('stopwrite',))
            alive, started = False, False
        elif name == 'Crash':
            ops.append(('crash',))
            alive, started = False, False
        elif name == 'OldVersionWrite':
            ops.append(('oldwrite', a[0]))
            alive, started = False, False
        elif name == 'Restart':
            ops.append(('restart',))
            alive = True
        elif name == 'StartEarly':
            ops.append(('start',))
            started = True
        elif name in ('PeerDown', 'EnvDown'):
            ops.append(('peerdown', a[0]))
        elif name in ('PeerUp', 'EnvUp'):
            ops.append(('peerup', a[0]))
        elif name == 'Cycle':
            pass                       # happens by itself when the loop runs
        else:
            raise MachineryFailure(f'unknown action label {lab!r}')
    # postlude: every history ends with  state change -> stop+write -> load -> schedule
    if not alive:
        ops.append(('restart',))
        started = False
    if not started:
        ops.append(('start',))
    ops += [('requeue', 2), ('stopwrite',), ('restart',), ('start',), ('requeue', 1)]
    return tuple(ops)


class Concretisation:
    """Abstract users "a","ab",.. / paths "bc","c",.. -> real names.  family 'collide' keeps the
    prefix structure (user "ab" = user "a" + X, path "bc" = X + path "c"), 'plain' does not."""

    def __init__(self, cid, users, paths, tmp):
        self.cid = cid
        self.users = users
        self.paths = paths
        self.tmp = tmp

    def key(self, k):
        return (self.users[k[0]], self.paths[k[1]], k[2])


def concretisations(rng, n_collide, n_plain):
    out = []
    bases = [('a', 'b', 'c\\x.mp3'), ('user', '1', '0\\Music\\Artist - 01 - Song.flac'),
             ('DJ \u00dcn\u00ef', '\u00e9', '@@share\\\u65e5\u672c\\track 01.mp3'), ('x', 'y\\', 'z\\f.ogg'),
             ('peer_77', '0', '1'), ('bob', '@@ab', 'c\\Various\\(2001) It\'s "live" [FLAC]\\01.flac')]
    for i in range(n_collide):
        u, x, p = bases[i] if i < len(bases) else (f'u{rng.randrange(10 ** 6)}', chr(rng.randrange(0x61, 0x7b)) * rng.randrange(1, 4),
                                                  f'dir{rng.randrange(100)}\\f{rng.randrange(1000)}.mp3')
        out.append(Concretisation(f'collide{i}', {'a': u, 'ab': u + x, 'x': u + x + x + '_other'},
                                  {'bc': x + p, 'c': p, 'y': p + '.part2'}, None))
    plain = [({'a': 'alice', 'ab': 'bob', 'x': 'carol'}, {'bc': '@@music\\a\\one.mp3', 'c': '@@music\\b\\two.flac', 'y': 'three.ogg'}),
             ({'a': 'Zo\u00eb 99', 'ab': 'zo\u00eb 99', 'x': ' '}, {'bc': 'C:\\My Music\\\u0416\\x.mp3', 'c': 'c:\\my music\\\u0416\\x.mp3', 'y': '\\'}),
             ({'a': 'u' * 60, 'ab': 'v' * 60, 'x': 'w'}, {'bc': 'd\\' * 80 + 'f.mp3', 'c': 'e\\' * 80 + 'f.mp3', 'y': 'f'})]
    for i in range(n_plain):
        us, ps = plain[i % len(plain)]
        if i >= len(plain):
            tag = str(rng.randrange(10 ** 6))
            us = {a: v + tag for a, v in us.items()}
        out.append(Concretisation(f'plain{i}', us, ps, None))
    return out


def concrete_ops(abs_ops, conc, dl_dir, rng):
    """Abstract stimuli -> the calls one history makes, with real names, reasons and sizes."""
    from aioslsk.transfer.model import AbortReason, FailReason
    ops = []
    F = rng.choice([2, 2000, 10 ** 6, 2 ** 31 - 2])
    data = {}

    def dat(k):
        if k not in data:
            data[k] = dict(lp=os.path.join(dl_dir, f'file{len(data)}.bin'), F=F + len(data))
        return data[k]

    def how(o, k):
        h = {'api': rng.random() < 0.5}
        if o == 'abort' and not h['api']:
            h['reason'] = rng.choice([AbortReason.REQUESTED, AbortReason.BLOCKED, AbortReason.FILE_NOT_SHARED])
        if o == 'fail':
            h['reason'] = rng.choice([FailReason.CANCELLED, FailReason.FILE_NOT_SHARED, 'Remote file error', 'r\u00e9ason'])
        return h
    for op in abs_ops:
        kind = op[0]
        if kind in ('add', 'remove'):
            ops.append((kind, conc.key(op[1])))
        elif kind in ('peerdown', 'peerup'):
            ops.append((kind, conc.users[op[1]]))
        elif kind == 'recipe':
            k = conc.key(op[1])
            for r in _recipe_ops(k, RECIPES[op[2]], dat(k)):
                ops.append(r + (how(r[2], k),) if r[0] == 'mutate' else r)
        elif kind == 'mutate':
            k = conc.key(op[1])
            ops.append(('mutate', k, op[2], how(op[2], k)))
        elif kind == 'data':
            k = conc.key(op[1])
            d = dat(k)
            ops.append(('setdata', k, d['lp']) + data_of(op[2], d['F']))
        else:
            ops.append(op)
    return ops


def split_lives(ops):
    """[(restart?, [ops])] : a life ends with stopwrite / oldwrite / crash."""
    lives, cur, restart, deferred = [], [], False, []
    for op in ops:
        if op[0] == 'restart':
            if cur:
                lives.append((restart, cur))
            cur, restart = list(deferred), True
            deferred = []
            continue
        if restart is None and op[0] in ('peerdown', 'peerup'):
            deferred.append(op)       # the environment changes while no process runs: seen by the next one
            continue
        cur.append(op)
        if op[0] in ('stopwrite', 'oldwrite', 'crash'):
            lives.append((restart, cur))
            cur, restart = [], None
    if cur or restart:
        lives.append((restart, cur))
    return [(bool(r), o) for r, o in lives]


def run_history(ops, root, cross_process=False, clocks=(1000.0,)):
    """clocks[i % len] = start of the monotonic clock of life i."""
    dirpath = tempfile.mkdtemp(dir=root)
    events = []
    down = set()
    _SINK['hist'] += 1
    try:
        for i, (restart, life_ops) in enumerate(split_lives(ops)):
            ev = (run_life_subprocess if cross_process else run_life)(dirpath, life_ops, restart, sorted(down),
                                                                      clocks[i % len(clocks)])
            events += ev
            for e in ev:
                if e['ev'] == 'peerdown':
                    down.add(e['u'])
                elif e['ev'] == 'peerup':
                    down.discard(e['u'])
            if ev and ev[-1]['ev'] in ('exc', 'loop_exception'):
                break
    finally:
        shutil.rmtree(dirpath, ignore_errors=True)
    for e in events:
        e.setdefault('reports', [])
    return events


def fixture_history(root, cross_process=False):
    """The repository's legacy cache file (two VIRGIN transfers written by an old release)."""
    dirpath = tempfile.mkdtemp(dir=root)
    try:
        for fn in os.listdir(FIXTURE):
            if fn.startswith('transfers'):
                shutil.copy(os.path.join(FIXTURE, fn), dirpath)
        _SINK['hist'] += 1
        virgin = [dict(k=list(k), st='VIRGIN', rq=False, fr='none', ar='none', lp='none', fs=-1, bt=0) for k in FIXTURE_KEYS]
        # what the old release did is not executed: the two add events describe the file's content
        events = [dict(ev='add', k=list(FIXTURE_KEYS[0]), mem=virgin[:1], virtual=True),
                  dict(ev='add', k=list(FIXTURE_KEYS[1]), mem=virgin, virtual=True)]
        use = run_life_subprocess if cross_process else run_life
        from aioslsk.transfer.cache import TransferShelveCache
        events.append(dict(ev='oldwrite', fmt='legacy', mem=virgin, virtual=True,
                           readback=[rec_of(t) for t in TransferShelveCache(dirpath).read()]))
        tail = [('restart',), ('start',), ('requeue', 2), ('write',), ('stopwrite',), ('restart',), ('start',), ('requeue', 1),
                ('stopwrite',), ('restart',)]
        for restart, life_ops in split_lives(tail):
            events += use(dirpath, life_ops, restart)
        for e in events:
            e.setdefault('reports', [])
        return events
    finally:
        shutil.rmtree(dirpath, ignore_errors=True)


# ---------------------------------------------------------------------------
# verdict helpers
# ---------------------------------------------------------------------------

def _concat(k):
    return k[0] + k[1] + k[2]


def _fingerprint(tid, info, trace):
    """Names the failing call site / input class (the verdict itself is TLC's)."""
    ev = info.get('event') or {}
    kind = ev.get('ev')
    prop = info.get('name') if info.get('kind') == 'property' else None
    reps = ev.get('reports') or []
    if any(r['l'] != r['t'] for r in reps):
        return 'C17:state-listeners:change-reported-to-listener-of-another-transfer'
    if any(not r['cur'] for r in reps):
        return 'C17:state-listeners:change-reported-to-object-of-earlier-client'
    if len(reps) != len({json.dumps(r, sort_keys=True) for r in reps}):
        return 'C17:state-listeners:change-reported-more-than-once'
    if kind in ('exc', 'loop_exception'):
        return f"C17:{ev.get('during', 'loop')}:raises:{ev.get('type', 'exception')}"
    if kind in ('write', 'stopwrite'):
        mem = [tuple(r['k']) for r in ev.get('mem', [])]
        rb = [tuple(r['k']) for r in ev.get('readback', [])]
        missing = [k for k in mem if k not in rb]
        if missing:
            if any(_concat(k) == _concat(o) for k in missing for o in mem if o != k):
                return 'C17:cache.write:key-collision-loses-transfer'
            return 'C17:cache.write:transfer-not-written'
        if len(rb) != len(set(rb)):
            return 'C17:cache.write:entry-duplicated'
        if any(k not in mem for k in rb):
            return 'C17:cache.write:stale-entry-kept'
        byk = {tuple(r['k']): r for r in ev.get('mem', [])}
        for r in ev.get('readback', []):
            w = byk.get(tuple(r['k']), {})
            diff = sorted(f for f in r if f != 'k' and r[f] != w.get(f)
                          and not (f == 'ar' and w.get('ar') == 'none' and r['st'] == 'ABORTED'))
            if diff:
                return f"C17:cache.write:field-not-persisted:{','.join(diff)}"
        return f"C17:cache.write:{prop or 'readback-differs'}"
    if kind == 'oldwrite':
        return f"C17:cache.read:old-format-file:{prop or 'readback-differs'}"
    if kind == 'restart':
        # compare with the last write of the trace
        idx = trace.index(ev) if ev in trace else len(trace)
        last = next((e for e in reversed(trace[:idx]) if e['ev'] in ('write', 'stopwrite', 'oldwrite')), None)
        loaded = ev.get('mem', [])
        lk = [tuple(r['k']) for r in loaded]
        if len(lk) != len(set(lk)):
            return 'C17:read_cache:transfer-loaded-twice'
        if any(r['st'] in ('INITIALIZING', 'DOWNLOADING', 'UPLOADING') for r in loaded):
            return 'C17:read_cache:in-progress-state-after-load'
        if any(r['rq'] for r in loaded):
            return 'C17:read_cache:remotely-queued-mark-kept'
        if last is not None:
            src = last['readback'] if last['ev'] == 'oldwrite' else last['mem']
            wk = {tuple(r['k']): r for r in src}
            if set(wk) - set(lk):
                if last['ev'] != 'oldwrite' and any(_concat(k) == _concat(o) for k in set(wk) - set(lk) for o in wk if o != k):
                    return 'C17:cache.write:key-collision-loses-transfer'
                return 'C17:read_cache:transfer-lost'
            if set(lk) - set(wk):
                return 'C17:read_cache:removed-transfer-back'
            for r in loaded:
                w = wk[tuple(r['k'])]
                diff = sorted(f for f in ('lp', 'fs', 'bt', 'fr', 'ar') if r[f] != w[f]
                              and not (f == 'ar' and w['ar'] == 'none' and r['st'] == 'ABORTED'))
                if diff:
                    return f"C17:read_cache:field-changed:{','.join(diff)}"
                exp = 'QUEUED' if w['st'] == 'INITIALIZING' else w['st'] if w['st'] not in ('DOWNLOADING', 'UPLOADING') \
                    else 'COMPLETE' if w['fs'] == w['bt'] else 'INCOMPLETE'
                if r['st'] != exp:
                    return f"C17:read_cache:repair:{w['st']}->{r['st']}"
        return f"C17:read_cache:{prop or 'unexplained'}"
    if kind == 'quiesce':
        return 'C17:scheduling:loaded-transfer-not-treated-like-fresh'
    if kind == 'mutate':
        return f"C17:state-method:{ev.get('op')}:unexpected-result"
    return f"C17:{prop or 'unexplained'}:{kind}"


def _locate(trace):
    """For a rejected trace that was not diagnosed with TLC: the first event at which the recorded
    observations disagree with each other (only used to name the finding)."""
    last = None
    for i, e in enumerate(trace):
        if e['ev'] in ('exc', 'loop_exception'):
            return i, e
        if any(r['l'] != r['t'] or not r['cur'] for r in e.get('reports') or []):
            return i, e
        if e['ev'] in ('write', 'stopwrite', 'oldwrite'):
            if e['ev'] != 'oldwrite' and sorted(json.dumps(r, sort_keys=True) for r in e['mem']) != \
                    sorted(json.dumps(r, sort_keys=True) for r in e['readback']):
                return i, e
            last = e
        if e['ev'] == 'restart':
            src = (last['readback'] if last['ev'] == 'oldwrite' else last['mem']) if last else []
            if sorted(tuple(r['k']) for r in e['mem']) != sorted(tuple(r['k']) for r in src) or \
                    any(r['st'] in ('INITIALIZING', 'DOWNLOADING', 'UPLOADING') or r['rq'] for r in e['mem']):
                return i, e
            wk = {tuple(r['k']): r for r in src}
            for r in e['mem']:
                w = wk[tuple(r['k'])]
                exp = 'QUEUED' if w['st'] == 'INITIALIZING' else w['st'] if w['st'] not in ('DOWNLOADING', 'UPLOADING') \
                    else 'COMPLETE' if w['fs'] == w['bt'] else 'INCOMPLETE'
                if r['st'] != exp or any(r[f] != w[f] for f in ('lp', 'fs', 'bt', 'fr')):
                    return i, e
        if e['ev'] == 'quiesce' and not e['sent'] and any(
                r['k'][2] == '1' and not r['rq'] and (r['st'] in ('QUEUED', 'INCOMPLETE') or (r['st'] == 'FAILED' and r['fr'] == 'none'))
                for r in e['mem']):
            return i, e
    return None, None


def _corruptions(traces, limit=8):
    """Corrupt one recorded field per trace; each result must be rejected."""
    out = []
    kinds = ['drop_readback', 'loaded_inprogress', 'loaded_field', 'loaded_dup', 'sent_missing', 'loaded_rq',
             'report_foreign', 'report_missing']
    for tr in traces:
        if len(out) >= limit:
            break
        kind = kinds[len(out) % len(kinds)]
        bad = copy.deepcopy(tr)
        done = False
        for i, e in enumerate(bad):
            if kind == 'drop_readback' and e['ev'] in ('write', 'stopwrite') and e['readback']:
                e['readback'].pop()
                done = True
            elif kind == 'loaded_inprogress' and e['ev'] == 'restart' and e['mem']:
                e['mem'][0]['st'] = 'DOWNLOADING' if e['mem'][0]['k'][2] == '1' else 'UPLOADING'
                done = True
            elif kind == 'loaded_field' and e['ev'] == 'restart' and e['mem']:
                e['mem'][0]['bt'] += 1
                done = True
            elif kind == 'loaded_dup' and e['ev'] == 'restart' and e['mem']:
                e['mem'].append(copy.deepcopy(e['mem'][0]))
                done = True
            elif kind == 'loaded_rq' and e['ev'] == 'restart' and e['mem']:
                e['mem'][0]['rq'] = True
                done = True
            elif kind == 'report_foreign' and e['ev'] == 'mutate' and e['reports']:
                e['reports'].append(dict(l=['zz', 'other', '1'], t=e['reports'][0]['t'], cur=True))
                done = True
            elif kind == 'report_missing' and e['ev'] == 'mutate' and e['reports']:
                e['reports'] = []
                done = True
            elif kind == 'sent_missing' and e['ev'] == 'quiesce' and e['sent']:
                e['sent'] = []
                done = True
            if done:
                break
        if done:
            out.append((kind, bad))
    return out


# ---------------------------------------------------------------------------

def _body_nontrivial(labels):
    w = [i for i, lab in enumerate(labels) if lab.startswith(('Write', 'StopWrite', 'OldVersionWrite'))]
    return bool(w) and any(lab.startswith('Restart') for lab in labels[w[0]:])


def collect_behaviours(chk: Check, thorough: bool, shapes):
    """Abstract histories from TLC behaviours: {history: (source, body is non-trivial)}.
    Sources: edge covers of two small graphs (every start record alone with every way of writing
    and dying; sets of up to two of four keys with a colliding pair) and simulation of bigger models."""
    hist = {}
    for cfg, label in (('MC_cover_states.cfg', 'cover_states'), ('MC_cover.cfg', 'cover_sets')):
        g, res = tlc.dump_graph(SPEC, cfg, parse_states='init', workers=1, timeout=900)   # 1 worker: stable edge order
        chk.add_model(f'TransferCache {label} graph ({cfg})', res)
        paths = tlc.path_cover(g)
        n = 0
        for p in paths:
            labels = [e[1] for e in p]
            h = abstract_history(g.states[p[0][0]], labels, shapes)
            if h not in hist:
                hist[h] = (label, _body_nontrivial(labels), tuple(lab.split('(')[0] for lab in labels))
                n += 1
        chk.log(f'{label}: {len(g.states)} states, {len(g.edges)} edges, {len(paths)} cover paths, {n} histories')
        chk.cov[f'graph_edges:{label}'] = len(g.edges)
        chk.cov[f'cover_paths:{label}'] = len(paths)
    sims = [('MC_sim_sets.cfg', 400, 10)] if not thorough else \
        [('MC_sim_states.cfg', 2000, 9), ('MC_sim_sets.cfg', 2000, 10), ('MC_sim_big.cfg', 1200, 30)]
    for cfg, num, depth in sims:
        behs, sres = tlc.simulate_behaviours(SPEC, cfg, num=num, depth=depth, seed=chk.seed + 17, timeout=1500)
        n = 0
        for b in behs:
            labels = [lab for lab, _ in b[1:]]
            h = abstract_history(b[0][1], labels, shapes)
            if h not in hist:
                hist[h] = (f'sim:{cfg}', _body_nontrivial(labels), ())
                n += 1
        chk.log(f'simulation {cfg}: {len(behs)} behaviours, {n} new histories')
        chk.cov[f'sim_behaviours:{cfg}'] = len(behs)
    return hist


def plan(chk: Check, thorough: bool, hist, concs):
    """Which (history, concretisation) pairs are executed.  thorough: every cover history with
    several concretisations, every simulated one with one.  quick: a seeded sample that keeps every
    non-trivial history of the per-record cover."""
    by = {}
    for h in sorted(hist, key=repr):
        by.setdefault(hist[h][0], []).append(h)
    out = []
    collide = [c for c in concs if c.cid.startswith('collide')]
    plain = [c for c in concs if c.cid.startswith('plain')]
    for src, hs in sorted(by.items()):
        if thorough:
            for i, h in enumerate(hs):
                if src == 'cover_states':
                    cs = [collide[0], plain[i % len(plain)], collide[1 + i % (len(collide) - 1)]]
                elif src == 'cover_sets':
                    cs = [collide[0]] + ([(collide[1:] + plain)[i % (len(concs) - 1)]] if i % 2 == 0 else [])
                else:
                    cs = [concs[i % len(concs)]]
                out += [(h, c) for c in cs]
            continue
        nt = [h for h in hs if hist[h][1]]
        tr = [h for h in hs if not hist[h][1]]
        chk.rng.shuffle(nt)
        chk.rng.shuffle(tr)
        if src == 'cover_states':
            # stratified by the shape of the behaviour (sequence of action names): half of every group
            # that writes and loads, a quarter of every other group (the postlude writes and loads anyway)
            groups = {}
            for h in nt + tr:
                groups.setdefault(hist[h][2], []).append(h)
            pick = []
            for pat in sorted(groups):
                hs2 = groups[pat]
                n = max(10, len(hs2) // 2) if hist[hs2[0]][1] else max(5, len(hs2) // 4)
                pick += hs2[:n]
            out += [(h, (collide[0], plain[0])[i % 2]) for i, h in enumerate(sorted(pick, key=repr))]
        elif src == 'cover_sets':
            pick = sorted((nt + tr)[:300], key=repr)
            for i, h in enumerate(pick):
                out.append((h, collide[0]))
                if i % 3 == 0:
                    out.append((h, (collide[1:] + plain)[(i // 3) % (len(concs) - 1)]))
        else:
            pick = sorted((nt + tr)[:250], key=repr)
            out += [(h, (collide + plain)[i % len(concs)]) for i, h in enumerate(pick)]
    return out


def run(chk: Check, args):
    thorough = chk.tier == 'thorough'
    chk.cov['rule'] = ('history = (initial transfers reached through recipes of real state-method calls, sequence of '
                       'add/mutate/setdata/remove/write/stop+write/old-release-write/crash/restart/start stimuli) '
                       'projected from TLC behaviours of TransferCache (edge covers of two small state graphs + simulation), '
                       'each followed by a postlude (state change, stop+write, load, schedule) and executed with '
                       'several name concretisations on a real TransferManager + TransferShelveCache in a temp '
                       'directory; distinct = distinct (history, concretisation); non-trivial = contains a write '
                       'and a later load')
    acts = ['Add', 'Mutate', 'SetData', 'Remove', 'Write', 'StopWrite', 'Crash', 'OldVersionWrite', 'Restart',
            'StartEarly', 'Cycle']
    chk.add_model('TransferCache states (every start record, 2 directions)',
                  tlc.model_check(SPEC, 'MC_states.cfg', expect_actions=acts, timeout=900))
    chk.add_model('TransferCache sets (4 keys, colliding pair, old-release files)',
                  tlc.model_check(SPEC, 'MC_sets.cfg', expect_actions=acts, timeout=900))
    if thorough:
        chk.add_model('TransferCache states, longer histories',
                      tlc.model_check(SPEC, 'MC_states_big.cfg', expect_actions=acts, timeout=3000))
        chk.add_model('TransferCache sets, 3 present',
                      tlc.model_check(SPEC, 'MC_sets_big.cfg', expect_actions=acts, timeout=3000))
    # teeth: the code's key scheme, and a key-only repair, must violate the properties in the model
    rc = tlc.run_tlc(SPEC, 'MC_sets_code.cfg', timeout=900)
    code_caught = sorted({i.name for i in rc.issues if i.kind == 'action_property'})
    chk.cov['binding_selftest']['model_with_concatenated_key_violates'] = code_caught
    rn = tlc.run_tlc(SPEC, 'MC_sets_naivefix.cfg', timeout=900)
    naive_caught = sorted({i.name for i in rn.issues if i.kind == 'action_property'})
    chk.cov['binding_selftest']['model_with_key_only_repair_violates'] = naive_caught
    if not code_caught or not naive_caught:
        raise MachineryFailure('deviation configs did not violate WriteReadBack/RoundTrip')
    chk.log(f'deviation configs violate: concatenated key {code_caught}, key-only repair {naive_caught}')

    root = tempfile.mkdtemp(prefix='c17-')
    traces, metas = [], []
    try:
        shapes = recipe_shapes(root)
        chk.cov['start_record_shapes'] = len(shapes)
        chk.log(f'{len(shapes)} start-record shapes reached through the real state methods')
        hist = collect_behaviours(chk, thorough, shapes)
        concs = concretisations(chk.rng, 2 if not thorough else 5, 1 if not thorough else 3)
        todo = plan(chk, thorough, hist, concs)
        chk.cov['histories_available'] = len(hist)
        chk.cov['exhaustive_cover_replayed'] = bool(thorough)
        chk.cov['exhaustive'] = bool(thorough)
        dl_dir = os.path.join(root, 'downloads')
        os.makedirs(dl_dir)
        n_sub = 0
        runaway = 0
        for hi, (h, conc) in enumerate(todo):
            ops = concrete_ops(h, conc, dl_dir, chk.rng)
            cross = thorough and hi % 400 == 0
            n_sub += cross
            # where each life's monotonic clock starts (a restart / reboot does not continue the old one)
            clocks = (1000.0,) if not thorough else chk.rng.choice([(1000.0,), (1000.0, 5.0), (5.0, 1000.0, 1.0e6)])
            ev = run_history(ops, root, cross_process=cross, clocks=clocks)
            traces.append(ev)
            metas.append(dict(history=h, concretisation=conc.cid, source=hist[h][0], cross_process=cross, ops=ops,
                              clocks=list(clocks)))
            chk.count((h, conc.cid), nontrivial=_nontrivial(ev))
            if _SINK['foreign'] > FOREIGN_CAP:
                # listeners of finished histories keep being told about changes of transfers of later ones:
                # every further history costs more; stop here, the recorded traces already show it
                runaway = hi + 1
                chk.log(f'runaway notifications after {runaway} histories: replaying stopped')
                break
        for cross in ((False, True) if thorough else (False,)):
            ev = fixture_history(root, cross_process=cross)
            traces.append(ev)
            metas.append(dict(history='legacy fixture tests/unit/resources/data/transfers.dat', concretisation='fixture',
                              source='fixture', cross_process=cross))
            chk.count(('fixture', cross), nontrivial=True)
        chk.cov['cross_process_histories'] = n_sub + (1 if thorough else 0)
    finally:
        shutil.rmtree(root, ignore_errors=True)
    chk.log(f'executed {len(traces)} histories on the real code ({sum(len(t) for t in traces)} events)')
    for i in (0, len(traces) // 2, len(traces) - 1):
        chk.sample(dict(meta=metas[i], trace=[{k: v for k, v in e.items() if k not in ('mem', 'readback')} for e in traces[i]]))

    v = tlc.validate_traces(TRACE, 'Trace.cfg', traces, diag_cfg='TraceDiag.cfg', max_diag=8, timeout=1500, chunk=1500)
    for tid, info in v.rejected.items():
        if info.get('at') is None and info.get('event') is None:
            at, ev = _locate(traces[tid - 1])
            if ev is not None:
                info.update(kind='rejected (not diagnosed with TLC; first inconsistent observation)', at=at + 1, event=ev)
    chk.apply_verdicts(v, traces, _fingerprint, meta_of=lambda tid: metas[tid - 1])
    if runaway:
        chk.violation('C17:state-listeners:runaway-notifications',
                      f'after {runaway} histories more than {FOREIGN_CAP} state-change reports had gone to listeners of '
                      f'clients of finished histories; replaying was stopped', dict(meta=metas[-1], trace=traces[-1]))
    chk.log(f'trace validation: {len(v.accepted)} accepted, {len(v.rejected)} rejected')
    if chk.violations or chk.known_hits:
        import collections
        cnt = collections.Counter(x['fingerprint'] for x in chk.violations)
        chk.log(f'rejections by fingerprint: {dict(cnt)} known: {sorted(chk.known_hits)}')
        chk.cov['rejections_by_fingerprint'] = dict(cnt)

    # binding self-test: corrupt one recorded field -> must be rejected
    good = [traces[tid - 1] for tid in sorted(v.accepted)]
    corrupted = _corruptions(good, limit=12)
    if corrupted:
        cv = tlc.validate_traces(TRACE, 'Trace.cfg', [b for _, b in corrupted], max_diag=0, timeout=600)
        chk.cov['binding_selftest']['corrupted_traces_rejected'] = f'{len(cv.rejected)}/{len(corrupted)}'
        chk.cov['binding_selftest']['corruption_kinds'] = sorted({k for k, _ in corrupted})
        if len(cv.rejected) != len(corrupted):
            acc = [corrupted[t - 1][0] for t in cv.accepted]
            raise MachineryFailure(f'corrupted traces were accepted by the trace spec: {acc}')
    elif not v.rejected:
        raise MachineryFailure('no accepted trace could be corrupted for the binding self-test')
    chk.assumptions += [
        'C03\'s Edge (docs/diagrams/Transfer States.png) is the oracle for legal repairs; the two documented repairs are '
        'INITIALIZING->QUEUED and DOWNLOADING/UPLOADING->COMPLETE|INCOMPLETE (so an upload may be loaded as INCOMPLETE)',
        'persistent fields compared: username, remote_path, direction, local_path, filesize, bytes_transfered, '
        'fail_reason, abort_reason (+ state and remotely_queued through the repair rules); timestamps, attempt '
        'counters and place_in_queue are not in the statement and are not compared',
        'an ABORTED record without abort_reason reads back as "Requested" (legacy default in Transfer.__setstate__); the '
        'driver always aborts with a reason, as the library does',
        'the shelve backend is whatever dbm.open picks in the venv (dbm.dumb here); file sizes stay below 2^31 in traces',
        'scheduling is observed with free upload slots, users of unknown status and a peer that acknowledges '
        'PeerTransferQueue and never answers PeerTransferRequest; cycles are observed at loop quiescence; what a '
        'cycle does with a QUEUED upload whose previous attempt is still in flight (and with that user\'s other '
        'queued uploads) is left to C06 - loaded transfers never have an attempt in flight, so for them the rule is exact',
        'queue requests to a peer can be made undeliverable by the harness (PeerConnectionError from send_peer_messages); '
        'whether a download whose request failed is tried again within the same life is left open, after a restart it '
        'must be attempted like a fresh one; every life runs on its own monotonic clock (origin 1000 s virtual, thorough: '
        'also lower / far higher origins), as a new process or a reboot does not continue the old clock',
        'persisted sizes cover the boundaries filesize {None, 0, 1, n} x bytes {0, part, all}',
        'state-change reports are observed by one application listener per transfer, attached from a TransferAddedEvent '
        'handler (as an application would); replaying stops once more than FOREIGN_CAP reports went to listeners of '
        'finished histories (runaway guard)',
        'cache files of older releases are produced by the harness with the pinned key scheme '
        'sha256(username+remote_path+direction) and, for fmt=legacy, the field set of the repository fixture',
    ]


def _tuples(x):
    return tuple(_tuples(y) for y in x) if isinstance(x, list) else x


def replay(chk: Check, data: dict):
    """Re-execute the history of a replay file on the current tree and validate the new trace."""
    meta = (data.get('replay') or {}).get('meta') or {}
    root = tempfile.mkdtemp(prefix='c17-')
    try:
        if meta.get('source') == 'fixture':
            ev = fixture_history(root, cross_process=bool(meta.get('cross_process')))
        else:
            ops = [tuple(_tuples(x) if not isinstance(x, dict) else x for x in op) for op in meta['ops']]
            ev = run_history(ops, root, cross_process=bool(meta.get('cross_process')),
                             clocks=tuple(meta.get('clocks') or (1000.0,)))
    finally:
        shutil.rmtree(root, ignore_errors=True)
    for e in ev:
        print('  ', {k: v for k, v in e.items() if k not in ('mem', 'readback')},
              'mem=' + json.dumps([(r['k'], r['st']) for r in e.get('mem', [])]),
              ('readback=' + json.dumps([(r['k'], r['st']) for r in e['readback']])) if 'readback' in e else '')
    v = tlc.validate_traces(TRACE, 'Trace.cfg', [ev], diag_cfg='TraceDiag.cfg', timeout=600)
    chk.apply_verdicts(v, [ev], _fingerprint, meta_of=lambda tid: meta)


def _nontrivial(ev):
    w = [i for i, e in enumerate(ev) if e['ev'] in ('write', 'stopwrite', 'oldwrite')]
    return bool(w) and any(e['ev'] == 'restart' for e in ev[w[0]:])


if __name__ == '__main__':
    life_main()

"""C19 - room and user views equal the fold of the announcements (spec: RoomReplica).

Direction A: histories (sequences of server notifications) come from TLC - the edge cover of the
exhaustive state graph, counterexamples of the design model with a deviation switch in the code's
position, TLC-simulated long behaviours, and seeded random words over the notification alphabet that
TLC enumerated.  Each history is concretised (names, texts, numbers, list orders from a per-trace
seed), serialised with the repository's message classes and written by a scripted server to a real,
logged-in SoulSeekClient on the SimNet, so the bytes go through the real server-connection reader,
the decoder and the event bus.

Direction B: after every frame the harness records the projection of RoomManager.rooms and of the
User objects referenced there (or held by the session / the tracker), the Room*/User* events emitted
and the acknowledgements the server received.  RoomReplicaTrace (TLC) computes the fold of the logged
frames and compares.  The verdict and the name of the differing fields both come from TLC.
"""
from __future__ import annotations

import concurrent.futures
import copy
import json
import multiprocessing
import os
import random
import re
import shutil
import tempfile

from .. import tlc, vloop
from ..core import Check, MachineryFailure

SPEC = 'RoomReplica/MC.tla'
TRACE = 'RoomReplica/RoomReplicaTrace.tla'
ROOMS = ('r1', 'r2')
USERS = ('me', 'a', 'b')
ME = 'me'
NONE = 'none'
INIT_STATS = 9      # RoomReplica!InitStats: the stats value of the AddUser replies before the history starts
SELF_KINDS = ('JoinRoom', 'LeaveRoom', 'PrivateRoomMembershipGranted', 'PrivateRoomMembershipRevoked',
              'PrivateRoomOperatorGranted', 'PrivateRoomOperatorRevoked')

DEFECTS = {
    'F19-1': ('MC_defect1.cfg', 'own operator grant discards instead of adds (room/manager.py:416)'),
    'F19-2': ('MC_defect2.cfg', 'JoinRoom user list appended to the stale list (room/manager.py:224-231)'),
    'F19-3': ('MC_defect3.cfg', 'RoomList that omits a joined room deletes it (room/manager.py:492-496)'),
}

ROOM_POOL = ['lounge', 'Indie Rock', 'r&b / soul', 'japan 日本', 'électro', 'The Room!', 'x', 'museek']
USER_POOL = ['alice', 'Bob Smith', 'çédric', 'user_42', 'дима', 'Zed', 'A', 'n00b.99']
TEXT_POOL = ['hello', 'now playing: ünïcode ♫', ' spaced out ', 'x' * 60, 'brb', '0']
COUNTRIES = ['US', 'NL', 'DE', '', 'JP']

EVENT_CLASSES = (
    'RoomMessageEvent', 'PublicMessageEvent', 'PrivateMessageEvent', 'RoomJoinedEvent', 'RoomLeftEvent',
    'RoomTickersEvent', 'RoomTickerAddedEvent', 'RoomTickerRemovedEvent', 'RoomMembershipGrantedEvent',
    'RoomMembershipRevokedEvent', 'RoomOperatorGrantedEvent', 'RoomOperatorRevokedEvent', 'RoomOperatorsEvent',
    'RoomMembersEvent', 'RoomListEvent', 'UserStatusUpdateEvent', 'UserStatsUpdateEvent', 'PrivilegedUsersEvent',
    'PrivilegedUserAddedEvent',
)


# ---------------------------------------------------------------------------
# TLC labels -> notifications
# ---------------------------------------------------------------------------

_note_cache: dict = {}


def note_of_label(label: str):
    """'Step([kind |-> ..., room |-> ..., ...])' -> JSON-able notification record."""
    hit = _note_cache.get(label)
    if hit is not None:
        return hit
    if not (label.startswith('Step(') and label.endswith(')')):
        raise MachineryFailure(f'unexpected action label {label[:120]!r}')
    rec = tlc.parse_value(label[5:-1])
    note = dict(kind=str(rec['kind']), room=str(rec['room']), user=str(rec['user']), v=int(rec['v']),
                p=bool(rec['p']), set=sorted(str(x) for x in rec['set']), own=str(rec['own']),
                ops=sorted(str(x) for x in rec['ops']), cat={str(r): str(c) for r, c in rec['cat'].items()},
                tk=sorted([str(u), str(t)] for u, t in rec['tk'].items() if str(t) != NONE),
                text=str(rec['text']), id=int(rec['id']))
    _note_cache[label] = note
    return note


def _note_key(note):
    return json.dumps(note, sort_keys=True)


# ---------------------------------------------------------------------------
# concretisation of a history
# ---------------------------------------------------------------------------

class Concretiser:
    """Maps the model's ids to concrete names / texts / numbers (seeded) and back."""

    def __init__(self, seed: str):
        self.rng = random.Random(seed)
        rooms = self.rng.sample(ROOM_POOL, len(ROOMS))
        users = self.rng.sample(USER_POOL, len(USERS))
        texts = self.rng.sample(TEXT_POOL, 2)
        self.room = dict(zip(ROOMS, rooms))
        self.user = dict(zip(USERS, users))
        self.text = dict(zip(('t1', 't2'), texts))
        self.room_back = {v: k for k, v in self.room.items()}
        self.user_back = {v: k for k, v in self.user.items()}
        self.text_back = {v: k for k, v in self.text.items()}
        self._stats: dict = {}
        self._stats_back: dict = {}
        # The fold says the last announcement wins, also when it carries a falsy number after a truthy
        # one: one of the abstract stats values is mapped to numbers with zeros (all four fields, or a
        # random non-empty subset of them), every other value to non-zero numbers.
        self.zero_value = self.rng.choice([0, 0, 1, 1, 2, INIT_STATS])
        if self.rng.random() < 0.5:
            self.zero_fields = (0, 1, 2, 3)
        else:
            self.zero_fields = tuple(i for i in range(4) if self.rng.random() < 0.5) or (self.rng.randrange(4),)

    def stats_tuple(self, v: int):
        if v not in self._stats:
            while True:
                t = [self.rng.randrange(1, 2 ** 31 - 1), self.rng.randrange(1, 2 ** 40),
                     self.rng.randrange(1, 2 ** 31 - 1), self.rng.randrange(1, 2 ** 31 - 1)]
                if v == self.zero_value:
                    for i in self.zero_fields:
                        t[i] = 0
                t = tuple(t)
                if t not in self._stats_back:
                    break
            self._stats[v] = t
            self._stats_back[t] = v
        return self._stats[v]

    # -- back ---------------------------------------------------------------
    def aroom(self, name):
        return self.room_back.get(name, '?' + str(name))

    def auser(self, name):
        if name is None:
            return NONE
        return self.user_back.get(name, '?' + str(name))

    def atext(self, text):
        return self.text_back.get(text, '?' + str(text))

    def astats(self, user):
        t = (user.avg_speed, user.uploads, user.shared_file_count, user.shared_folder_count)
        if all(x is None for x in t):
            return -1
        return self._stats_back.get(t, 99)


def build_message(M, P, note, cz: Concretiser):
    """The frame for a notification, built with the repository's own message classes."""
    k = note['kind']
    rng = cz.rng
    room = cz.room.get(note['room'])
    user = cz.user.get(note['user'])

    def stats(v):
        return P.UserStats(*cz.stats_tuple(v))

    if k == 'RoomChatMessage':
        return M.RoomChatMessage.Response(room, user, rng.choice(TEXT_POOL))
    if k == 'PublicChatMessage':
        return M.PublicChatMessage.Response(room, user, rng.choice(TEXT_POOL))
    if k == 'PrivateChatMessage':
        return M.PrivateChatMessage.Response(note['id'], rng.randrange(1, 2 ** 31 - 1), user, rng.choice(TEXT_POOL),
                                             rng.random() < 0.5)
    if k == 'UserJoinedRoom':
        return M.UserJoinedRoom.Response(room, user, note['v'], stats(note['v']), rng.randrange(0, 5),
                                         rng.choice(COUNTRIES))
    if k == 'UserLeftRoom':
        return M.UserLeftRoom.Response(room, user)
    if k == 'JoinRoom':
        names = [cz.user[u] for u in note['set']]
        rng.shuffle(names)
        nn = len(names)
        kw = {}
        if note['own'] != NONE:
            ops = [cz.user[u] for u in note['ops']]
            rng.shuffle(ops)
            kw = dict(owner=cz.user[note['own']], operators=ops)
        return M.JoinRoom.Response(room, names, [note['v']] * nn, [stats(note['v']) for _ in range(nn)],
                                   [rng.randrange(0, 5) for _ in range(nn)], [rng.choice(COUNTRIES) for _ in range(nn)],
                                   **kw)
    if k == 'LeaveRoom':
        return M.LeaveRoom.Response(room)
    if k == 'RoomTickers':
        tk = [P.RoomTicker(cz.user[u], cz.text[t]) for u, t in note['tk']]
        rng.shuffle(tk)
        return M.RoomTickers.Response(room, tk)
    if k == 'RoomTickerAdded':
        return M.RoomTickerAdded.Response(room, user, cz.text[note['text']])
    if k == 'RoomTickerRemoved':
        return M.RoomTickerRemoved.Response(room, user)
    if k in ('PrivateRoomGrantMembership', 'PrivateRoomRevokeMembership', 'PrivateRoomGrantOperator',
             'PrivateRoomRevokeOperator'):
        return getattr(M, k).Response(room, user)
    if k in ('PrivateRoomMembershipGranted', 'PrivateRoomMembershipRevoked', 'PrivateRoomOperatorGranted',
             'PrivateRoomOperatorRevoked'):
        return getattr(M, k).Response(room)
    if k in ('PrivateRoomMembers', 'PrivateRoomOperators'):
        names = [cz.user[u] for u in note['set']]
        rng.shuffle(names)
        return getattr(M, k).Response(room, names)
    if k == 'RoomList':
        cat = note['cat']
        order = list(ROOMS)
        rng.shuffle(order)
        pub = [cz.room[r] for r in order if cat[r] == 'pub']
        own = [cz.room[r] for r in order if cat[r] == 'own']
        mem = [cz.room[r] for r in order if cat[r] in ('mem', 'memop')]
        opd = [cz.room[r] for r in order if cat[r] == 'memop']
        cnt = lambda xs: [rng.randrange(0, 50) for _ in xs]  # noqa: E731
        return M.RoomList.Response(pub, cnt(pub), own, cnt(own), mem, cnt(mem), opd)
    if k == 'GetUserStatus':
        return M.GetUserStatus.Response(user, note['v'], note['p'])
    if k == 'GetUserStats':
        return M.GetUserStats.Response(user, stats(note['v']))
    if k == 'PrivilegedUsers':
        names = [cz.user[u] for u in note['set']]
        rng.shuffle(names)
        return M.PrivilegedUsers.Response(names)
    if k == 'AddPrivilegedUser':
        return M.AddPrivilegedUser.Response(user)
    raise MachineryFailure(f'no frame for notification kind {k}')


# ---------------------------------------------------------------------------
# projection of the real objects
# ---------------------------------------------------------------------------

def _status_code(user):
    st = user.status
    return int(getattr(st, 'value', st))


def project(client, cz: Concretiser):
    """RoomManager.rooms and the User objects referenced by rooms, the session and the user manager,
    in the model's vocabulary.  Only public attributes are read."""
    rooms = []
    held: dict = {u: [] for u in USERS}
    for name, room in list(client.rooms.rooms.items()):
        for uobj in room.users:
            au = cz.auser(uobj.name)
            if au in held:
                held[au].append(uobj)
        tick = [[cz.auser(u), cz.atext(t)] for u, t in dict(room.tickers).items()]
        rooms.append(dict(name=cz.aroom(room.name if room.name == name else f'{name}|{room.name}'),
                          joined=bool(room.joined),
                          users=[cz.auser(u.name) for u in room.users],
                          owner=cz.auser(room.owner),
                          members=sorted(cz.auser(u) for u in set(room.members)),
                          ops=sorted(cz.auser(u) for u in set(room.operators)),
                          tickers=sorted(tick),
                          private=bool(room.private)))
    rooms.sort(key=lambda r: r['name'])
    live = client.users.users          # copy of the weak dictionary
    if client.session is not None:
        held[ME].append(client.session.user)
    users = []
    for au in USERS:
        objs = list(held[au])
        o = live.get(cz.user[au])
        if o is not None:
            objs.append(o)
        if not objs:
            continue
        states = []
        for o in objs:
            s = (_status_code(o), cz.astats(o), bool(o.privileged))
            if s not in states:
                states.append(s)
        users.append(dict(name=au, status=states[0][0], stats=states[0][1], priv=states[0][2],
                          conflict=len(states) > 1))
    del live, held
    return dict(rooms=rooms, users=users)


def make_event_projector(cz: Concretiser):
    def names(objs):
        return sorted(cz.auser(getattr(o, 'name', o)) for o in objs)

    def proj(e):
        cls = type(e).__name__
        room = user = None
        nm: list = []
        try:
            if cls == 'RoomMessageEvent':
                room, user = e.message.room.name, e.message.user.name
            elif cls == 'PrivateMessageEvent':
                user = e.message.user.name
            elif cls == 'PublicMessageEvent':
                room, user = e.room.name, e.user.name
            elif cls in ('RoomJoinedEvent', 'RoomLeftEvent', 'RoomTickerAddedEvent', 'RoomTickerRemovedEvent'):
                room = e.room.name
                user = e.user.name if e.user is not None else None
            elif cls in ('RoomMembershipGrantedEvent', 'RoomMembershipRevokedEvent', 'RoomOperatorGrantedEvent',
                         'RoomOperatorRevokedEvent'):
                room = e.room.name
                user = e.member.name if e.member is not None else None
            elif cls == 'RoomTickersEvent':
                room = e.room.name
                nm = names(list(e.tickers.keys()))
            elif cls == 'RoomMembersEvent':
                room = e.room.name
                nm = names(e.members)
            elif cls == 'RoomOperatorsEvent':
                room = e.room.name
                nm = names(e.operators)
            elif cls in ('UserStatusUpdateEvent', 'UserStatsUpdateEvent'):
                user = e.current.name
            elif cls == 'PrivilegedUsersEvent':
                nm = names(e.users)
            elif cls == 'PrivilegedUserAddedEvent':
                user = e.user.name
        except Exception as exc:   # an event that cannot be read is an observation
            return dict(cls=cls + '?' + type(exc).__name__, room=NONE, user=NONE, names=[])
        return dict(cls=cls, room=cz.aroom(room) if room is not None else NONE, user=cz.auser(user), names=nm)
    return proj


# ---------------------------------------------------------------------------
# replay of one history on a real, logged-in client
# ---------------------------------------------------------------------------

_SETTINGS_CACHE: dict = {}


def _settings(username, blocked_items):
    from ..simserver import make_settings
    key = (username, blocked_items)
    s = _SETTINGS_CACHE.get(key)
    if s is None:
        s = make_settings(username, users=dict(blocked=dict(blocked_items)))
        _SETTINGS_CACHE[key] = s
    return s.model_copy(deep=True)


def run_history(job: dict) -> list:
    """job = {notes: [...], seed: str, blkRoom: [...], blkPriv: [...], tracked: [...]} -> recorded trace."""
    events: list = []
    vloop.run(lambda loop: _run_history(loop, job, events))
    return events


async def _run_history(loop, job, events):
    from aioslsk import events as E
    from aioslsk.protocol import messages as M
    from aioslsk.protocol import primitives as P
    from aioslsk.user.model import BlockingFlag
    from ..simnet import SimNet
    from ..simserver import BusRecorder, ScriptedServer, make_client

    cz = Concretiser(job['seed'])
    blocked = {}
    for au in USERS:
        in_room, in_priv = au in job['blkRoom'], au in job['blkPriv']
        if in_room and in_priv:
            flag = cz.rng.choice([BlockingFlag.IGNORE, BlockingFlag.ALL])
        elif in_room:
            flag = cz.rng.choice([BlockingFlag.ROOM_MESSAGES, BlockingFlag.ROOM_MESSAGES | BlockingFlag.SEARCHES])
        elif in_priv:
            flag = cz.rng.choice([BlockingFlag.PRIVATE_MESSAGES, BlockingFlag.PRIVATE_MESSAGES | BlockingFlag.UPLOADS])
        else:
            # flags for other kinds must not silence chat
            flag = cz.rng.choice([None, None, BlockingFlag.SEARCHES | BlockingFlag.SHARES | BlockingFlag.INFO,
                                  BlockingFlag.UPLOADS])
        if flag is not None:
            blocked[cz.user[au]] = int(flag)

    net = SimNet(loop).install()
    try:
        srv = await ScriptedServer(net).start()

        def add_user(server, sess, msg):
            return [M.AddUser.Response(msg.username, True, 2, P.UserStats(*cz.stats_tuple(INIT_STATS)),
                                       cz.rng.choice(COUNTRIES))]
        srv.handlers[M.AddUser.Request] = add_user

        client = make_client(_settings(cz.user[ME], tuple(sorted(blocked.items()))))
        await client.start()
        await client.login()
        await vloop.settle(loop)
        for au in job['tracked']:
            await client.users.track_user(cz.user[au])
        await vloop.settle(loop)

        rec = BusRecorder(client.events, *[getattr(E, c) for c in EVENT_CLASSES], project=make_event_projector(cz))
        sess = srv.session_of(cz.user[ME])
        if sess is None:
            raise MachineryFailure('client did not log in on the scripted server')
        nacks = len(srv.requests(M.PrivateChatMessageAck.Request))

        events.append(dict(ev='init', tracked=sorted(job['tracked']), blkRoom=sorted(job['blkRoom']),
                           blkPriv=sorted(job['blkPriv']), snap=project(client, cz)))
        for note in job['notes']:
            note = dict(note)
            if note['kind'] == 'PrivateChatMessage':
                # (0 is a chat id like any other: it has to be acknowledged too)
                note['id'] = 0 if cz.rng.random() < 0.15 else cz.rng.randrange(1, 2 ** 31 - 1)
            sess.send(build_message(M, P, note, cz))
            await vloop.settle(loop)
            acks = [m.chat_id for m in srv.requests(M.PrivateChatMessageAck.Request)[nacks:]]
            nacks += len(acks)
            evs = list(rec.events)
            rec.events.clear()
            events.append(dict(ev='note', **note, snap=project(client, cz), evs=evs, acks=acks))
        await client.stop()
        srv.stop()
    finally:
        net.uninstall()


def _replay_job(job):
    return run_history(job)


def replay_all(jobs: list, procs: int) -> list:
    if procs <= 1 or len(jobs) < 64:
        return [run_history(j) for j in jobs]
    # import the code under test once, before forking (the parent is single threaded here)
    import aioslsk.client  # noqa: F401
    import aioslsk.protocol.messages  # noqa: F401
    ctx = multiprocessing.get_context('fork')
    with ctx.Pool(procs) as pool:
        return pool.map(_replay_job, jobs, chunksize=max(1, min(200, len(jobs) // (procs * 4))))


# ---------------------------------------------------------------------------
# TLC side: graphs, alphabets, simulation
# ---------------------------------------------------------------------------

def _init_of(state):
    return dict(tracked=sorted(str(x) for x in state['tracked']),
                blkRoom=sorted(str(x) for x in state['blk']['room']),
                blkPriv=sorted(str(x) for x in state['blk']['priv']))


def simulate_labels(cfg: str, num: int, depth: int, seed: int, timeout: float):
    d = tempfile.mkdtemp(prefix='c19sim-')
    try:
        res = tlc.run_tlc(SPEC, cfg, simulate=f'file={d}/tr,num={num}', depth=depth, workers=1, seed=seed,
                          timeout=timeout, parse_traces=False)
        behs = []
        for fn in sorted(os.listdir(d)):
            if not fn.startswith('tr'):
                continue
            with open(os.path.join(d, fn), encoding='utf8') as fh:
                txt = fh.read()
            labels = re.findall(r'(?m)^\\\* <(Step\(.*\)) line \d+, col', txt)
            if labels:
                behs.append(labels)
        return behs, res
    finally:
        shutil.rmtree(d, ignore_errors=True)


_REJECT = re.compile(r'<<\s*"REJECT",\s*(\d+),\s*(\d+),\s*"(\w+)",\s*(\{[^}]*\})\s*>>')


def validate(traces, workers, timeout=3000, chunk=6000):
    """Batch trace validation; rejected traces get the location / notification kind / differing fields
    printed by the trace spec itself."""
    out = tlc.TraceVerdicts(n=len(traces))
    for base in range(0, len(traces), chunk):
        part = traces[base:base + chunk]
        v = tlc.validate_traces(TRACE, 'Trace.cfg', part, diag_cfg='TraceDiag.cfg', max_diag=0, workers=workers,
                                timeout=timeout, chunk=10 ** 9)
        if out.result is None:
            out.result = v.result
        elif v.result is not None:
            out.result.distinct_states += v.result.distinct_states
            out.result.states_generated += v.result.states_generated
        joined = ' '.join(v.result.prints) if v.result else ''
        first: dict = {}
        for m in _REJECT.finditer(joined):
            tid, l, kind, fields = int(m.group(1)), int(m.group(2)), m.group(3), tlc.parse_value(m.group(4))
            if tid not in first or l < first[tid][0]:
                first[tid] = (l, kind, sorted(str(f) for f in fields))
        for tid, marks in v.accepted.items():
            out.accepted[base + tid] = marks
        for tid, info in v.rejected.items():
            if tid in first:
                l, kind, fields = first[tid]
                evp = bool(set(fields) & {'events', 'blocked'})
                info = dict(kind='property', name='EventsCarryAnnounced/BlockedSilent' if evp else 'ReplicaEqualsFold',
                            at=l, note_kind=kind, fields=fields, event=part[tid - 1][l - 1])
            out.rejected[base + tid] = info
    return out


def _fingerprint(tid, info, trace):
    if info.get('fields'):
        return f"C19:{info['note_kind']}:{'+'.join(info['fields'])}"
    ev = info.get('event') or {}
    return f"C19:unexplained:{ev.get('kind', ev.get('ev', '?'))}"


# ---------------------------------------------------------------------------
# binding self-test: corrupted records must be rejected
# ---------------------------------------------------------------------------

def _corruptions(traces):
    """(name, corrupted trace) pairs made from accepted traces."""
    out = []
    want = ['joined', 'users', 'operators', 'status', 'stats', 'event-room', 'event-missing', 'ack', 'privileged',
            'tickers']
    for tr in traces:
        if not want:
            break
        for i, e in enumerate(tr):
            if e['ev'] != 'note' or not want:
                continue
            bad = copy.deepcopy(tr[:i + 1])
            b = bad[i]
            snap = b['snap']
            done = None
            if 'joined' in want and snap['rooms']:
                snap['rooms'][0]['joined'] = not snap['rooms'][0]['joined']
                done = 'joined'
            elif 'users' in want and any(r['users'] for r in snap['rooms']):
                r = next(r for r in snap['rooms'] if r['users'])
                r['users'] = r['users'][1:]
                done = 'users'
            elif 'operators' in want and any(r['ops'] for r in snap['rooms']) and e['kind'] == 'PrivateRoomGrantOperator':
                r = next(r for r in snap['rooms'] if r['name'] == e['room'])
                r['ops'] = [u for u in r['ops'] if u != e['user']]
                done = 'operators'
            elif 'status' in want and e['kind'] == 'GetUserStatus' and e['user'] == ME:
                for u in snap['users']:
                    if u['name'] == ME:
                        u['status'] = (u['status'] + 1) % 3
                        done = 'status'
            elif 'stats' in want and e['kind'] == 'GetUserStats' and e['user'] == ME:
                for u in snap['users']:
                    if u['name'] == ME:
                        u['stats'] = 99          # what the projection reports for a mix of old and new numbers
                        done = 'stats'
            elif 'privileged' in want and e['kind'] == 'PrivilegedUsers':
                for u in snap['users']:
                    if u['name'] == ME:
                        u['priv'] = not u['priv']
                        done = 'privileged'
            elif 'tickers' in want and e['kind'] == 'RoomTickerAdded':
                r = next(r for r in snap['rooms'] if r['name'] == e['room'])
                r['tickers'] = [t for t in r['tickers'] if t[0] != e['user']]
                done = 'tickers'
            elif 'event-room' in want and e['kind'] == 'UserJoinedRoom' and b['evs']:
                b['evs'][0]['room'] = 'r2' if b['evs'][0]['room'] == 'r1' else 'r1'
                done = 'event-room'
            elif 'event-missing' in want and e['kind'] == 'LeaveRoom' and b['evs']:
                b['evs'] = []
                done = 'event-missing'
            elif 'ack' in want and e['kind'] == 'PrivateChatMessage' and b['acks']:
                b['acks'] = []
                done = 'ack'
            if done:
                want.remove(done)
                out.append((done, bad))
    return out


# ---------------------------------------------------------------------------
# the check
# ---------------------------------------------------------------------------

def _workers():
    return int(os.environ.get('VERIF_TLC_WORKERS', '8'))


def _procs():
    return int(os.environ.get('VERIF_C19_PROCS', str(min(8, max(1, (os.cpu_count() or 2) // 2)))))


def _canonical_cover(g):
    """Edge cover of the (levelled: the history length is part of the state) graph as label paths that
    do not depend on TLC's node ids or dump order: every state is reached by its smallest label path."""
    from collections import defaultdict
    out = defaultdict(set)
    for (s, lab, d) in g.edges:
        out[s].add((lab, d))
    best = {i: () for i in g.init}
    level = set(g.init)
    paths = set()
    while level:
        nxt: dict = {}
        for s in level:
            for lab, d in out[s]:
                cand = best[s] + (lab,)
                paths.add(cand)
                if d not in best and (d not in nxt or cand < nxt[d]):
                    nxt[d] = cand
        best.update(nxt)
        level = set(nxt)
    return sorted(paths)


def _interaction(notes):
    if len(notes) < 2:
        return 0
    a, b = notes[-2], notes[-1]
    score = 0
    if NONE in (a['room'], b['room']) or a['room'] == b['room']:
        score += 2
    ua = {a['user'], a['own'], *a['set'], *a['ops'], *(u for u, _ in a['tk'])} - {NONE}
    ub = {b['user'], b['own'], *b['set'], *b['ops'], *(u for u, _ in b['tk'])} - {NONE}
    if a['kind'] in SELF_KINDS:
        ua.add(ME)
    if b['kind'] in SELF_KINDS:
        ub.add(ME)
    if not ua or not ub or ua & ub:
        score += 1
    return score


def _stratified(cover, cap, rng):
    groups: dict = {}
    for notes in cover:
        groups.setdefault(tuple(n['kind'] for n in notes[-2:]), []).append(notes)
    per = max(1, cap // max(1, len(groups)))
    out = []
    for key in sorted(groups):
        items = groups[key]
        rng.shuffle(items)
        items.sort(key=_interaction, reverse=True)      # stable: random order within a score
        out.extend(items[:per])
    return out


def collect_histories(chk: Check, thorough: bool):
    """[(source, init, [note, ...])] from TLC."""
    w = _workers()
    hist = []
    with concurrent.futures.ThreadPoolExecutor(max_workers=10) as ex:
        f_graph = ex.submit(tlc.dump_graph, SPEC, 'MC_quick.cfg', parse_states='init', workers=max(2, w // 2),
                            timeout=900)
        f_alpha = ex.submit(tlc.dump_graph, SPEC, 'MC_alphabet.cfg', parse_states='init', workers=1, timeout=600)
        deep_cfgs = ([('small alphabet, histories <= 3', 'MC_d3.cfg'),
                      ('small alphabet with one value and one ticker text, histories <= 4', 'MC_d4_reduced.cfg'),
                      ('full alphabet, histories <= 2', 'MC_full_d2.cfg')] if thorough else
                     [('small alphabet with one value and one ticker text, histories <= 3', 'MC_d3_reduced.cfg')])
        f_deep = [(lab, ex.submit(tlc.run_tlc, SPEC, cfg, workers=w, timeout=3000)) for lab, cfg in deep_cfgs]
        f_def = {k: ex.submit(tlc.run_tlc, SPEC, cfg, workers=1, timeout=600) for k, (cfg, _) in DEFECTS.items()}
        f_sim = ex.submit(simulate_labels, 'MC_sim.cfg', 3000 if thorough else 200, 15, chk.seed + 1, 1500)
        g, gres = f_graph.result()
        ga, ares = f_alpha.result()
        deep = [(lab, f.result()) for lab, f in f_deep]
        defects = {k: f.result() for k, f in f_def.items()}
        sims, sres = f_sim.result()

    # design model, repaired position: must satisfy its properties
    chk.add_model('RoomReplica small alphabet, histories <= 2 (exhaustive, graph dumped)', gres)
    for lab, res in deep:
        chk.add_model(f'RoomReplica {lab} (exhaustive)', res)
    chk.add_model('RoomReplica full alphabet, histories <= 1 (alphabet)', ares)
    if sres.issues:
        raise MachineryFailure(f'simulation of the design model failed: {[(i.kind, i.name) for i in sres.issues]}')
    chk.cov['models'].append(dict(label='RoomReplica small alphabet, simulated histories of length 14',
                                  behaviours=len(sims), wall_s=round(sres.wall_s, 2), exhaustive=False, ok=True))

    # vacuity: every notification kind labels an edge
    kinds = {}
    for (_, lab, _) in g.edges:
        k = note_of_label(lab)['kind']
        kinds[k] = kinds.get(k, 0) + 1
    chk.cov['coverage_by_action'].update({f'graph<=2:{k}': n for k, n in sorted(kinds.items())})
    if len(kinds) != 25:
        raise MachineryFailure(f'vacuity: only {len(kinds)} of 25 notification kinds in the state graph')

    # design model, code's position: each deviation must break ReplicaEqualsFold (the property has teeth);
    # the counterexample is replayed on the real code below
    for k, res in defects.items():
        iss = [i for i in res.issues if i.name == 'ReplicaEqualsFold']
        chk.cov['binding_selftest'][f'design_model_with_{k}_violates_ReplicaEqualsFold'] = bool(iss)
        if not iss:
            raise MachineryFailure(f'design model with deviation {k} does not violate ReplicaEqualsFold')
        labels = [lab for lab, _ in iss[0].trace if lab.startswith('Step(')]
        init = _init_of(iss[0].trace[0][1])
        hist.append((f'cex:{k}', init, [note_of_label(x) for x in labels]))

    # transition cover of the exhaustive graph
    init = _init_of(g.states[g.init[0]])
    paths = _canonical_cover(g)
    chk.cov['graph_edges'] = len(set(g.edges))
    chk.cov['cover_paths'] = len(paths)
    cover = [[note_of_label(lab) for lab in p] for p in paths if len(p) > 1]
    singles = {p[0]: [note_of_label(p[0])] for p in paths if len(p) == 1}
    if not thorough:
        # quick tier: a sample of the cover, stratified by (kind, kind) and preferring pairs that talk
        # about the same room and the same user (the compositions the property is about)
        cap = int(os.environ.get('VERIF_C19_QUICK_PAIRS', '2500'))
        if len(cover) > cap:
            cover = _stratified(cover, cap, chk.rng)
    chk.cov['cover_paths_replayed'] = len(cover)
    chk.cov['exhaustive'] = thorough
    for lab in sorted(singles):
        hist.append(('cover1', init, singles[lab]))
    for notes in cover:
        hist.append(('cover2', init, notes))

    # simulated long behaviours of the design model
    for labels in sims:
        hist.append(('sim', init, [note_of_label(x) for x in labels]))

    # seeded random words over the full alphabet enumerated by TLC (every word is a behaviour: no
    # notification is ever disabled), kinds drawn uniformly, with random blocking / tracking set-ups
    by_kind: dict = {}
    for (_, lab, _) in ga.edges:
        nt = note_of_label(lab)
        by_kind.setdefault(nt['kind'], {})[_note_key(nt)] = nt
    if len(by_kind) != 25:
        raise MachineryFailure('vacuity: full alphabet misses notification kinds')
    alphabet = {k: [v[x] for x in sorted(v)] for k, v in sorted(by_kind.items())}
    chk.cov['alphabet_size'] = sum(len(v) for v in alphabet.values())
    kinds_sorted = sorted(alphabet)
    nwords = 2500 if thorough else 200
    for i in range(nwords):
        ln = chk.rng.choice([4, 8, 12, 12, 16, 24])
        focus = chk.rng.choice(ROOMS) if chk.rng.random() < 0.5 else None
        notes = []
        while len(notes) < ln:
            nt = chk.rng.choice(alphabet[chk.rng.choice(kinds_sorted)])
            if focus and nt['room'] not in (focus, NONE) and chk.rng.random() < 0.7:
                continue
            notes.append(nt)
        others = [u for u in USERS if u != ME]
        ini = dict(tracked=sorted(u for u in others if chk.rng.random() < 0.35),
                   blkRoom=sorted(u for u in others if chk.rng.random() < 0.4),
                   blkPriv=sorted(u for u in others if chk.rng.random() < 0.4))
        hist.append(('word', ini, notes))
    return hist


def run(chk: Check, args):
    thorough = chk.tier == 'thorough'
    chk.cov['rule'] = ('history = (blocking/tracking set-up, sequence of server notifications) taken from TLC: edge '
                       'cover of the exhaustive state graph (histories <= 2), design-model counterexamples, simulated '
                       'behaviours (length 14) and seeded words over the TLC-enumerated full alphabet (length <= 24); '
                       'each is concretised (names, texts, numbers, list orders), sent as real frames to a logged-in '
                       'SoulSeekClient on the SimNet and recorded frame by frame; distinct = distinct (history, '
                       'set-up); non-trivial = at least one notification')
    hist = collect_histories(chk, thorough)
    jobs, metas = [], []
    for i, (src, init, notes) in enumerate(hist):
        job = dict(notes=notes, seed=f'{chk.seed}/{i}', **init)
        jobs.append(job)
        metas.append(dict(source=src, **job))
    chk.log(f'{len(jobs)} histories, {sum(len(j["notes"]) for j in jobs)} frames; replaying on the real client '
            f'({_procs()} processes)')
    traces = replay_all(jobs, _procs())
    for job, tr in zip(jobs, traces):
        chk.count((tuple(_note_key(n) for n in job['notes']), tuple(job['tracked']), tuple(job['blkRoom']),
                   tuple(job['blkPriv'])), nontrivial=len(tr) > 1)
    for i in (0, len(traces) // 2, len(traces) - 1):
        chk.sample(dict(meta={k: v for k, v in metas[i].items() if k != 'notes'},
                        trace=[{k: v for k, v in e.items() if k != 'snap'} for e in traces[i]][:8]))
    chk.log('replay done; validating traces with TLC')

    v = validate(traces, _workers())
    chk.log(f'trace validation: {len(v.accepted)} accepted, {len(v.rejected)} rejected')
    unexplained = [tid for tid, info in v.rejected.items() if not info.get('fields')]
    if unexplained:
        tid = unexplained[0]
        info = tlc.diagnose_trace(TRACE, 'TraceDiag.cfg', traces[tid - 1])
        raise MachineryFailure(f'trace {tid} ({metas[tid - 1]["source"]}) was rejected without a verdict from the '
                               f'trace spec (initial state or malformed record): {info.get("kind")} {info.get("name")} '
                               f'at {info.get("at")}\n{str(info.get("detail"))[:1500]}')

    # were the design-level counterexamples reproduced by the real code?
    for tid, m in enumerate(metas, 1):
        if m['source'].startswith('cex:'):
            k = m['source'][4:]
            chk.cov['binding_selftest'][f'{k}_counterexample_on_real_code'] = (
                'reproduced: ' + _fingerprint(tid, v.rejected[tid], None) if tid in v.rejected
                else 'not reproduced (the code under test does not have this deviation)')

    # one representative (shortest trace) per fingerprint, with the number of traces showing it
    groups: dict = {}
    for tid, info in v.rejected.items():
        groups.setdefault(_fingerprint(tid, info, None), []).append(tid)
    reps = {}
    for fp, tids in sorted(groups.items()):
        tid = min(tids, key=lambda t: (len(traces[t - 1]), t))
        info = dict(v.rejected[tid])
        info['name'] = f"{info['name']} [{fp}; {len(tids)} traces]"
        reps[tid] = info
    chk.cov['rejected_by_fingerprint'] = {fp: len(t) for fp, t in sorted(groups.items())}
    v2 = tlc.TraceVerdicts(accepted=v.accepted, rejected=reps, result=v.result, n=v.n)
    chk.apply_verdicts(v2, traces, _fingerprint, meta_of=lambda tid: metas[tid - 1])

    # binding self-test: corrupt recorded fields of accepted traces -> must be rejected
    acc = [traces[tid - 1] for tid in sorted(v.accepted)]
    cor = _corruptions(acc)
    if cor:
        cv = validate([c for _, c in cor], 2, timeout=600)
        missed = [name for i, (name, _) in enumerate(cor, 1) if i in cv.accepted]
        chk.cov['binding_selftest']['corrupted_traces_rejected'] = f'{len(cor) - len(missed)}/{len(cor)}'
        chk.cov['binding_selftest']['corruptions'] = [name for name, _ in cor]
        if missed:
            raise MachineryFailure(f'corrupted traces were accepted by the trace spec: {missed}')
    elif not v.rejected:
        raise MachineryFailure('no accepted trace to corrupt for the binding self-test')

    chk.assumptions += [
        'the fold in RoomReplica.tla (written from the property statement, SOULSEEK.rst and the message docstrings) '
        'is the oracle',
        'a RoomList names a room in at most one of public / owned / member, and operated rooms are member rooms',
        'frames are well formed (built with the repository\'s own message classes); hostile bytes are C02',
        'CPython reference counting frees an unreferenced User object at once; where that matters the fold leaves '
        'the field open, so the check does not depend on it',
        'the initial state is a fresh login on a scripted server that sends no room list',
    ]


def replay(chk: Check, data: dict):
    """Re-execute the history of a replay file on the current tree and validate the new trace."""
    meta = (data.get('replay') or {}).get('meta') or {}
    job = {k: meta[k] for k in ('notes', 'seed', 'tracked', 'blkRoom', 'blkPriv')}
    tr = run_history(job)
    for e in tr:
        if e['ev'] == 'note':
            print('  ', e['kind'], {k: e[k] for k in ('room', 'user', 'v', 'p', 'set', 'own', 'ops') if e[k] not in
                                   (NONE, -1, False, [])}, e['cat'] if e['kind'] == 'RoomList' else '',
                  '->', json.dumps(e['snap'], ensure_ascii=False)[:400])
    v = validate([tr], 1, timeout=600)
    for tid, info in v.rejected.items():
        if not info.get('fields'):
            raise MachineryFailure('replayed trace rejected without a verdict from the trace spec')
    chk.apply_verdicts(v, [tr], _fingerprint, meta_of=lambda tid: meta)
    chk.log(f'replayed history: {"rejected" if v.rejected else "accepted"}')

"""C16 - session life cycle (spec: Session).

Design model: specs/Session/Session.tla (settings matrix chosen in Init, login burst, server loss,
watchdog, stop() as its real sequence, background activities).  Behaviours of the model (edge cover
of the state graph + simulation) are projected onto stimulus schedules, executed on a real
SoulSeekClient on the simulated network against the scripted server in virtual time, and every
recorded execution is judged by TLC against specs/Session/SessionTrace.tla.
"""
from __future__ import annotations

import asyncio
import copy
import gc
import os
import re
import shutil
import sys
import tempfile

from .. import tlc, vloop
from ..core import Check, MachineryFailure
from ..simnet import SimNet
from ..simserver import ScriptedServer, ScriptedPeer, make_settings, make_client, SERVER_PORT

SPEC = 'Session/Session.tla'
TRACE = 'Session/SessionTrace.tla'

ACTIONS = ['Start', 'Login', 'Advertise', 'BurstEnd', 'ServerLoss', 'UserDisconnect', 'WatchdogWake',
           'ReconnectOk', 'ReconnectFail', 'Execute', 'StopBegin', 'StopStall', 'StopNetDone', 'StopServices', 'StopReturn',
           'Spawn', 'PeerOpens', 'PeerIn']

LONG = 700.0            # longer than every timer of the library (ping 300 s, tracking retry 600 s)
SLACK_MS = 5000         # tolerance on 'a reconnect attempt begins reconnect.timeout + one poll after the loss'


# ---------------------------------------------------------------------------
# behaviours -> stimulus schedules
# ---------------------------------------------------------------------------

_LAB = re.compile(r'^(\w+)(?:\((.*)\))?$')


def _parse_label(lab: str):
    m = _LAB.match(lab.strip())
    if not m:
        return lab, ()
    args = tuple(a.strip().strip('"') for a in m.group(2).split(',')) if m.group(2) else ()
    return m.group(1), args


def cfg_key(st) -> tuple:
    """Hashable abstract settings vector from a parsed TLA+ state."""
    c = st['cfg']
    return (tuple(sorted(c['ports'])), tuple(sorted(c['friends'])), tuple(sorted(c['liked'])),
            tuple(sorted(c['hated'])), tuple(sorted(c['favs'])), bool(c['autoJoin']), bool(c['invites']),
            bool(c['reconnect']), int(c['shares'][0]) // 2, bool((st.get('plan') or {}).get('slow', False)))


def stimuli_of(labels) -> tuple:
    """Project a behaviour (action labels) onto what the harness drives.  Internal steps of the
    model (Advertise, BurstEnd, StopServices, ...) happen by themselves in the real code; a loss /
    stop / disconnect inside the burst becomes an injection at the k-th advertisement frame."""
    out: list = []
    in_burst = False
    pos = 0
    login_idx = None          # index in `out` of the stimulus whose login burst is running
    spawn_idx = {}
    wake = False               # WatchdogWake seen, outcome not yet
    stop_at = None             # where the stop went: ('out', index) or ('inj', index of the login stimulus)
    for lab in labels:
        name, a = _parse_label(lab)
        if name == 'Start':
            out.append(['start'])
        elif name == 'Login':
            who, mode = a
            if who == 'user':
                out.append(['login', mode, None])
                login_idx = len(out) - 1
            else:
                # the auto login belongs to the preceding reconnect
                if login_idx is not None and out[login_idx][0] == 'reconn':
                    out[login_idx][2] = mode
            in_burst = (mode == 'ok')
            pos = 0
        elif name == 'Advertise':
            pos += 1
        elif name == 'BurstEnd':
            in_burst = False
        elif name in ('ServerLoss', 'UserDisconnect', 'StopBegin'):
            what = ('loss', a[0]) if name == 'ServerLoss' else ('userdisc',) if name == 'UserDisconnect' \
                else ('stop', 'fast')
            if wake and name == 'StopBegin':
                out.append(['reconn', 'hang', 'ok', None])
                wake = False
            if in_burst and login_idx is not None:
                out[login_idx][-1] = (pos, what)
                in_burst = False
                if name == 'StopBegin':
                    stop_at = ('inj', login_idx)
            else:
                out.append(list(what))
                if name == 'StopBegin':
                    stop_at = ('out', len(out) - 1)
        elif name == 'StopStall' and stop_at is not None:
            # closing the connections takes long: timers of the library come due inside stop()
            if stop_at[0] == 'out':
                out[stop_at[1]][1] = 'slow'
            else:
                k, _ = out[stop_at[1]][-1]
                out[stop_at[1]][-1] = (k, ('stop', 'slow'))
            # the environment also tries the other thing time can bring inside a slow stop(): a connect
            # that was in flight completes while the connections are being closed
            for kind, i in spawn_idx.items():
                if out[i][2] == 'any':
                    out[i][2] = 'gate'
        elif name == 'WatchdogWake':
            wake = True
        elif name == 'ReconnectOk':
            out.append(['reconn', 'ok', 'ok', None])
            login_idx = len(out) - 1
            wake = False
        elif name == 'ReconnectFail':
            out.append(['reconn', 'fail', 'ok', None])
            wake = False
        elif name == 'Execute':
            out.append(['exec'])
        elif name == 'Spawn':
            out.append(['spawn', a[0], 'any'])
            spawn_idx[a[0]] = len(out) - 1
        elif name == 'Finish':
            out.append(['scanfin'] if a and a[0] == 'scan' else ['wait', LONG])
            if a:
                spawn_idx.pop(a[0], None)
        elif name == 'PeerOpens':
            if a[0] in spawn_idx:
                out[spawn_idx.pop(a[0])][2] = 'delay'
            out.append(['wait', 8.0])
        elif name == 'PeerIn':
            out.append(['peerin'])
        elif name == 'GetParent':
            out.append(['parent'])
        elif name == 'ParentDrops':
            out.append(['parentdrop'])
    if wake:
        out.append(['reconn', 'hang', 'ok', None])

    def freeze(x):
        return tuple(freeze(y) for y in x) if isinstance(x, (list, tuple)) else x
    return freeze(out)


# ---------------------------------------------------------------------------
# recording helpers
# ---------------------------------------------------------------------------

def _task_kind(task) -> str | None:
    """Kind of a pending task, or None when it is not running library code.  Names are only used
    to label findings: the verdict is 'the set is empty'."""
    coro = task.get_coro()
    code = getattr(coro, 'cr_code', None) or getattr(coro, 'gi_code', None)
    fn = getattr(code, 'co_filename', '') or ''
    qual = getattr(coro, '__qualname__', '') or ''
    name = task.get_name()
    if 'aioslsk' not in fn.replace('\\', '/').split('/'):
        return None
    if qual.startswith('BackgroundTask.runner'):
        return {'server-connection-watchdog-task': 'watchdog', 'server-ping-task': 'ping',
                'wishlist-task': 'wishlist'}.get(name, 'core')
    if qual.startswith('Timer.runner'):
        return 'stimer'
    if '_tracking_task' in qual:
        return 'track'
    if '_request_retry' in qual:
        return 'retry'
    if '_message_reader_loop' in qual:
        return 'reader'
    if name.startswith('potential-parent'):
        return 'pparent'
    if name.startswith('connect-to-peer'):
        return 'ctp'
    if name.startswith('search-reply'):
        return 'sreply'
    if 'SharesManager.scan' in qual:
        return 'scan'
    if 'ListeningConnection.accept' in qual:
        return 'accept'
    if 'TransferManager' in qual or 'transfer' in name.lower():
        return 'xfer'
    if name.startswith('queue-message'):
        return 'qmsg'
    return 'task:' + qual.split('.')[-1][:30]


class Names:
    """abstract <-> concrete names of one concretisation.  Users (me, f1, f2), rooms (r1, r2) and
    interests (l1, h1) are separate name spaces: the settings lists are independent, so the same
    string may be a friend, a favourite room and an interest at once (`shared`)."""

    SPACES = {'user': ('me', 'f1', 'f2'), 'room': ('r1', 'r2'), 'interest': ('l1', 'h1')}

    def __init__(self, rng):
        pool = ['alice', 'Bob Smith', 'ça_va', 'user-03', 'x', 'Zoë', 'very long name ' * 3, '日本', 'a.b', 'me2']
        rng.shuffle(pool)
        self.c = {'me': 'me' if rng.random() < 0.5 else pool[0] + '!'}
        shared = rng.random() < 0.4
        for i, k in enumerate(['f1', 'f2', 'l1', 'h1', 'r1', 'r2']):
            if shared:
                # the same two strings in every list
                self.c[k] = pool[1 + (0 if k in ('f1', 'l1', 'r1') else 1)]
            else:
                self.c[k] = pool[i + 1] + ('' if k[0] == 'f' else f' {k[0]}')
        self._index()

    def _index(self):
        self.a = {ns: {self.c[k]: k for k in keys if k in self.c} for ns, keys in self.SPACES.items()}

    def abstract(self, concrete: str, ns: str) -> str:
        return self.a[ns].get(concrete, '?' + str(concrete)[:20])

    @classmethod
    def from_map(cls, c: dict) -> 'Names':
        self = cls.__new__(cls)
        self.c = dict(c)
        self._index()
        return self


def frame_of(msg, M, nm: Names, ports) -> list:
    """Project a request frame seen by the server.  Advertisement kinds carry their arguments as
    strings; everything else is ['other', class name]."""
    me = nm.c['me']
    b = lambda x: '1' if x else '0'  # noqa: E731
    if isinstance(msg, M.Login.Request):
        return ['login']
    if isinstance(msg, M.SetListenPort.Request):
        def p(val, want):
            return '0' if not val else '1' if val == want else f'bad:{val}'
        obf = msg.obfuscated_port if msg.obfuscated_port_amount else 0
        return ['listen', p(msg.port, ports[0]), p(obf, ports[1])]
    if isinstance(msg, M.SetStatus.Request):
        return ['status', {2: 'online', 1: 'away', 0: 'offline'}.get(msg.status, str(msg.status))]
    if isinstance(msg, M.SharedFoldersFiles.Request):
        return ['shares', str(msg.shared_folder_count), str(msg.shared_file_count)]
    if isinstance(msg, M.AddUser.Request):
        if msg.username == me:
            return ['other', 'AddUser:self']          # kept "for convenience" (user/manager.py:477)
        if msg.username in ('ghost', 'seeder'):
            return ['other', 'AddUser:' + msg.username]  # caused by the harness (spawned activity)
        return ['adduser', nm.abstract(msg.username, 'user')]
    if isinstance(msg, M.AddInterest.Request):
        return ['like', nm.abstract(msg.interest, 'interest')]
    if isinstance(msg, M.AddHatedInterest.Request):
        return ['hate', nm.abstract(msg.hated_interest, 'interest')]
    if isinstance(msg, M.TogglePrivateRoomInvites.Request):
        return ['invites', b(msg.enable)]
    if isinstance(msg, M.JoinRoom.Request):
        return ['join', nm.abstract(msg.room, 'room')]
    if isinstance(msg, M.BranchLevel.Request):
        return ['level', str(msg.level)]
    if isinstance(msg, M.BranchRoot.Request):
        if msg.username == 'pp0':
            return ['root', 'pp']                      # the scripted distributed parent (a branch root)
        return ['root', 'me' if msg.username == me else nm.abstract(msg.username, 'user')]
    if isinstance(msg, M.ToggleParentSearch.Request):
        return ['psearch', b(msg.enable)]
    return ['other', type(msg).__qualname__.split('.')[0]]


def stall_writes(writer):
    """Block the writes of one SimWriter the way a stalled TCP peer does.  simnet's `paused`
    flag keeps a single waiter and is not woken by close(); asyncio's FlowControlMixin wakes every
    drain() waiter with ConnectionResetError('Connection lost') when the transport is closed, so
    that is what this per-instance replacement does."""
    waiters: list = []
    orig_close = writer.close

    async def drain():
        if writer._closing:
            raise ConnectionResetError('Connection lost')
        fut = asyncio.get_running_loop().create_future()
        waiters.append(fut)
        try:
            await fut
        finally:
            if fut in waiters:
                waiters.remove(fut)

    def close():
        orig_close()
        for fut in list(waiters):
            if not fut.done():
                fut.set_exception(ConnectionResetError('Connection lost'))

    writer.drain = drain
    writer.close = close


class ShareTrees:
    """Share directories on disk (created once per run, read-only for the clients)."""

    def __init__(self, root, rng):
        self.root = root
        self.dirs = []
        for i in range(2):
            d = os.path.join(root, f'share{i}')
            os.makedirs(d)
            nsub = rng.randint(1, 2)
            for j in range(rng.randint(1, 2)):
                with open(os.path.join(d, f'findme track{j}.txt'), 'wb') as fh:
                    fh.write(b'x' * 10)
            for s in range(nsub):
                sd = os.path.join(d, f'sub{s}')
                os.makedirs(sd)
                for j in range(rng.randint(1, 2)):
                    with open(os.path.join(sd, f'findme other{j}.dat'), 'wb') as fh:
                        fh.write(b'y' * 10)
            os.makedirs(os.path.join(d, 'empty'))

    def expected(self, n: int) -> list:
        """[folders, files] as the protocol counts them (folders that directly contain a file),
        computed from the file system, not from the client."""
        folders = files = 0
        for d in self.dirs_for(n):
            for _, _, fns in os.walk(d):
                if fns:
                    folders += 1
                    files += len(fns)
        return [str(folders), str(files)]

    def dirs_for(self, n: int):
        return [os.path.join(self.root, f'share{i}') for i in range(n)]


# ---------------------------------------------------------------------------
# one execution on the real client
# ---------------------------------------------------------------------------

class Runner:
    def __init__(self, tmp: str, trees: ShareTrees):
        self.tmp = tmp
        self.trees = trees

    def run(self, cfg: tuple, stimuli: tuple, conc: dict) -> list:
        events: list = []
        # tasks the code under test leaves behind are finalised after the loop is closed; Python
        # reports each as "Exception ignored in: <coroutine ...>" - they are in the trace already
        hook, sys.unraisablehook = sys.unraisablehook, lambda *a: None
        try:
            _, loop = vloop.run(lambda lp: self._main(lp, cfg, stimuli, conc, events))
        except vloop.Deadlock:
            events.append(dict(ev='harness_deadlock', t=events[-1]['t'] if events else 0))
        finally:
            gc.collect()
            sys.unraisablehook = hook
        return events

    async def _main(self, loop, cfg, stimuli, conc, events):
        from aioslsk.protocol import messages as M
        from aioslsk.events import SessionInitializedEvent, SessionDestroyedEvent, ConnectionStateChangedEvent
        from aioslsk.network.connection import ListeningConnection, ServerConnection
        from aioslsk.exceptions import AuthenticationError, InvalidSessionError
        from aioslsk.commands import GetUserStatusCommand
        from aioslsk.user.model import UserStatus

        ports_a, friends, liked, hated, favs, auto_join, invites, reconnect, nshared = cfg[:9]
        slow_scan = bool(cfg[9]) if len(cfg) > 9 else False
        nm: Names = conc['names']
        pclear, pobf = conc['ports']
        T = conc['T']
        t0 = loop.time()

        def now():
            return int(round((loop.time() - t0) * 1000))

        def rec(ev, **kw):
            events.append(dict(ev=ev, t=now(), **kw))

        net = SimNet(loop).install()
        try:
            srv = await ScriptedServer(net).start()
            pol: dict = {}            # port -> connect verdict (default: the connect succeeds)
            net.policy = lambda h, p: pol.get(p, 'ok')
            st = dict(mode='ok', inj=None, adverts=0, stop_task=None, aux=[], injected=False, harness_dial=False)
            me = nm.c['me']

            # ---- scripted server behaviour ------------------------------------------------
            def on_login(s, sess, msg):
                sess.username = msg.username
                mode = st['mode']
                st['adverts'] = 0
                if mode == 'ok':
                    sess.send(M.Login.Response(success=True, greeting='hi', ip='1.2.3.4', md5hash='0' * 32,
                                               privileged=False))
                    # the server's own post-login information (server-derived state of the client)
                    sess.send(M.RoomList.Response(rooms=['lobby', 'jazz'], rooms_user_count=[3, 4],
                                                  rooms_private_owned=[], rooms_private_owned_user_count=[],
                                                  rooms_private=[], rooms_private_user_count=[],
                                                  rooms_private_operated=[]),
                              M.ParentMinSpeed.Response(1), M.ParentSpeedRatio.Response(50),
                              M.PrivilegedUsers.Response(['vip1', 'vip2']), M.WishlistInterval.Response(720))
                elif mode == 'rejected':
                    sess.send(M.Login.Response(success=False, reason='INVALIDPASS'))
                else:
                    import struct
                    sess.ep.send(struct.pack('<II', 8, 1) + b'\xff\xff\xff\xff')
                return None

            def on_adduser(s, sess, msg):
                if msg.username == 'ghost':
                    return [M.AddUser.Response('ghost', exists=False)]
                return [M.AddUser.Response(msg.username, exists=True, status=2,
                                           user_stats=M.UserStats(100, 5, 10, 2), country_code='BE')]

            srv.handlers[M.Login.Request] = on_login
            srv.handlers[M.AddUser.Request] = on_adduser
            srv.relay_connect_to_peer = False

            def client_writer():
                sess = srv.sessions[-1] if srv.sessions else None
                return sess.ep.link.writers[0] if sess else None

            def do_inject(what):
                """Make the environment event happen now."""
                kind = what[0]
                if kind == 'loss':
                    k = what[1]
                    rec('inject', kind=k)
                    sess = srv.sessions[-1]
                    if k == 'eof':
                        sess.close('eof')
                    elif k == 'reset':
                        sess.close('reset')
                    elif k == 'wfail':
                        client_writer().fail_writes = ConnectionResetError(104, 'Connection reset by peer')
                    elif k == 'timeout':
                        stall_writes(client_writer())
                elif kind == 'stop':
                    st['stop_task'] = loop.create_task(do_stop(len(what) > 1 and what[1] == 'slow'),
                                                       name='harness-stop')
                elif kind == 'userdisc':
                    st['aux'].append(loop.create_task(do_userdisc(), name='harness-userdisc'))

            def on_frame(sess, msg):
                f = frame_of(msg, M, nm, (pclear, pobf))
                if f[0] == 'login':
                    rec('frame', f=f, mode=st['mode'])
                    return
                rec('frame', f=f)
                if f[0] != 'other':
                    st['adverts'] += 1
                    inj = st['inj']
                    if inj is not None and st['adverts'] >= max(1, inj[0]):
                        st['inj'] = None
                        do_inject(inj[1])
            srv.on_frame = on_frame

            def on_link(link):
                port = link.addr[1][1]
                to = 'server' if port == SERVER_PORT else ('in' if st['harness_dial'] else 'peer')
                rec('link', to=to)
            net.on_link = on_link

            # ---- the client ---------------------------------------------------------------
            dl = os.path.join(self.tmp, 'dl')
            os.makedirs(dl, exist_ok=True)
            settings = make_settings(
                me, port=pclear if 'clear' in ports_a else 0, obfuscated_port=pobf if 'obf' in ports_a else 0,
                download_dir=dl, shared=[dict(path=d) for d in self.trees.dirs_for(nshared)],
                network=dict(server=dict(reconnect=dict(auto=reconnect, timeout=T)),
                             listening=dict(error_mode='any')),
                shares=dict(scan_on_start=True),
                users=dict(friends={nm.c[f] for f in friends}),
                interests=dict(liked={nm.c[x] for x in liked}, hated={nm.c[x] for x in hated}),
                rooms=dict(auto_join=auto_join, private_room_invites=invites, favorites={nm.c[r] for r in favs}),
                searches=dict(send=dict(request_timeout=30)),
            )
            client = make_client(settings)
            keep = []
            peers: list = []

            # a slow start-up scan: the executor jobs of the scan are held until the schedule says so
            held: list = []

            def gate(func, a):
                if not st.get('scan_held'):
                    return None
                fut = loop.create_future()
                held.append((fut, func, a))
                return fut

            def release_scan():
                st['scan_held'] = False
                while held:
                    fut, func, a = held.pop(0)
                    if fut.done():
                        continue
                    try:
                        fut.set_result(func(*a))
                    except BaseException as exc:  # noqa
                        fut.set_exception(exc)
            if slow_scan:
                st['scan_held'] = True
                loop.executor_gate = gate

            def listen(ec, fn):
                keep.append(fn)
                client.events.register(ec, fn, priority=0)

            def on_conn(e):
                if isinstance(e.connection, ServerConnection):
                    rec('conn', st=e.state.name.lower(), reason=e.close_reason.name.lower())
            listen(ConnectionStateChangedEvent, on_conn)
            listen(SessionInitializedEvent, lambda e: rec('sinit'))
            listen(SessionDestroyedEvent, lambda e: rec('sdestroy'))

            known = [nm.c[k] for k in ('me', 'f1', 'f2')] + ['ghost', 'seeder', 'vip1']

            def snap():
                dn = client.distributed_network
                derived = []
                users = client.users.users
                if client.users.privileged_users or any(
                        u.status != UserStatus.UNKNOWN or u.privileged for u in users.values()):
                    derived.append('users')
                if client.rooms.rooms:
                    derived.append('rooms')
                if any(client.users.is_tracked(n) for n in known):
                    derived.append('tracking')
                if any(v is not None for v in (dn.parent_min_speed, dn.parent_speed_ratio, dn.min_parents_in_cache,
                                               dn.parent_inactivity_timeout, dn.distributed_alive_interval)):
                    derived.append('distparams')
                tasks = sorted({k for k in (_task_kind(t) for t in vloop.pending_library_tasks(loop)) if k})
                op = set()
                for link in net.open_links():
                    op.add('server' if link.addr[1][1] == SERVER_PORT else 'peer')
                for (_, port) in net.listeners:
                    if port == pclear:
                        op.add('clear')
                    elif port == pobf:
                        op.add('obf')
                return dict(session=client.session is not None,
                            srvst=client.network.server_connection.state.name.lower(),
                            derived=sorted(derived), tasks=tasks, open=sorted(op))

            async def settle():
                for _ in range(60):
                    await vloop.settle(loop)
                    if len(loop._ready) == 0:  # type: ignore[attr-defined]
                        return

            async def quiesce(dt: float = 0.0):
                if dt > 0:
                    await asyncio.sleep(dt)
                await settle()
                if st.get('in_stop'):
                    return          # a stop() issued inside a burst is still running: not a quiescent moment
                rec('q', **snap())

            async def guarded(coro, limit=3000.0):
                return await asyncio.wait_for(coro, limit)

            async def slow_listener(e):
                """An application listener that takes its time on one report of a connection that stop()
                is closing (e.g. to remove a port mapping).  The event bus awaits listeners inline, so the
                close - and stop() - last that long."""
                plan = st.get('stall')
                if plan is None or e.close_reason.name != 'REQUESTED' or e.state.name.lower() != plan['state']:
                    return
                kind = ('server' if isinstance(e.connection, ServerConnection)
                        else 'listening' if isinstance(e.connection, ListeningConnection) else 'peer')
                if plan['on'] not in ('any', kind):
                    return
                cur = asyncio.current_task()
                if cur is not None and cur.cancelling():
                    # the report comes from a task stop() has cancelled and does not wait for (a connect that
                    # closes its half-made connection): slowing that down says nothing about stop()
                    return
                st['stall'] = None
                rec('stall', on=kind, st=plan['state'], d=int(plan['d'] * 1000))
                loop.call_later(1.0, open_conn_gates)
                sess = srv.sessions[-1] if srv.sessions else None
                if plan['poke'] and sess is not None and not sess.closed:
                    # a server stimulus that lands inside stop()
                    if ('*', 62002) not in net.listeners:
                        peers.append(await ScriptedPeer(net, 'pc1', 62002).listen())
                    pol[62002] = ('delay', 1.0)
                    sess.send(M.ConnectToPeer.Response(username='pc1', typ='P', ip='10.0.0.2', port=62002,
                                                       ticket=4343, privileged=False, obfuscated_port_amount=0,
                                                       obfuscated_port=0))
                await asyncio.sleep(plan['d'])
                rec('note', what='stall_end')
            def open_conn_gates():
                for g in st.get('conn_gates', []):
                    if not g.done():
                        g.set_result('ok')
            keep.append(slow_listener)
            client.events.register(ConnectionStateChangedEvent, slow_listener)

            async def do_stop(slow=False):
                if slow:
                    # long enough for the reconnect watchdog (and the 10 s retries / write timeouts) to come due
                    st['stall'] = dict(on=conc.get('stall_on', 'any'), state=conc.get('stall_state', 'closing'),
                                       d=max(T + 2.0, conc.get('stall_min', 0.0)), poke=conc.get('stall_poke', False))
                rec('stop_call')
                st['in_stop'] = True
                try:
                    await guarded(client.stop())
                    res = 'ok'
                except Exception as exc:  # an observation, not a harness failure
                    res = 'exc:' + type(exc).__name__
                st['stall'] = None
                st['in_stop'] = False
                await settle()
                rec('stop_ret', res=res, **snap())

            async def do_userdisc():
                rec('userdisc_call')
                try:
                    await guarded(client.network.disconnect_server())
                    res = 'ok'
                except Exception as exc:
                    res = 'exc:' + type(exc).__name__
                rec('userdisc_ret', res=res)

            def arm(inj):
                st['inj'] = inj
                st['adverts'] = 0

            async def flush_injection():
                """The burst sent fewer frames than the chosen position: do it now."""
                inj = st['inj']
                if inj is not None:
                    st['inj'] = None
                    do_inject(inj[1])
                    await after_loss(inj[1])

            async def after_loss(what):
                """Let the client notice a loss injected while nothing is being read / written."""
                if what[0] != 'loss':
                    return
                await settle()
                if client.network.server_connection.state.name != 'CONNECTED':
                    return
                sess = srv.sessions[-1]
                if client.session is not None and what[1] in ('wfail', 'timeout'):
                    # make the client write
                    if conc.get('notice') == 'track':
                        # ... from a tracking worker (AddUser, user/manager.py:625)
                        await guarded(client.users.track_user('ghost'))
                    else:
                        # ... from the reader: a private message is acknowledged (user/manager.py:309)
                        sess.send(M.PrivateChatMessage.Response(chat_id=7, timestamp=1, username='vip1',
                                                                message='hello', is_direct=False))
                    await asyncio.sleep(11.0 if what[1] == 'timeout' else 0.01)
                elif client.session is None and what[1] != 'eof':
                    # the next ping (server.py, 300 s; + 10 s write timeout) hits the dead socket
                    for _ in range(312):
                        await asyncio.sleep(1.0)
                        if client.network.server_connection.state.name != 'CONNECTED':
                            break

            async def get_parent():
                """The server proposes a potential parent, the client connects to it, the peer announces that it
                is a branch root.  `parent_up` is recorded once the server has been told the new position."""
                sess = srv.sessions[-1] if srv.sessions else None
                if sess is None or sess.closed or client.session is None or st.get('parent_ep') is not None:
                    return
                accepted = loop.create_future()

                async def on_accept(ep):
                    if not accepted.done():
                        accepted.set_result(ep)
                pr = ScriptedPeer(net, 'pp0', 62010)
                pr.on_accept = on_accept
                if ('*', 62010) not in net.listeners:
                    peers.append(await pr.listen())
                n0 = len(srv.requests(M.BranchLevel.Request))
                sess.send(M.PotentialParents.Response(entries=[M.PotentialParent('pp0', '10.0.0.9', 62010)]))
                try:
                    ep = await asyncio.wait_for(accepted, 5.0)
                except asyncio.TimeoutError:
                    rec('note', what='no parent connection')
                    return
                await ep.read_frame()                                   # PeerInit
                ep.send_message(M.DistributedBranchLevel.Request(0))    # level 0: the peer is its own root
                await settle()
                if len(srv.requests(M.BranchLevel.Request)) == n0:
                    rec('note', what='peer not taken as parent')
                    return
                st['parent_ep'] = ep
                st['parent_down'] = False
                rec('parent_up')

                async def watch():
                    while await ep.read_frame() is not None:
                        pass
                    st['parent_down'] = True
                    rec('parent_down')
                st['aux2'] = loop.create_task(watch(), name='harness-parent-watch')

            async def spawn(kind, variant):
                sess = srv.sessions[-1] if srv.sessions else None
                slow = variant == 'delay'

                def policy_for(port):
                    if variant == 'gate':
                        # completes when the harness says so: one second into a slow close of stop(),
                        # else five seconds after stop() returned
                        g = loop.create_future()
                        st.setdefault('conn_gates', []).append(g)
                        pol[port] = ('gate', g)
                    else:
                        pol[port] = ('delay', 5.0) if slow else 'hang'

                if sess is None:
                    return
                if kind == 'pparent':
                    if ('*', 62001) not in net.listeners:
                        peers.append(await ScriptedPeer(net, 'pp1', 62001).listen())
                    policy_for(62001)
                    sess.send(M.PotentialParents.Response(entries=[M.PotentialParent('pp1', '10.0.0.1', 62001)]))
                elif kind == 'ctp':
                    if ('*', 62002) not in net.listeners:
                        peers.append(await ScriptedPeer(net, 'pc1', 62002).listen())
                    policy_for(62002)
                    sess.send(M.ConnectToPeer.Response(username='pc1', typ='P', ip='10.0.0.2', port=62002,
                                                       ticket=4242, privileged=False, obfuscated_port_amount=0,
                                                       obfuscated_port=0))
                elif kind == 'stimer':
                    await guarded(client.searches.search('some query'))
                elif kind == 'retry':
                    await guarded(client.users.track_user('ghost'))
                elif kind == 'sreply':
                    srv.addresses['asker'] = ('10.0.0.3', 62003, 0)
                    policy_for(62003)
                    sess.send(M.ServerSearchRequest.Response(distributed_code=3, unknown=0, username='asker',
                                                             ticket=99, query='findme'))
                elif kind == 'xfer':
                    srv.addresses['seeder'] = ('10.0.0.4', 62004, 0)
                    policy_for(62004)
                    await guarded(client.transfers.download('seeder', 'music\\song.mp3'))

            # ---- run the schedule -----------------------------------------------------------
            rec('init', ports=sorted(ports_a), friends=sorted(friends), liked=sorted(liked), hated=sorted(hated),
                favs=sorted(favs), autoJoin=auto_join, invites=invites, reconnect=reconnect,
                shares=self.trees.expected(nshared), slowscan=slow_scan, T=int(T * 1000), slack=SLACK_MS)
            stopped = False
            started = False
            for stim in stimuli:
                op = stim[0]
                if st['stop_task'] is not None:
                    # stop() was issued inside a burst: nothing else is driven any more
                    break
                if op == 'start':
                    try:
                        await guarded(client.start())
                        await settle()
                        rec('start', res='ok', **snap())
                        started = True
                    except Exception as exc:
                        rec('start', res='exc:' + type(exc).__name__, **snap())
                        break
                    continue
                if not started:
                    break
                if op == 'login':
                    _, mode, inj = stim
                    st['mode'] = mode
                    arm(inj)
                    if client.session is not None:
                        continue        # the run left the model's path (already logged in again)
                    rec('login_call')
                    try:
                        await guarded(client.login())
                        res = 'ok'
                    except AuthenticationError:
                        res = 'auth'
                    except asyncio.TimeoutError:
                        res = 'hang'
                    except Exception as exc:
                        res = 'exc'
                        rec('note', what=type(exc).__name__)
                    rec('login_ret', res=res)
                    await settle()
                    if res == 'ok':
                        await flush_injection()
                    else:
                        st['inj'] = None
                    # "first quiescence after the login": half a second, so that an implementation may defer
                    # part of the advertisement a little
                    await quiesce(0.5)
                elif op == 'loss':
                    if client.network.server_connection.state.name == 'CONNECTED' and srv.sessions \
                            and not srv.sessions[-1].closed:
                        do_inject(('loss', stim[1]))
                        await after_loss(('loss', stim[1]))
                    await quiesce(0.01)
                elif op == 'reconn':
                    _, outcome, mode, inj = stim
                    st['mode'] = mode
                    arm(inj)
                    gate = None
                    if outcome == 'fail':
                        pol[SERVER_PORT] = 'refuse'
                    elif outcome == 'hang':
                        gate = loop.create_future()
                        pol[SERVER_PORT] = ('gate', gate)
                    await asyncio.sleep(T + 1.0)
                    await settle()
                    if outcome == 'fail':
                        pol.pop(SERVER_PORT, None)
                    if outcome == 'ok' and client.session is not None:
                        await flush_injection()
                    else:
                        st['inj'] = None
                    await quiesce(0.5)
                    if gate is not None:
                        st['gate'] = gate
                elif op == 'userdisc':
                    await do_userdisc()
                    await quiesce(0.01)
                elif op == 'stop':
                    await do_stop(len(stim) > 1 and stim[1] == 'slow')
                    stopped = True
                elif op == 'exec':
                    n0 = len(srv.requests(M.GetUserStatus.Request))
                    rec('exec_call')
                    try:
                        await guarded(client.execute(GetUserStatusCommand('vip1')))
                        res = 'sent'
                    except InvalidSessionError:
                        res = 'refused'
                    except Exception as exc:
                        res = 'exc'
                        rec('note', what=type(exc).__name__)
                    await settle()
                    rec('exec', res=res, arr=len(srv.requests(M.GetUserStatus.Request)) > n0)
                    await quiesce(0.01)
                elif op == 'spawn':
                    variant = stim[2] if stim[2] != 'any' else conc['variant']
                    if client.session is not None:
                        await spawn(stim[1], variant)
                        await settle()
                    rec('spawn', kind=stim[1])
                    await quiesce(0.6 if stim[1] == 'xfer' else 0.02)
                elif op == 'wait':
                    await quiesce(float(stim[1]))
                elif op == 'scanfin':
                    release_scan()
                    rec('note', what='scan released')
                    await quiesce(0.05)
                elif op == 'parent':
                    await get_parent()
                    await quiesce(0.05)
                elif op == 'parentdrop':
                    ep = st.get('parent_ep')
                    if ep is not None and not st.get('parent_down'):
                        ep.close()              # the parent goes away; the watcher records it
                    await quiesce(0.05)
                elif op == 'peerin':
                    lp = [p for p in (pclear if 'clear' in ports_a else 0, pobf if 'obf' in ports_a else 0) if p]
                    if lp and ('*', lp[0]) in net.listeners:
                        st['harness_dial'] = True
                        try:
                            pr = ScriptedPeer(net, 'visitor')
                            peers.append(await guarded(pr.dial(lp[0], obfuscated=(lp[0] == pobf)), 30.0))
                        except Exception:
                            pass
                        st['harness_dial'] = False
                    await quiesce(0.01)
                if stopped:
                    break

            # ---- epilogue: let every timer pass; stop if the schedule did not; let time pass again ----
            if st['stop_task'] is not None:
                await guarded(st['stop_task'])
                stopped = True
            if started and not stopped:
                await quiesce(T + 2.0)
                await do_stop(conc.get('epi_slow', False))
                stopped = True
            for tk in st['aux']:
                if not tk.done():
                    try:
                        await guarded(tk)
                    except Exception:
                        pass
            if st.get('gate') is not None and not st['gate'].done():
                st['gate'].set_result('ok')
            if any(not g.done() for g in st.get('conn_gates', [])):
                await asyncio.sleep(5.0)
                open_conn_gates()
            release_scan()
            if started:
                await quiesce(conc.get('tail', LONG))
            if loop.unhandled:
                for ctx in loop.unhandled[:3]:
                    rec('note', what='loop:' + str(ctx.get('message'))[:80])
            return events
        finally:
            net.uninstall()


# ---------------------------------------------------------------------------
# schedules from TLC
# ---------------------------------------------------------------------------

def schedules_from_graph(chk: Check, cfgname: str, tag: str, max_paths=None):
    # a fixed fingerprint polynomial makes TLC's state ids, hence the cover, the same in every run
    g, res = tlc.dump_graph(SPEC, cfgname, parse_states='init', timeout=1800, workers=2, extra=['-fp', '0'])
    if not res.ok:
        raise MachineryFailure(f'graph dump of {cfgname} failed: {[(i.kind, i.name) for i in res.issues]}')
    # TLC writes the dot file in worker order: sort for a run-independent cover
    g.edges.sort()
    g.init.sort()
    paths = tlc.path_cover(g, max_paths=max_paths)
    out = {}
    for p in paths:
        init = cfg_key(g.states[p[0][0]])
        stim = stimuli_of([e[1] for e in p])
        if stim:
            out.setdefault((init, stim), tag)
    taken = {}
    for _, lab, _ in g.edges:
        nm = _parse_label(lab)[0]
        taken[nm] = taken.get(nm, 0) + 1
    info = dict(states=len(g.states), edges=len(g.edges), paths=len(paths), schedules=len(out), taken=taken,
                res=res)
    return out, info


_SIM_STATE = re.compile(r'\\\* <(.*?)(?: line \d+[^>]*)?>\nSTATE_(\d+) == ?\n')
_CFG_LINE = re.compile(r'/\\ cfg = (.*?)\n/\\ ', re.S)


def schedules_from_simulation(cfgname: str, tag: str, num: int, depth: int, seed: int):
    """Random behaviours of the model; only the action labels and the settings vector are read."""
    d = tempfile.mkdtemp(prefix='c16sim-')
    try:
        res = tlc.run_tlc(SPEC, cfgname, simulate=f'file={d}/tr,num={num}', depth=depth, workers=1, seed=seed,
                          timeout=1200, parse_traces=False)
        out = {}
        n = 0
        for fn in sorted(os.listdir(d)):
            if not fn.startswith('tr'):
                continue
            with open(os.path.join(d, fn), encoding='utf8') as fh:
                txt = fh.read()
            labels = [m.group(1) for m in _SIM_STATE.finditer(txt)]
            blk = re.search(r'STATE_1 == ?\n(.*?)\n\n', txt + '\n\n', re.S)
            m = _CFG_LINE.search(blk.group(1) + '\n/\\ ') if blk else None
            if not labels or not m:
                continue
            n += 1
            slow = re.search(r'slow \|-> (TRUE|FALSE)', blk.group(1))
            init = cfg_key(dict(cfg=tlc.parse_value(m.group(1).replace('\n', ' ')),
                                plan=dict(slow=bool(slow and slow.group(1) == 'TRUE'))))
            stim = stimuli_of(labels[1:])
            if stim:
                out.setdefault((init, stim), tag)
        return out, dict(behaviours=n, schedules=len(out), res=res)
    finally:
        shutil.rmtree(d, ignore_errors=True)


def features(cfg, stim) -> set:
    """What a schedule exercises: stimulus kinds with their arguments (burst positions included),
    pairs of consecutive stimuli, and each stimulus kind under this settings vector."""
    names = []
    for s in stim:
        if s[0] == 'login':
            names.append(f'login:{s[1]}' + ('' if s[2] is None else f':{s[2][1]}@{s[2][0]}'))
        elif s[0] == 'reconn':
            names.append(f'reconn:{s[1]}:{s[2]}' + ('' if s[3] is None else f':{s[3][1]}@{s[3][0]}'))
        else:
            names.append(':'.join(str(x) for x in s))
    out = set(names)
    out |= {(a, b) for a, b in zip(names, names[1:])}
    out |= {(cfg, n.split('@')[0]) for n in names}
    return out


def select(scheds: dict, cap: int, rng) -> list:
    """Greedy feature cover, then seeded fill, of at most `cap` schedules."""
    keys = sorted(scheds, key=repr)
    if len(keys) <= cap:
        return keys
    rng.shuffle(keys)
    seen: set = set()
    chosen, rest = [], []
    for k in keys:
        f = features(*k)
        if not f <= seen and len(chosen) < cap:
            seen |= f
            chosen.append(k)
        else:
            rest.append(k)
    chosen += rest[:max(0, cap - len(chosen))]
    return sorted(chosen, key=repr)


def concretise(rng) -> dict:
    base = rng.choice([61000, 40000, 2234])
    return dict(names=Names(rng), ports=(base, base + rng.choice([1, 7])), T=rng.choice([3, 10, 25]),
                variant=rng.choice(['hang', 'delay', 'gate']), notice=rng.choice(['ack', 'track']),
                stall_on=rng.choice(['any', 'any', 'listening', 'peer']), stall_state=rng.choice(['closing', 'closed']),
                stall_min=rng.choice([0.0, 0.0, 12.0]), stall_poke=rng.random() < 0.3, epi_slow=rng.random() < 0.3)


_RUNNER = None


def _replay_one(job):
    cfg, stim, conc = job
    return _RUNNER.run(cfg, stim, conc)  # type: ignore[union-attr]


def replay_all(jobs: list, nproc: int) -> list:
    """Run the schedules on the real client; forked workers (the runs are independent and each is
    deterministic given its job), results in job order."""
    if nproc <= 1 or len(jobs) < 16:
        return [_replay_one(j) for j in jobs]
    import multiprocessing as mp
    with mp.get_context('fork').Pool(nproc) as pool:
        return pool.map(_replay_one, jobs, chunksize=8)


# ---------------------------------------------------------------------------
# fingerprints
# ---------------------------------------------------------------------------

def _fingerprints(info, trace) -> list:
    ev = info.get('event') or {}
    name = info.get('name') or ''
    if name.endswith('T') and name[:-1] in ('StopIsFinal', 'DerivedCleared', 'DestroyedOncePerLoss',
                                            'AdvertisedExactly'):
        name = name[:-1]
    if info.get('kind') == 'property':
        if name and name.startswith('Adv_'):
            return [f'C16:AdvertisedExactly:{name[4:]}']
        if name == 'StopIsFinal':
            fps = [f'C16:StopIsFinal:pending:{k}' for k in ev.get('tasks', [])]
            fps += [f'C16:StopIsFinal:open-after-stop:{k}' for k in ev.get('open', [])]
            if ev.get('ev') == 'link':
                fps.append(f"C16:StopIsFinal:opened-after-stop:{ev.get('to')}")
            return fps or ['C16:StopIsFinal']
        if name == 'DestroyedOncePerLoss':
            n = [x for x in re.findall(r'n \|-> (\d+)', info.get('detail') or '')]
            return ['C16:DestroyedOncePerLoss:' + ('missing' if n and n[-1] == '0' else 'repeated')]
        if name == 'DerivedCleared':
            return [f'C16:DerivedCleared:{k}' for k in ev.get('derived', [])] or ['C16:DerivedCleared']
        return [f'C16:{name}']
    e = ev.get('ev')
    if e == 'conn':
        return [f"C16:ReconnectIff:unexpected:{ev.get('st')}"]
    if e == 'link':
        return [f"C16:ReconnectIff:unexpected-link:{ev.get('to')}"]
    if e in ('sinit', 'sdestroy'):
        return [f'C16:unexpected:{e}']
    if e in ('login_ret', 'exec', 'start', 'stop_ret', 'userdisc_ret'):
        return [f"C16:unexpected-result:{e}:{ev.get('res')}"]
    return [f'C16:unexplained:{e}']


# ---------------------------------------------------------------------------

def _freeze(x):
    return tuple(_freeze(y) for y in x) if isinstance(x, (list, tuple)) else x


def replay(chk: Check, data: dict):
    """./check C16 --replay PATH: run the schedule of a replay file again on the current tree and judge it."""
    import random
    chk.rng = random.Random(data.get('seed', chk.seed))
    meta = data['replay']['meta']
    cfg, stim, c = _freeze(meta['cfg']), _freeze(meta['stimuli']), meta['conc']
    conc = dict(names=Names.from_map(c['names']), ports=tuple(c['ports']), T=c['T'], variant=c['variant'],
                notice=c.get('notice', 'ack'),
                **{k: c[k] for k in ('stall_on', 'stall_state', 'stall_min', 'stall_poke', 'epi_slow') if k in c})
    tmp = tempfile.mkdtemp(prefix='c16-')
    try:
        # the share trees are drawn first from the run's seed, exactly as in the recorded run
        runner = Runner(tmp, ShareTrees(os.path.join(tmp, 'shares'), chk.rng))
        trace = runner.run(cfg, stim, conc)
    finally:
        shutil.rmtree(tmp, ignore_errors=True)
    for e in trace:
        chk.log('  ' + str(e)[:200])
    chk.count(('replay', repr(meta)))
    chk.sample(dict(meta=meta, trace=trace[:80]))
    v = tlc.validate_traces(TRACE, 'Trace.cfg', [trace], max_diag=0)
    chk.cov['traces_validated_against_impl'] += 1
    chk.add_trace_run(v.result)
    if v.rejected:
        vm = tlc.validate_traces(TRACE, 'TraceMarks.cfg', [trace], max_diag=0)
        marks = sorted(vm.accepted.get(1, ()))
        if marks:
            for mk in marks:
                chk.violation(f'C16:{mk}', f'property instance {mk} is false in the replayed run',
                              dict(trace=trace, meta=meta))
        else:
            info = tlc.diagnose_trace(TRACE, 'TraceDiag.cfg', trace, constraint_cfg='Trace.cfg')
            for fp in _fingerprints(info, trace):
                chk.violation(fp, f"{info.get('kind')}: {info.get('name')} at event #{info.get('at')} "
                                  f"{str(info.get('event'))[:300]}", dict(trace=trace, meta=meta, verdict=info))
    chk.log('replayed run ' + ('REJECTED' if v.rejected else 'accepted'))


def run(chk: Check, args):
    global _RUNNER
    from concurrent.futures import ThreadPoolExecutor
    thorough = chk.tier == 'thorough'
    nproc = int(os.environ.get('VERIF_C16_PROCS', '0') or 0) or max(1, min(6, (os.cpu_count() or 2) // 2))
    chk.cov['rule'] = ('schedule = (settings vector, sequence of start / login(mode, injection at the k-th '
                       'advertisement) / loss(kind) / reconnect(outcome, login mode, injection) / disconnect / stop / '
                       'spawn(kind) / execute / peer-in / wait stimuli) projected from TLC behaviours of Session.tla '
                       '(edge cover of the state graphs of MC_cover and MC_cover_scan, simulation of MC_quick / MC_big, one login per '
                       'vector of the full settings matrix in the thorough tier); quick replays a feature-covering '
                       'selection, thorough all of them; each is run on a real SoulSeekClient on the simulated '
                       'network in virtual time with a seeded concretisation (names, ports, reconnect timeout, '
                       'connect hang/delay, who notices a dead socket, share trees); distinct = distinct recorded '
                       'traces; non-trivial = a session was initialised or a loss / stop was observed')
    switches = ['autojoin', 'dist', 'watchdog', 'cancelfirst', 'timers', 'staleinit', 'selfawait', 'queueonce', 'scan']
    want = {'autojoin': {'AdvertisedOnly', 'AdvertisedExactly'}, 'dist': {'StopIsFinal'},
            'watchdog': {'ReconnectOnlyIf', 'StopIsFinal'}, 'timers': {'StopIsFinal'},
            'staleinit': {'StopIsFinal', 'AdvertisedExactly'}, 'cancelfirst': {'ReconnectOnlyIf', 'StopIsFinal'},
            'scan': {'StopIsFinal'},
            'selfawait': {'SessionOnConnection', 'DestroyedOncePerLoss', 'DerivedCleared'},
            'queueonce': {'StopIsFinal'}}

    # ---- all TLC work on the design model, side by side ---------------------------------------
    jobs = {
        'quick': lambda: (tlc.model_check(SPEC, 'MC_quick.cfg', expect_actions=ACTIONS, timeout=1800)
                          if thorough else tlc.run_tlc(SPEC, 'MC_quick.cfg', timeout=900)),
        'live': lambda: tlc.run_tlc(SPEC, 'MC_live.cfg', workers=2, timeout=900),
        'cover': lambda: schedules_from_graph(chk, 'MC_cover.cfg', 'cover'),
        'coverscan': lambda: schedules_from_graph(chk, 'MC_cover_scan.cfg', 'coverscan'),
        'coverparent': lambda: schedules_from_graph(chk, 'MC_cover_parent.cfg', 'coverparent'),
        'sim': lambda: (schedules_from_simulation('MC_big.cfg', 'simbig', 1500, 45, chk.seed + 1) if thorough
                        else schedules_from_simulation('MC_quick.cfg', 'simquick', 300, 40, chk.seed + 1)),
    }
    for sw in switches:
        jobs['ascode_' + sw] = (lambda sw=sw: tlc.run_tlc(SPEC, f'MC_asCode_{sw}.cfg', workers=1, timeout=600,
                                                          parse_traces=False))
    if thorough:
        jobs['big'] = lambda: tlc.run_tlc(SPEC, 'MC_big.cfg', timeout=3000)
        jobs['sweep'] = lambda: schedules_from_graph(chk, 'MC_sweep.cfg', 'sweep')
    with ThreadPoolExecutor(max_workers=len(jobs)) as ex:
        futs = {k: ex.submit(f) for k, f in jobs.items()}
        out = {k: f.result() for k, f in futs.items()}

    chk.add_model('Session quick (6 settings vectors, 1 loss, 1 background activity, 2 logins)', out['quick'])
    chk.add_model('Session liveness (FairSpec, ReconnectHappens)', out['live'])
    if thorough:
        chk.add_model('Session big (2 losses, 2 background activities)', out['big'])
    for sw in switches:
        hit = sorted({i.name for i in out['ascode_' + sw].issues} & want[sw])
        chk.cov['binding_selftest'][f'model_as_code_{sw}_violates'] = hit
        if not hit:
            raise MachineryFailure(f'as-code model ({sw}) did not violate any of {want[sw]}')
    scheds, ginfo = out['cover']
    chk.add_model('Session cover graph (2 settings vectors, dumped)', ginfo['res'])
    missing = [a for a in ACTIONS if not ginfo['taken'].get(a)]
    if missing:
        raise MachineryFailure(f'vacuity: actions never taken in the cover graph: {missing}')
    for a, n in sorted(ginfo['taken'].items()):
        chk.cov['coverage_by_action'][f'cover graph:{a}'] = n
    chk.log(f"cover graph: {ginfo['states']} states, {ginfo['edges']} edges, {ginfo['paths']} cover paths, "
            f"{ginfo['schedules']} distinct schedules")
    chk.cov['graph_edges_cover'] = ginfo['edges']
    chk.cov['cover_paths'] = ginfo['paths']
    chk.cov['cover_schedules'] = ginfo['schedules']
    scans, cinfo = out['coverscan']
    chk.add_model('Session cover graph, slow start-up scan (2 settings vectors, dumped)', cinfo['res'])
    chk.log(f"cover graph (slow scan): {cinfo['states']} states, {cinfo['edges']} edges, "
            f"{cinfo['schedules']} distinct schedules")
    chk.cov['cover_scan_schedules'] = cinfo['schedules']
    sims, sinfo = out['sim']
    chk.log(f"simulation: {sinfo['behaviours']} behaviours, {sinfo['schedules']} distinct schedules")
    chk.cov['sim_behaviours'] = sinfo['behaviours']
    if thorough:
        keys = select(scheds, 12000, chk.rng)       # feature cover first, seeded fill (budget: ~10 min)
        sweep, winfo = out['sweep']
        chk.add_model('Session settings sweep (full settings matrix, one login each)', winfo['res'])
        # one schedule per settings vector (the longest: login, burst, quiescence, stop)
        per_vec: dict = {}
        for k in sorted(sweep, key=repr):
            if k[0] not in per_vec or len(k[1]) > len(per_vec[k[0]][1]):
                per_vec[k[0]] = k
        sweep = {k: sweep[k] for k in per_vec.values()}
        chk.cov['sweep_vectors'] = len(sweep)
        keys += [k for k in sorted(sweep, key=repr) if k not in scheds]
        for k, v in sweep.items():
            scheds.setdefault(k, v)
    else:
        keys = select(scheds, 1000, chk.rng)
    more = [k for k in (sorted(scans, key=repr) if thorough else select(scans, 300, chk.rng)) if k not in scheds]
    for k in more:
        scheds[k] = scans[k]
    keys += more
    parents, pinfo = out['coverparent']
    chk.add_model('Session cover graph, distributed parent found / lost (2 settings vectors, dumped)', pinfo['res'])
    chk.log(f"cover graph (parent): {pinfo['states']} states, {pinfo['edges']} edges, {pinfo['schedules']} schedules")
    for a in ('GetParent', 'ParentDrops'):
        if not pinfo['taken'].get(a):
            raise MachineryFailure(f'vacuity: {a} never taken in the parent cover graph')
    more = [k for k in (sorted(parents, key=repr) if thorough else select(parents, 250, chk.rng)) if k not in scheds]
    for k in more:
        scheds[k] = parents[k]
    keys += more
    extra = [k for k in select(sims, 600 if thorough else 250, chk.rng) if k not in scheds]
    for k in extra:
        scheds[k] = sims[k]
    keys += extra
    chk.cov['exhaustive'] = False

    # ---- replay on the real client -----------------------------------------------------------
    tmp = tempfile.mkdtemp(prefix='c16-')
    try:
        _RUNNER = Runner(tmp, ShareTrees(os.path.join(tmp, 'shares'), chk.rng))
        work, metas = [], []
        for (cfg, stim) in keys:
            for _ in range(2 if (thorough and scheds[(cfg, stim)] == 'simbig') else 1):
                conc = concretise(chk.rng)
                work.append((cfg, stim, conc))
                metas.append(dict(cfg=cfg, stimuli=stim, source=scheds[(cfg, stim)],
                                  conc=dict(names=conc['names'].c, ports=conc['ports'], T=conc['T'],
                                            variant=conc['variant'], notice=conc['notice'],
                                            **{k: conc[k] for k in ('stall_on', 'stall_state', 'stall_min',
                                                                    'stall_poke', 'epi_slow')})))
        traces = replay_all(work, nproc)
    finally:
        _RUNNER = None
        shutil.rmtree(tmp, ignore_errors=True)
    for ev in traces:
        chk.count(tuple((e['ev'], e.get('st'), e.get('res'), tuple(e.get('f', ())), e.get('kind'),
                         tuple(e.get('tasks', ())), tuple(e.get('open', ()))) for e in ev),
                  nontrivial=any(e['ev'] in ('sinit', 'inject', 'stop_call') for e in ev))
    chk.log(f'replayed {len(traces)} schedules on the real client ({nproc} processes)')
    harness_bad = [i for i, tr in enumerate(traces) if any(e['ev'] == 'harness_deadlock' for e in tr)]
    if harness_bad:
        raise MachineryFailure(f'virtual loop deadlocked in {len(harness_bad)} runs, first: {metas[harness_bad[0]]}')
    for i in (0, len(traces) // 3, 2 * len(traces) // 3, len(traces) - 1):
        chk.sample(dict(meta=metas[i], trace=traces[i][:60]))
    chk.cov['vectors_replayed'] = len({m['cfg'] for m in metas})
    chk.cov['task_kinds_seen_pending'] = sorted({k for tr in traces for e in tr if e['ev'] == 'q'
                                                 for k in e.get('tasks', [])})
    chk.cov['stops_held_by_a_slow_close'] = sum(1 for tr in traces if any(e['ev'] == 'stall' for e in tr))
    chk.cov['runs_with_a_distributed_parent'] = sum(1 for tr in traces if any(e['ev'] == 'parent_up' for e in tr))
    chk.cov['loss_reasons_seen'] = sorted({e['reason'] for tr in traces for e in tr
                                           if e['ev'] == 'conn' and e['st'] == 'closed'})

    v = tlc.validate_traces(TRACE, 'Trace.cfg', traces, max_diag=0, timeout=2400)
    chk.cov['traces_validated_against_impl'] += v.n
    chk.add_trace_run(v.result)
    chk.log(f'trace validation: {len(v.accepted)} accepted, {len(v.rejected)} rejected')
    if v.rejected:
        # Name everything that is wrong with the rejected traces: the same trace spec without the
        # CONSTRAINT lines collects the false property instances of each trace (TraceMarks.cfg).
        rej = sorted(v.rejected)
        vm = tlc.validate_traces(TRACE, 'TraceMarks.cfg', [traces[t - 1] for t in rej], max_diag=0, timeout=2400)
        by_fp: dict = {}
        for i, tid in enumerate(rej, start=1):
            for mk in sorted(vm.accepted.get(i, ())):
                by_fp.setdefault(f'C16:{mk}', []).append((tid, f'property instance {mk} is false in trace {tid}'))
        # traces in which no property is false but a record is not an instance of any action
        odd = [tid for i, tid in enumerate(rej, start=1) if not vm.accepted.get(i)]
        pick = odd if len(odd) <= 24 else [odd[i * len(odd) // 24] for i in range(24)]
        with ThreadPoolExecutor(max_workers=4) as ex:
            diags = list(ex.map(lambda tid: tlc.diagnose_trace(TRACE, 'TraceDiag.cfg', traces[tid - 1],
                                                               constraint_cfg='Trace.cfg'), pick))
        for tid, info in zip(pick, diags):
            v.rejected[tid] = info
            what = (f"trace {tid} {info.get('kind')}: {info.get('name')} at event #{info.get('at')} "
                    f"{str(info.get('event'))[:300]}")
            for fp in (_fingerprints(info, traces[tid - 1]) if info.get('at') is not None else ['C16:rejected-trace']):
                by_fp.setdefault(fp, []).append((tid, what))
        for tid in odd:
            if tid not in pick:
                by_fp.setdefault('C16:rejected-trace', []).append((tid, f'trace {tid} rejected (not diagnosed)'))
        order = sorted(by_fp, key=lambda fp: (-len(by_fp[fp]), fp))
        for rnd in range(3):                       # one example of every fingerprint first
            for fp in order:
                if rnd < len(by_fp[fp]):
                    tid, what = by_fp[fp][rnd]
                    chk.violation(fp, f'{what} (seen in {len(by_fp[fp])} traces)',
                                  dict(trace=traces[tid - 1], meta=metas[tid - 1],
                                       verdict=v.rejected[tid] if isinstance(v.rejected[tid], dict) else None))
        for fp in order:
            chk.log(f'  {len(by_fp[fp]):5d} x {fp}')
        chk.cov['rejected_by_fingerprint'] = {fp: len(x) for fp, x in by_fp.items()}

    # ---- binding self-test: corrupt recorded fields -> must be rejected -------------------------
    good = [traces[tid - 1] for tid in sorted(v.accepted)]
    corrupted, kinds = [], []

    def first(tr, pred):
        for i, e in enumerate(tr):
            if pred(e):
                return i
        return None

    def add(kind, tr, i, mut):
        if i is None:
            return False
        bad = copy.deepcopy(tr)
        mut(bad, i)
        corrupted.append(bad)
        kinds.append(kind)
        return True

    def started_before(tr, i):
        return any(x['ev'] == 'start' for x in tr[:i])

    def clean_status_frame(tr):
        """index of a status advertisement whose burst ran undisturbed to a quiescent snapshot"""
        for i, e in enumerate(tr):
            if e['ev'] == 'frame' and e['f'][0] == 'status':
                for x in tr[i + 1:]:
                    if x['ev'] in ('inject', 'conn', 'stop_call', 'userdisc_call'):
                        break
                    if x['ev'] == 'q':
                        if x['session']:
                            return i
                        break
        return None

    seen: set = set()
    for tr in good:
        stop_i = first(tr, lambda e: e['ev'] == 'stop_ret')
        reconn_i = next((i for i, e in enumerate(tr) if e['ev'] == 'conn' and e['st'] == 'connecting'
                         and started_before(tr, i)), None)
        cands = [
            ('drop-advert', clean_status_frame(tr), lambda b, i: b.pop(i)),
            ('extra-advert', clean_status_frame(tr),
             lambda b, i: b.insert(i, dict(ev='frame', t=b[i]['t'], f=['join', 'r9']))),
            ('wrong-advert', clean_status_frame(tr), lambda b, i: b[i].__setitem__('f', ['status', 'away'])),
            ('second-destroy', first(tr, lambda e: e['ev'] == 'sdestroy'),
             lambda b, i: b.insert(i, dict(b[i]))),
            ('drop-destroy', first(tr, lambda e: e['ev'] == 'sdestroy'), lambda b, i: b.pop(i)),
            ('task-after-stop', stop_i, lambda b, i: b[i].__setitem__('tasks', ['pparent'])),
            ('link-after-stop', stop_i, lambda b, i: b.insert(i + 1, dict(ev='link', t=b[i]['t'] + 5, to='peer'))),
            ('session-after-stop', stop_i, lambda b, i: b[i].__setitem__('session', True)),
            ('derived-after-loss',
             first(tr, lambda e: e['ev'] == 'q' and e['srvst'] == 'closed' and not e['session']),
             lambda b, i: b[i].__setitem__('derived', ['rooms'])),
            ('exec-not-refused', first(tr, lambda e: e['ev'] == 'exec' and e['res'] == 'refused'),
             lambda b, i: b[i].__setitem__('res', 'sent')),
            ('reconnect-after-eof',
             first(tr, lambda e: e['ev'] == 'conn' and e['st'] == 'closed' and e['reason'] == 'eof'),
             lambda b, i: b.insert(i + 1, dict(ev='conn', t=b[i]['t'] + 3000, st='connecting', reason='unknown'))),
            ('no-reconnect', reconn_i,
             lambda b, i: b.__setitem__(slice(i, len(b)), [dict(
                 ev='q', t=b[i]['t'] + b[0]['T'] + 5000, session=False, srvst='closed', derived=[],
                 tasks=['core', 'watchdog'], open=[])])),
            ('session-on-rejected-login',
             first(tr, lambda e: e['ev'] == 'login_ret' and e['res'] == 'auth'),
             lambda b, i: b.insert(i, dict(ev='sinit', t=b[i]['t']))),
        ]
        for kind, i, mut in cands:
            if kind not in seen and add(kind, tr, i, mut):
                seen.add(kind)
        if len(seen) == len(cands):
            break
    if corrupted:
        cv = tlc.validate_traces(TRACE, 'Trace.cfg', corrupted, max_diag=0, timeout=600)
        acc = [kinds[t - 1] for t in cv.accepted]
        chk.cov['binding_selftest']['corrupted_traces_rejected'] = f'{len(cv.rejected)}/{len(corrupted)}'
        chk.cov['binding_selftest']['corruptions'] = kinds
        if acc:
            raise MachineryFailure(f'corrupted traces were accepted by the trace spec: {acc}')
    elif not v.rejected:
        raise MachineryFailure('no accepted trace to corrupt')
    chk.assumptions += [
        'docs/source/SETTINGS.rst is the oracle for what each setting promises (rooms.auto_join: "Automatically '
        'rejoin rooms when logon is successful"; reconnect.auto: no attempt after disconnecting / server closed)',
        'AddUser for the own user name, CheckPrivileges and every non-advertisement frame are not constrained; '
        'advertisement frames after the first quiescence of a session are not constrained',
        'quiescence = the ready queue is empty 10 virtual ms after the stimulus (500 ms after a login); "after '
        'stop() returns" is observed after the ready queue has drained once, without advancing time',
        'a reconnect attempt is due reconnect.timeout + 0.5 s (watchdog poll) + 5 s after the CLOSED event',
        'the simulated transport delivers EOF / reset / write failure / blocked writes, not kernel-specific orders',
        'library task = a pending asyncio task whose coroutine code lives under src/aioslsk',
        'no stimulus is modelled between the watchdog\'s connect and its automatic login',
        'a slow stop() = an application listener of ConnectionStateChangedEvent that suspends reconnect.timeout + 2 s '
        '(or 12 s) on one REQUESTED CLOSING / CLOSED report made from stop()\'s own closes (not from tasks stop() '
        'has cancelled); quiescent snapshots are not taken while a stop() issued inside a burst is running',
    ]

"""C13 - distributed tree: one parent, bounded live children, truthful advertised place
(spec: DistributedTree, property set C13)."""
from __future__ import annotations

import copy
import re
import shutil
import tempfile

from .. import tlc
from ..core import Check, MachineryFailure
from ..lib_disttree import judge_traces, run_schedule

MC = 'DistributedTree/MC_DistributedTree.tla'
TRACE = 'DistributedTree/DistributedTreeTrace.tla'

C13_ACTIONS = ['PotentialParents', 'AttemptOk', 'AttemptFail', 'Incoming', 'Drained', 'Level', 'Root', 'Close',
               'WaitClosedDone', 'UserStats', 'ResetDistributed', 'SessionLost', 'SessionInit']

# design configurations with one repair switch in the code's position: (cfg, property TLC must find violated)
CODE_POSITION = [
    ('MC_c13_code_reannounce.cfg', 'ToldServerTruthful', 'F13-1'),
    ('MC_c13_code_childparent.cfg', 'ParentNotChild', 'F13-2'),
    ('MC_c13_code_addchild.cfg', 'ToldChildrenTruthful', 'F13-3'),
    ('MC_c13_code_sessioninit.cfg', 'ToldChildrenTruthful', 'F13-4'),
]

_LABEL = re.compile(r'^(\w+)(?:\((.*)\))?$', re.S)

STIM_KINDS = {'pp', 'attempt', 'incoming', 'level', 'root', 'close', 'wcdone', 'drained', 'ustats', 'param', 'reset',
              'sesslost', 'sessinit', 'search', 'flush'}


# ---------------------------------------------------------------------------
# behaviours -> abstract stimuli -> concrete stimuli
# ---------------------------------------------------------------------------

def abstract_stimuli(labels):
    """Action labels of a TLC behaviour -> abstract stimuli (tuples)."""
    out = []
    for lab in labels:
        m = _LABEL.match(lab.strip())
        if not m:
            continue
        name, args = m.group(1), m.group(2)
        a = tlc.parse_value('<<' + args + '>>') if args else ()
        if name == 'PotentialParents':
            out.append(('pp', tuple(sorted(a[0]))))
        elif name == 'AttemptOk':
            out.append(('attempt', a[0], True))
        elif name == 'AttemptFail':
            out.append(('attempt', a[0], False))
        elif name == 'Incoming':
            out.append(('incoming', a[0], bool(a[1])))
        elif name == 'Level':
            out.append(('level', a[0], int(a[1])))
        elif name == 'Root':
            out.append(('root', a[0], a[1]))
        elif name == 'Close':
            out.append(('close', a[0]))
        elif name == 'WaitClosedDone':
            out.append(('wcdone', a[0]))
        elif name == 'Drained':
            out.append(('drained', a[0]))
        elif name == 'UserStats':
            out.append(('ustats', bool(a[0][0]), int(a[0][1])))
        elif name == 'ParamMsg':
            out.append(('param', a[0]))
        elif name == 'ResetDistributed':
            out.append(('reset',))
        elif name == 'SessionLost':
            out.append(('sesslost',))
        elif name == 'SessionInit':
            out.append(('sessinit',))
        elif name == 'ExcludedPhrases':
            out.append(('xphr', bool(a[0])))
        elif name == 'ServerSearch':
            out.append(('search', 'server', 'server', a[0], a[1], 'search'))
        elif name == 'DistSearch':
            out.append(('search', 'dist', a[0], a[1], a[2], 'search'))
        elif name == 'LegacyWrapped':
            out.append(('search', 'legacy', a[0], a[2], a[3], a[1]))
    return tuple(out)


def prefix_of(state) -> tuple:
    """Stimuli that build the initial tree of a generator behaviour (MC_DistributedTree.tla, GenInit)."""
    out = []
    par = str(state['parent'])
    if par != 'none':
        out += [('pp', (par,)), ('attempt', par, True), ('level', par, 0)]
    for q, st in sorted(state['conn'].items()):
        if str(st) == 'openReq' and str(q) != par:          # a connected candidate that has not announced
            out += [('pp', (str(q),)), ('attempt', str(q), True)]
    for c in sorted(state['children']):
        out.append(('incoming', str(c), False))
    return tuple(out)


NAME_SETS = [
    dict(me='meuser', p1='alice', p2='bob', p3='carol', p4='dave', r1='rooty', r2='trunk'),
    dict(me='Some User', p1='peer one', p2='PEER ONE', p3='péer', p4='x', r1='the root user', r2='r'),
    dict(me='z', p1='zz', p2='zzz', p3='me2', p4='root', r1='z z', r2='小林'),
]
MIN_SPEEDS = [1, 2, 5]
RATIOS = [10, 20, 25, 50, 100]       # ratio / 10 * 1024 is exact in binary floating point for these


def speed_for(acc: bool, m: int, ms: int, ra: int, rng) -> int:
    """An avg_speed for which the documented formula gives (accept, max children) = (acc, m) under
    ParentMinSpeed ms / ParentSpeedRatio ra; boundary values preferred.  Falls back to the
    nearest meaningful value when the pair is not reachable with these parameters."""
    if not acc:
        return rng.choice([0, ms * 1024 - 1])
    lo = max(ms * 1024, -(-m * ra * 1024 // 10))
    hi = -(-(m + 1) * ra * 1024 // 10) - 1
    if lo > hi:
        return lo
    return rng.choice([lo, hi, (lo + hi) // 2])


def outcome(speed: int, ms: int, ra: int):
    """(accept, max children) of the documented formula."""
    acc = speed >= ms * 1024
    return acc, (speed * 10 // (ra * 1024) if acc else 0)


PEER_KINDS = ('attempt', 'incoming', 'level', 'root', 'close', 'wcdone', 'drained')


def concretise_groups(abstract, rng, *, variant: int):
    """Abstract stimuli -> (one list of concrete stimuli per abstract stimulus, world keyword arguments)."""
    ns = NAME_SETS[variant % len(NAME_SETS)]
    ms, ra = 1, 50
    known = set()                 # parameters sent in this session
    speed = None                  # speed the server last reported for us
    sess = True
    groups = []
    for st in abstract:
        k = st[0]
        out = []
        if k == 'ustats' and sess and rng.random() < 0.4:
            # parameters under which the boundaries of the formula matter (a speed just below the
            # minimum would still allow children if it were accepted); ParamMsg has no other effect
            ms, ra = rng.choice([2, 5]), rng.choice([10, 20])
            out += [('param', 'minspeed', ms), ('param', 'ratio', ra)]
            known = {'minspeed', 'ratio'}
        if k == 'sessinit':
            sess = True
        if k == 'pp':
            S = list(st[1])
            rng.shuffle(S)
            out.append(('pp', S))
        elif k == 'close':
            out.append(('close', st[1], rng.choice(['eof', 'eof', 'reset'])))
        elif k == 'param':
            v = rng.choice(MIN_SPEEDS if st[1] == 'minspeed' else RATIOS)
            if st[1] == 'minspeed':
                ms = v
            else:
                ra = v
            known.add(st[1])
            out.append(('param', st[1], v))
        elif k == 'ustats':
            if rng.random() < 0.15:
                out.append(('ustats', rng.choice([0, 1023, 5120, 999999]), 'other'))
            speed = speed_for(st[1], st[2], ms, ra, rng)
            out.append(('ustats', speed, 'me'))
            if sess and rng.random() < 0.5:
                # the server changes a parameter mid-session while our speed stays what it is: the client
                # asks for its statistics again (both parameters known) and gets the same speed back -
                # the limit follows the new parameter.  Prefer an update that changes the outcome.
                cands = [('ratio', v) for v in RATIOS if v != ra] + [('minspeed', v) for v in MIN_SPEEDS + [20] if v != ms]
                rng.shuffle(cands)
                cur = outcome(speed, ms, ra)
                cands.sort(key=lambda c: not outcome(speed, c[1] if c[0] == 'minspeed' else ms,
                                                     c[1] if c[0] == 'ratio' else ra) < cur)   # lowering ones first
                kind, v = cands[0]
                for other in ('minspeed', 'ratio'):
                    if other != kind and other not in known:
                        out.append(('param', other, ms if other == 'minspeed' else ra))
                        known.add(other)
                out.append(('param', kind, v))
                known.add(kind)
                if kind == 'minspeed':
                    ms = v
                else:
                    ra = v
        elif k == 'sesslost':
            ms, ra = 1, 50
            known = set()
            sess = False
            out.append(('sesslost', rng.choice(['eof', 'reset'])))
        else:
            out.append(st)
        groups.append(out)
    names = {p: ns[p] for p in ('p1', 'p2', 'p3', 'p4')}
    world = dict(names=names, me=ns['me'], roots={'r1': ns['r1'], 'r2': ns['r2']})
    return groups, world


def with_server_pause(conc, rng, rate=0.12, rate_at_close=0.4, force=False):
    """Now and then the server connection does not drain for a while: every send of the client to the
    server then suspends (FIFO wake-up) while peers keep talking.  Only peer-side stimuli go inside.
    A link that closes is the preferred start: what the loss of a parent / child triggers then waits
    while other peers announce themselves."""
    closes = [i for i, st in enumerate(conc) if st[0] == 'close']
    if force and closes:
        i, reach = closes[0], len(conc)
        j = i
        while j + 1 < len(conc) and conc[j + 1][0] in PEER_KINDS:
            j += 1
        return conc[:i] + [('srvpause',)] + conc[i:j + 1] + [('srvresume',)] + conc[j + 1:]
    if closes and rng.random() < rate_at_close:
        i, reach = rng.choice(closes), 4
    elif rng.random() < rate:
        spans = [i for i, st in enumerate(conc) if st[0] in PEER_KINDS]
        if not spans:
            return conc
        i, reach = rng.choice(spans), 2
    else:
        return conc
    j = i
    while j + 1 < len(conc) and conc[j + 1][0] in PEER_KINDS and j - i < reach and rng.random() < 0.8:
        j += 1
    return conc[:i] + [('srvpause',)] + conc[i:j + 1] + [('srvresume',)] + conc[j + 1:]


def concretise(abstract, rng, *, variant: int, force_pause: bool = False):
    """Abstract stimuli -> (concrete stimuli for World.do, world keyword arguments)."""
    groups, world = concretise_groups(abstract, rng, variant=variant)
    return with_server_pause([st for g in groups for st in g], rng, force=force_pause), world


# ---------------------------------------------------------------------------
# fingerprints
# ---------------------------------------------------------------------------

def context_of(trace, idx):
    """What kind of history precedes record `idx`: a tree change while logged out, a back-pressured
    child link, or neither (computed from the logged stimuli only)."""
    session, ctx = True, 'plain'
    for e in trace[:idx + 1]:
        ev = e.get('ev')
        if ev == 'sesslost':
            session = False
        elif ev == 'sessinit':
            session = True
        elif not session and ev in ('incoming', 'level', 'root', 'close', 'wcdone', 'attempt'):
            return 'change-while-logged-out'
        elif ev == 'srvpause':
            ctx = 'server-link-back-pressured'
        elif ev == 'incoming' and e.get('slow') and ctx == 'plain':
            ctx = 'slow-child-link'
    return ctx


def fingerprint(pid, name, detail, idx, trace):
    """`idx`: index (0-based) of the record at which the property was found false."""
    name = re.sub(r'^T(?=[A-Z])', '', name or '?')
    fp = f'{pid}:{name}:{detail or "?"}'
    if name == 'ToldChildrenTruthful':
        fp += ':' + context_of(trace, idx)
    return fp


def _fp_from_verdict(pid):
    def f(tid, info, trace):
        if info.get('kind') == 'property':
            idx = info.get('idx')
            if idx is None:
                at = info.get('at')
                idx = (int(at) - 2) if at is not None else len(trace) - 1
            return fingerprint(pid, info.get('name'), info.get('shape'), idx, trace)
        ev = info.get('event') or {}
        return f"{pid}:unexplained-event:{ev.get('ev')}:{ev.get('kind', '')}"
    return f


def name_rejections(verdicts, traces, judge_cfg, cap_unexplained=6):
    """Fill in, for every rejected trace, which property failed where (one judge run)."""
    rej = sorted(verdicts.rejected)
    if not rej:
        return
    res = judge_traces(TRACE, judge_cfg, [traces[t - 1] for t in rej])
    unexplained = 0
    for i, tid in enumerate(rej, 1):
        got = res.get(i)
        if got and got[0] == 'property':
            _, name, l, shape = got
            verdicts.rejected[tid] = dict(kind='property', name=name, at=l + 1, idx=l - 1, shape=shape,
                                          event=traces[tid - 1][l - 1], detail='named by the judge run')
        elif got and got[0] == 'accept':
            raise MachineryFailure(f'trace {tid} rejected under the constraints but accepted by the judge run')
        else:
            info = verdicts.rejected[tid]
            if info.get('at') is None and unexplained < cap_unexplained:
                unexplained += 1
                verdicts.rejected[tid] = tlc.diagnose_trace(TRACE, judge_cfg.replace('Judge', 'Diag'), traces[tid - 1])


# ---------------------------------------------------------------------------

def collect(chk: Check, thorough: bool):
    """abstract stimulus sequences with their source label."""
    scheds: dict[tuple, str] = {}

    # (1) counterexamples of the design with one switch in the code's position
    for cfg, prop, fid in CODE_POSITION:
        r = tlc.run_tlc(MC, cfg, timeout=900)
        hit = [i for i in r.issues if i.name == prop]
        chk.cov['binding_selftest'][f'design_{fid}_switch_off_violates_{prop}'] = bool(hit)
        if not hit:
            raise MachineryFailure(f'{cfg}: expected a violation of {prop}, got {[(i.kind, i.name) for i in r.issues]}')
        labs = [lab for lab, _ in hit[0].trace[1:]]
        scheds.setdefault(abstract_stimuli(labs), f'counterexample:{fid}')
    # a second behaviour of MC_c13_code_addchild.cfg, two steps longer than TLC's shortest counterexample
    # (TLC produces it when asked for "no parent, child told level 0 with a foreign root"): the parent is
    # lost - instead of announcing a new root - while _add_child waits for the slow link.  It shows F13-3
    # on its own; the shortest counterexample trips over F13-1 first on the unchanged tree
    scheds.setdefault((('pp', ('p1',)), ('attempt', 'p1', True), ('level', 'p1', 1), ('root', 'p1', 'r1'),
                       ('incoming', 'p2', True), ('close', 'p1'), ('wcdone', 'p1'), ('drained', 'p2')),
                      'counterexample:F13-3-parent-lost')
    # scenario probes: shortest behaviours (from the small initial trees) in which the parent is lost and an
    # already connected candidate takes over while children listen; replayed with the server connection
    # back-pressured from the loss on (what the loss triggers waits in its sends to the server)
    for cfg in ('MC_c13_probe_a.cfg', 'MC_c13_probe_b.cfg'):
        r = tlc.run_tlc(MC, cfg, timeout=900)
        hit = [i for i in r.issues if i.kind == 'invariant' and i.trace]
        if not hit:
            raise MachineryFailure(f'{cfg}: the probe produced no behaviour')
        tr = hit[0].trace
        scheds.setdefault(prefix_of(tr[0][1]) + abstract_stimuli([lab for lab, _ in tr[1:]]),
                          'probe:parent-lost-candidate-takes-over')
    n_cex = len(scheds)

    # (2) transition cover of the exhaustive two-peer graph (from the four small initial trees)
    g, res = tlc.dump_graph(MC, 'MC_c13_cover.cfg', parse_states='init', timeout=900)
    if not res.ok:
        raise MachineryFailure(f'graph dump failed: {[(i.kind, i.name) for i in res.issues]}')
    paths = tlc.path_cover(g)
    for p in paths:
        st = abstract_stimuli([e[1] for e in p])
        if st:
            scheds.setdefault(prefix_of(g.states[p[0][0]]) + st, 'cover2')
    chk.cov['graph_states_cover2'] = len(g.states)
    chk.cov['graph_edges_cover2'] = len(g.edges)
    chk.cov['cover_paths_cover2'] = len(paths)
    n_cov = len(scheds) - n_cex
    chk.log(f'cover graph: {len(g.states)} states, {len(g.edges)} edges, {len(paths)} paths, {n_cov} distinct schedules')

    # (3) random behaviours of the three- and four-peer models
    plan = [('MC_c13_gen3.cfg', 2500 if thorough else 500, 14)]
    if thorough:
        plan.append(('MC_c13_gen4.cfg', 2500, 16))
    for cfg, num, depth in plan:
        behs, sres = tlc.simulate_behaviours(MC, cfg, num=num, depth=depth, seed=chk.seed + 7, timeout=900)
        new = 0
        for b in behs:
            st = abstract_stimuli([lab for lab, _ in b[1:]])
            st = prefix_of(b[0][1]) + st
            if st and st not in scheds:
                scheds[st] = 'sim:' + cfg
                new += 1
        chk.cov[f'sim_behaviours_{cfg}'] = len(behs)
        chk.log(f'simulation {cfg}: {len(behs)} behaviours, {new} new schedules')
    return scheds


def sample_by_source(chk: Check, scheds, keys, cap):
    """All counterexamples; the rest of the budget is shared equally between the sources (edge cover,
    simulated behaviours) - the cover is far larger than the simulation and would crowd it out."""
    if len(keys) <= cap:
        return keys
    src = lambda k: 'counterexample' if scheds[k].split(':')[0] in ('counterexample', 'probe') else scheds[k].split(':')[0]
    head = [k for k in keys if src(k) == 'counterexample']
    pools: dict = {}
    for k in keys:
        if src(k) != 'counterexample':
            pools.setdefault(src(k), []).append(k)
    for pool in pools.values():
        chk.rng.shuffle(pool)
    room = cap - len(head)
    picked = []
    order = sorted(pools)
    while room > 0 and any(pools[o] for o in order):
        for o in order:
            if pools[o] and room > 0:
                picked.append(pools[o].pop())
                room -= 1
    return head + sorted(picked, key=repr)


def run(chk: Check, args):
    thorough = chk.tier == 'thorough'
    chk.cov['rule'] = (
        'schedules = sequences of environment stimuli and gate releases (PotentialParents, attempt outcome, incoming '
        'D connection [slow link], branch level/root frames, link close, wait_closed release, drain, GetUserStats '
        'reply, ParentMinSpeed/ParentSpeedRatio, ResetDistributed, server loss, re-login) projected from TLC '
        'behaviours of DistributedTree: the counterexamples of the four code-position configurations, an edge '
        'cover of the exhaustive 2-peer graph and simulated 3-/4-peer behaviours; each is concretised (user names, '
        'speeds at the formula boundaries, EOF/reset, entry order) and executed on a real logged-in SoulSeekClient '
        'on the simulated network, once with wait_closed gated and once free-running; distinct = distinct '
        '(schedule, concretisation); non-trivial = at least one distributed connection was established')

    if thorough:
        for cfg, label, acts in [
                ('MC_c13_big.cfg', '3 peers, 8 events', [a for a in C13_ACTIONS if a != 'Drained']),
                ('MC_c13_big_slow.cfg', '3 peers, 6 events, back-pressured child links', C13_ACTIONS),
                ('MC_c13_big_p4.cfg', '4 peers, 6 events', [a for a in C13_ACTIONS if a != 'Drained'])]:
            r = tlc.model_check(MC, cfg, expect_actions=acts, timeout=3000)
            chk.add_model(f'DistributedTree C13, all repairs, {label}', r)
    else:
        r = tlc.model_check(MC, 'MC_c13_quick.cfg', expect_actions=C13_ACTIONS, timeout=3000)
        chk.add_model('DistributedTree C13, all repairs, 3 peers, 5 events, back-pressured child links', r)

    scheds = collect(chk, thorough)
    keys = sorted(scheds, key=lambda s: (scheds[s].split(':')[0] not in ('counterexample', 'probe'), repr(s)))
    cap = 6000 if thorough else 900
    keys = sample_by_source(chk, scheds, keys, cap)

    traces, metas = [], []
    truncated = 0
    why: dict = {}
    busy_end = 0
    tmp = tempfile.mkdtemp(prefix='c13-')
    try:
        for n, ab in enumerate(keys):
            variants = [(n % 3, True)]
            probe = scheds[ab].startswith('probe')
            if thorough or probe or scheds[ab].startswith('counterexample') or n % 4 == 0:
                variants.append(((n + 1) % 3, False))        # free-running wait_closed
            for variant, hold in variants:
                conc, world = concretise(ab, chk.rng, variant=variant, force_pause=probe)
                if not hold:
                    conc = [s for s in conc if s[0] != 'wcdone']
                ev, info = run_schedule(conc, hold=hold, tmpdir=tmp, **world)
                if info.get('not_settled'):
                    raise MachineryFailure(f'loop did not drain while replaying {conc}')
                if info.get('sim_failure'):
                    raise MachineryFailure(f'scripted counterpart failed: {info["sim_failure"]} while replaying {conc}')
                truncated += 1 if info.get('truncated') else 0
                if info.get('truncated'):
                    why[info['truncated']] = why.get(info['truncated'], 0) + 1
                busy_end += 0 if ev[-1].get('q') else 1
                traces.append(ev)
                metas.append(dict(abstract=ab, stimuli=conc, hold=hold, variant=variant, source=scheds[ab],
                                  truncated=info.get('truncated')))
                chk.count((ab, variant, hold),
                          nontrivial=any(e['ev'] in ('incoming',) or (e['ev'] == 'attempt' and e['ok']) for e in ev))
    finally:
        shutil.rmtree(tmp, ignore_errors=True)
    chk.cov['schedules_truncated_as_infeasible'] = truncated
    chk.cov['truncation_reasons'] = why
    chk.cov['executions_not_quiescent_at_end'] = busy_end
    chk.log(f'replayed {len(traces)} executions of {len(keys)} schedules on the real code '
            f'({truncated} truncated, {busy_end} not quiescent at the end)')
    for i in (0, len(traces) // 2, len(traces) - 1):
        chk.sample(dict(meta=metas[i], trace=traces[i][:60]))

    v = tlc.validate_traces(TRACE, 'Trace.cfg', traces, diag_cfg='TraceDiag.cfg', max_diag=2, timeout=2400)
    name_rejections(v, traces, 'TraceJudge.cfg')
    fps = report(chk, v, traces, metas, _fp_from_verdict('C13'))
    chk.log(f'trace validation: {len(v.accepted)} accepted, {len(v.rejected)} rejected')
    if fps:
        from collections import Counter
        cnt = Counter(fps.values())
        chk.cov['rejections_by_fingerprint'] = dict(cnt)
        chk.log('rejections by fingerprint: ' + ', '.join(f'{k} x{n}' for k, n in sorted(cnt.items())))

    selftest(chk, [traces[t - 1] for t in sorted(v.accepted)])
    chk.assumptions += [
        'no peer announces our own user name as branch root (the code special-cases it; the statement does not)',
        'at most one distributed connection per remote peer at a time; the server proposes only peers without one',
        'fewer than 20 potential-parent entries per execution, so the bounded cache (deque maxlen 20) evicts nothing',
        'child acceptance / maximum are the documented functions of the last GetUserStats reply for the own name '
        '(SOULSEEK.rst "Max children", server defaults 1 and 50); before the first reply: accepting, limit 5; '
        'ratios are chosen so that ratio/10*1024 is exact in binary floating point',
        'gated are wait_closed() of distributed links, drain() of a new child link and - in about one execution '
        'in eight - drain() of the server connection for a stretch of peer-side stimuli (FIFO wake-up, as one '
        'StreamWriter gives it); queued sends to children complete in FIFO order',
        'the scripted server answers GetUserStats for the own user with the speed it last reported, so a '
        'ParentMinSpeed/ParentSpeedRatio update mid-session recalculates the limit for an unchanged speed',
        '"at quiescence" = snapshot with no wait_closed()/drain() of a distributed link pending and the ready queue empty',
    ]


def report(chk: Check, verdicts, traces, metas, fp_of):
    """Like Check.apply_verdicts, but the first rejected trace of every distinct fingerprint is
    reported first, so that each fingerprint gets a replay file."""
    import json
    chk.cov['traces_validated_against_impl'] += verdicts.n
    chk.add_trace_run(verdicts.result)
    for tid, marks in sorted(verdicts.accepted.items()):
        for mk in sorted(marks):
            chk.violation(f'{chk.pid}:{mk}', f'deviation action {mk} taken in trace {tid}',
                          dict(trace=traces[tid - 1], meta=metas[tid - 1]))
    fps = {tid: fp_of(tid, info, traces[tid - 1]) for tid, info in verdicts.rejected.items()}
    seen, first, rest = set(), [], []
    for tid in sorted(fps):
        (rest if fps[tid] in seen else first).append(tid)
        seen.add(fps[tid])
    for tid in first + rest:
        info = verdicts.rejected[tid]
        ev = info.get('event')
        what = (f"trace {tid} {info.get('kind')}: {info.get('name')} at record #{info.get('idx', info.get('at'))} "
                f"{json.dumps(ev, default=str)[:300] if ev is not None else ''}")
        chk.violation(fps[tid], what, dict(trace=traces[tid - 1], verdict=dict(info), meta=metas[tid - 1]))
    return fps


def replay(chk: Check, d: dict):
    """./check C13 --replay FILE (core.main_for passes the loaded file): re-execute the recorded
    stimuli on the code under test and judge the new execution."""
    path = 'replay file'
    meta = (d.get('replay') or {}).get('meta') or {}
    if not meta.get('stimuli'):
        raise MachineryFailure('the replay file holds no stimuli')
    _, world = concretise([], chk.rng, variant=int(meta.get('variant', 0)))
    tmp = tempfile.mkdtemp(prefix='c13-')
    try:
        ev, info = run_schedule([tuple(s) for s in meta['stimuli']], hold=bool(meta.get('hold', True)), tmpdir=tmp, **world)
    finally:
        shutil.rmtree(tmp, ignore_errors=True)
    chk.count(('replay', path))
    chk.sample(dict(meta=meta, trace=ev[:80]))
    v = tlc.validate_traces(TRACE, 'Trace.cfg', [ev], diag_cfg='TraceDiag.cfg', max_diag=1, timeout=600)
    name_rejections(v, [ev], 'TraceJudge.cfg')
    report(chk, v, [ev], [meta], _fp_from_verdict('C13'))
    chk.log(f'replayed {path}: {"accepted" if v.accepted else "rejected"}')


def selftest(chk: Check, traces):
    """Corrupt recorded fields of accepted-looking traces: every corruption must be rejected."""
    bad = []
    kinds = []

    def find(pred):
        for tr in traces:
            for i, e in enumerate(tr):
                if pred(tr, i, e):
                    return tr, i
        return None, None

    # (a) the server is told a different level
    tr, i = find(lambda tr, i, e: e['ev'] == 'srv' and e.get('kind') == 'level' and i > 5)
    if tr:
        c = copy.deepcopy(tr)
        c[i]['l'] += 1
        bad.append(c)
        kinds.append('server level +1')
    # (b) a child is told another root
    tr, i = find(lambda tr, i, e: e['ev'] == 'pf' and e.get('kind') == 'root' and tr[-1].get('children'))
    if tr:
        c = copy.deepcopy(tr)
        for e in c:
            if e['ev'] == 'pf' and e.get('kind') == 'root':
                e['r'] = 'r2'
        bad.append(c)
        kinds.append('child root replaced')
    # (c) the parent also shows up among the children
    tr, i = find(lambda tr, i, e: e['ev'] == 'snap' and e['parent'] != 'none' and e['q'])
    if tr:
        c = copy.deepcopy(tr)
        c[i]['children'] = c[i]['children'] + [c[i]['parent']]
        bad.append(c)
        kinds.append('parent listed as child')
    # (d) a child whose link is gone
    tr, i = find(lambda tr, i, e: e['ev'] == 'snap' and e['q'] and e['children'])
    if tr:
        c = copy.deepcopy(tr)
        c[i]['links'][c[i]['children'][0]] = 'none'
        bad.append(c)
        kinds.append('child link gone')
    # (e) a proposed potential parent appears as child
    tr, i = find(lambda tr, i, e: e['ev'] == 'snap' and e['q'] and i > 3 and
                 any(x['ev'] == 'pp' for x in tr[:i]) and
                 any(p not in e['children'] and e['links'][p] == 'open' and p != e['parent']
                     for x in tr[:i] if x['ev'] == 'pp' for p in x['S']))
    if tr:
        c = copy.deepcopy(tr)
        cand = [p for x in c[:i] if x['ev'] == 'pp' for p in x['S']
                if p not in c[i]['children'] and c[i]['links'][p] == 'open' and p != c[i]['parent']]
        c[i]['children'] = c[i]['children'] + [cand[0]]
        bad.append(c)
        kinds.append('potential parent taken as child')
    if not bad:
        if chk.violations:
            chk.cov['binding_selftest']['corrupted_traces_rejected'] = 'skipped: no accepted execution to corrupt'
            return
        raise MachineryFailure('binding self-test found nothing to corrupt')
    cv = tlc.validate_traces(TRACE, 'Trace.cfg', bad, max_diag=0, timeout=600)
    chk.cov['binding_selftest']['corrupted_traces_rejected'] = f'{len(cv.rejected)}/{len(bad)} ({", ".join(kinds)})'
    if len(cv.rejected) != len(bad):
        ok = [kinds[t - 1] for t in cv.accepted]
        raise MachineryFailure(f'corrupted traces were accepted by the trace spec: {ok}')

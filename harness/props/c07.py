"""C07 - a search over the shares returns exactly the matching files (spec: SharesIndex).

Pipeline
  TLC behaviour of SharesIndex (abstract history over abstract names)
    -> concretised several ways into a *plan* (pure data: files, operations, query battery)
    -> executed on the real SharesManager over a temporary directory tree (inline executor)
    -> recorded as a trace whose paths are sequences of character codes
    -> judged by TLC against SharesIndexTrace (the TLA+ reference matcher is the oracle).
"""
from __future__ import annotations

import asyncio
import copy
import gc
import json
import os
import random
import re
import shutil
import tempfile
from concurrent.futures import ThreadPoolExecutor
from unittest.mock import AsyncMock

from .. import tlc, vloop
from ..core import Check, MachineryFailure

SPEC = 'SharesIndex/SharesIndex.tla'
TRACE = 'SharesIndex/SharesIndexTrace.tla'
ACTIONS = ['Add', 'Remove', 'Update', 'Scan', 'ScanAll', 'ScanBegin', 'ScanBeginAll', 'ScanEnd', 'Load',
           'DiskRemoveDir', 'Hold', 'Release', 'DiskCreate', 'DiskDelete', 'Touch', 'Collect']
MT0 = 1_000_000          # mtime of version v is MT0 + v

# ---------------------------------------------------------------------------
# alphabet: concrete character <-> code (the table the trace spec relies on)
# ---------------------------------------------------------------------------
SEP_CODE = {'\\': 1, ' ': 2, '_': 3, '-': 4, '.': 5, '(': 6, ')': 7, '[': 8, ']': 9, "'": 10, '&': 11, '*': 13}
NAME_SEPS = " _-.()[]'&"                       # the separators of the property statement
ASCII_PAIRS = [(c, c.upper()) for c in 'abcdefghijklmnopqrstuvwxyz']
ACCENT_PAIRS = [('é', 'É'), ('ä', 'Ä'), ('ñ', 'Ñ'), ('ö', 'Ö'), ('ç', 'Ç'), ('å', 'Å'), ('ø', 'Ø'), ('ü', 'Ü'),
                ('è', 'È'), ('ô', 'Ô')]
OTHER_PAIRS = [('д', 'Д'), ('ж', 'Ж'), ('я', 'Я'), ('л', 'Л'), ('λ', 'Λ'), ('ω', 'Ω'), ('π', 'Π'), ('ф', 'Ф')]
PAIRS = ASCII_PAIRS + ACCENT_PAIRS + OTHER_PAIRS
DIGITS = list('0123456789')
CJK = list('日本片仮名語한か')
CASELESS = DIGITS + CJK
UNKNOWN = 99                                   # a character outside the table (separator class)

CODE: dict[str, int] = dict(SEP_CODE)
for _k, (_lo, _up) in enumerate(PAIRS):
    CODE[_lo] = 100 + 2 * _k
    CODE[_up] = 101 + 2 * _k
for _j, _c in enumerate(CASELESS):
    CODE[_c] = 100 + 2 * (len(PAIRS) + _j)
assert len(CODE) == len(SEP_CODE) + 2 * len(PAIRS) + len(CASELESS), 'alphabet table has duplicates'
WORDCHARS = {c for c, k in CODE.items() if k >= 100}
SWAP = {}
for _lo, _up in PAIRS:
    SWAP[_lo] = _up
    SWAP[_up] = _lo


def codes(s: str) -> list[int]:
    return [CODE.get(c, UNKNOWN) for c in s]


def gen_words(s: str) -> list[str]:
    """words of a string, for GENERATING stimuli only (never used to judge)"""
    out, cur = [], ''
    for c in s:
        if c in WORDCHARS:
            cur += c
        else:
            if cur:
                out.append(cur)
            cur = ''
    if cur:
        out.append(cur)
    return out


# ---------------------------------------------------------------------------
# concretisation of the abstract names of a TLC behaviour
# ---------------------------------------------------------------------------
ABSTRACT_CASELESS = {106: 'cjk', 108: 'digit'}      # see the constants section of SharesIndex.tla
STYLES = ['ascii', 'accent', 'cjk', 'mixed']


class Concretisation:
    def __init__(self, style: str, index: int, rng: random.Random):
        self.style = style
        self.index = index
        self.rng = rng
        pools = {'ascii': ASCII_PAIRS, 'accent': ACCENT_PAIRS + ASCII_PAIRS[:6], 'cjk': OTHER_PAIRS + ASCII_PAIRS[:4],
                 'mixed': PAIRS}[style]
        self.pairs = list(pools)
        rng.shuffle(self.pairs)
        self.caseless_cjk = list(CJK if style in ('cjk', 'mixed', 'accent') else DIGITS)
        self.caseless_digit = list(DIGITS)
        rng.shuffle(self.caseless_cjk)
        rng.shuffle(self.caseless_digit)
        self.map: dict[int, str] = {}
        # every separator of the statement takes every role over ten consecutive concretisations
        rot = index % len(NAME_SEPS)
        seps = NAME_SEPS[rot:] + NAME_SEPS[:rot]
        self.sepmap = {SEP_CODE[c]: seps[i] for i, c in enumerate(NAME_SEPS)}

    def char(self, code: int) -> str:
        if code < 100:
            return self.sepmap[code]
        base = code - (code % 2)
        if base not in self.map:
            if base in ABSTRACT_CASELESS:
                pool = self.caseless_cjk if ABSTRACT_CASELESS[base] == 'cjk' else self.caseless_digit
                self.map[base] = pool.pop()
            else:
                self.map[base] = self.pairs.pop()
        m = self.map[base]
        if isinstance(m, tuple):
            return m[code % 2]
        return m

    def name(self, abstract: tuple) -> str:
        s = ''.join(self.char(c) for c in abstract)
        if s in ('.', '..') or not s:
            s = s + self.letters()[0]
        return s

    def letters(self) -> list[str]:
        out = [m[0] if isinstance(m, tuple) else m for m in self.map.values()]
        return out or ['a']

    def query(self, abstract: tuple) -> str:
        """operators (leading - and *), blanks and the path separator keep their meaning; the other
        separators follow the same permutation as the names"""
        out = []
        for i, c in enumerate(abstract):
            start = i == 0 or abstract[i - 1] == 2
            if c == 2:
                out.append(' ')
            elif c == 1:
                out.append('\\')
            elif c == 13:
                out.append('*')
            elif c == 4 and start:
                out.append('-')
            else:
                out.append(self.char(c))
        return ''.join(out)


# ---------------------------------------------------------------------------
# plans
# ---------------------------------------------------------------------------
_LABEL = re.compile(r'^(\w+)(?:\((.*)\))?$', re.S)


def parse_label(label: str):
    m = _LABEL.match(label.strip())
    if not m:
        raise MachineryFailure(f'cannot parse action label {label!r}')
    name, args = m.group(1), m.group(2)
    if args is None:
        return name, ()
    return name, tuple(tlc.parse_value('<<' + args + '>>'))


def behaviour_key(init_disk, labels):
    return (tuple(sorted((tuple(x['f']), int(x['v'])) for x in init_disk)), tuple(labels))


class PlanBuilder:
    """Turns (initial disk, action labels) + a concretisation into a plan."""

    def __init__(self, conc: Concretisation, rng: random.Random, replicas: int, nqueries: int,
                 model_queries: list[tuple]):
        self.c = conc
        self.rng = rng
        self.replicas = replicas
        self.nq = nqueries
        self.model_queries = model_queries
        self.rep: dict[tuple, list[str]] = {}     # abstract file -> concrete relative paths
        self.vocab: list[str] = []
        self.paths: list[str] = []

    def dirpath(self, d: tuple) -> str:
        return '/'.join(self.c.name(tuple(nm)) for nm in d)

    def filler(self) -> str:
        rng = self.rng
        letters = self.c.letters()
        base = rng.choice(self.vocab) if self.vocab and rng.random() < 0.7 else ''.join(
            rng.choice(letters) for _ in range(rng.randint(1, 3)))
        how = rng.randrange(5)
        if how == 0:
            return base
        if how == 1:
            return rng.choice(letters) + base            # another word with the same suffix
        if how == 2:
            return base + rng.choice(letters)
        if how == 3:
            return ''.join(SWAP.get(ch, ch) for ch in base)
        return ''.join(rng.choice(letters) for _ in range(rng.randint(1, 4)))

    def replicas_of(self, f: tuple) -> list[str]:
        f = tuple(tuple(x) for x in f)
        if f in self.rep:
            return self.rep[f]
        folder = self.dirpath(f[:-1])
        name = self.c.name(f[-1])
        for w in gen_words(folder.replace('/', ' ') + ' ' + name):
            if w not in self.vocab:
                self.vocab.append(w)
        out = [folder + '/' + name]
        rng = self.rng
        k = 0
        while len(out) < self.replicas and k < 50:
            k += 1
            sep = rng.choice(NAME_SEPS)
            fill = self.filler()
            how = rng.randrange(4)
            if how == 0:
                cand = folder + '/' + name + sep + fill
            elif how == 1:
                cand = folder + '/' + fill + sep + name
            elif how == 2:
                cand = folder + '/' + fill + '/' + name
            else:
                cand = folder + '/' + fill + sep + rng.choice(self.vocab) + rng.choice(['.', ' ', '_']) + self.filler()
            if any(part in ('.', '..', '') for part in cand.split('/')):
                continue
            # a replica must not be, or sit inside, another replica
            if any(cand == o or cand.startswith(o + '/') or o.startswith(cand + '/') for o in self.all_paths() + out):
                continue
            out.append(cand)
        self.rep[f] = out
        for p in out:
            for w in gen_words(p.replace('/', ' ')):
                if w not in self.vocab:
                    self.vocab.append(w)
        return out

    def all_paths(self) -> list[str]:
        return [p for ps in self.rep.values() for p in ps]

    # -- queries ---------------------------------------------------------------
    def random_term(self) -> str:
        rng = self.rng
        w = rng.choice(self.vocab)
        kind = rng.randrange(12)
        if kind <= 2:
            t = w
        elif kind == 3:
            t = w[rng.randrange(len(w)):]                      # a suffix
        elif kind == 4:
            t = w[:rng.randint(1, len(w))]                     # a prefix
        elif kind == 5:
            t = rng.choice(["(", "[", "'", "&", "_", "."]) + w
        elif kind == 6:
            t = w + rng.choice([")", "]", "'", "&", "_", ".", "-"])
        elif kind in (7, 8):
            # a stretch of a real path covering two words and what separates them
            p = rng.choice(self.all_paths()).replace('/', '\\')
            idx = [i for i, ch in enumerate(p) if ch not in WORDCHARS]
            if idx:
                i = rng.choice(idx)
                a = i
                while a > 0 and p[a - 1] in WORDCHARS:
                    a -= 1
                b = i
                while b + 1 < len(p) and p[b + 1] not in WORDCHARS:
                    b += 1
                while b + 1 < len(p) and p[b + 1] in WORDCHARS:
                    b += 1
                t = p[a + (rng.randrange(2) if i - a > 1 else 0):b + 1]
                t = t.split('\\', 1)[1] if t.startswith('\\') else t
            else:
                t = w
        elif kind == 9:
            t = rng.choice(['-', '*', '.', '&', '--', '*-', '()', "'"])   # no word character
        elif kind == 10:
            t = ''.join(rng.choice(self.c.letters()) for _ in range(rng.randint(1, 3)))
        else:
            t = w + rng.choice(self.c.letters())
        if rng.random() < 0.3:
            t = ''.join(SWAP.get(ch, ch) if rng.random() < 0.6 else ch for ch in t)
        return t or w

    def targeted_query(self) -> str:
        """terms taken from one real path, so that the query has a fair chance to match it"""
        rng = self.rng
        p = rng.choice(self.all_paths())
        ws = gen_words(p.split('/', 1)[1].replace('/', ' ')) or gen_words(p.replace('/', ' '))
        terms = []
        for w in rng.sample(ws, min(len(ws), rng.choice([1, 1, 2, 3]))):
            r = rng.random()
            if r < 0.35:
                terms.append('*' + w[rng.randrange(len(w)):])
            elif r < 0.45:
                terms.append('*' + w)
            else:
                terms.append(w)
        if rng.random() < 0.35:
            terms.append('-' + rng.choice(self.vocab))
        if rng.random() < 0.15:
            terms.append(rng.choice(['-', '*', '&', '.', "-'"]))
        if rng.random() < 0.3:
            terms = [''.join(SWAP.get(ch, ch) if rng.random() < 0.5 else ch for ch in t) for t in terms]
        rng.shuffle(terms)
        return ' '.join(terms)

    def random_query(self) -> str:
        rng = self.rng
        if rng.random() < 0.55:
            return self.targeted_query()
        terms = []
        for _ in range(rng.choice([1, 1, 2, 2, 3, 4])):
            t = self.random_term()
            role = rng.random()
            if role < 0.22:
                t = '-' + t
            elif role < 0.5:
                # a wildcard: mostly on a suffix, so that several words can end with it
                if rng.random() < 0.7:
                    w = rng.choice(self.vocab)
                    t = w[rng.randrange(len(w)):]
                t = '*' + t
            terms.append(t)
        rng.shuffle(terms)
        return ' '.join(terms)

    def battery(self) -> list[list]:
        rng = self.rng
        qs = []
        mq = list(self.model_queries)
        rng.shuffle(mq)
        for a in mq[:max(2, self.nq // 3)]:
            qs.append(self.c.query(a))
        while len(qs) < self.nq:
            qs.append(self.random_query())
        out = []
        for q in qs:
            q = ' '.join(q.split(' '))
            if any(ch not in CODE for ch in q):
                raise MachineryFailure(f'generated query with a character outside the table: {q!r}')
            m = rng.choice([1, 1, 2, 3, 5, 10, 100, 100, rng.randint(1, 100)])
            out.append([q, m])
        return out

    # -- plan ------------------------------------------------------------------
    def build(self, init_disk, labels, all_dirs, all_files) -> dict:
        rng = self.rng
        for f in sorted(all_files):
            self.replicas_of(f)
        plan = dict(dirs=sorted({self.dirpath(d) for d in all_dirs}), init=[], ops=[])
        for x in sorted(init_disk, key=lambda r: tuple(r['f'])):
            for p in self.replicas_of(x['f']):
                plan['init'].append([p, int(x['v'])])
        shared: set[str] = set()
        inflight = False
        on_disk = {p for p, _ in plan['init']}
        # environment choices added to the behaviour (all of them are actions of the model, enabled at any
        # time): the application keeps the items it was given across later operations and drops them
        # afterwards; a whole directory vanishes from disk before a rescan
        hold_mode = rng.random() < 0.45
        rmdir_mode = rng.random() < 0.4
        holding = False

        def rmdir(d):
            gone = [p for p in on_disk if p.startswith(d + '/')]
            on_disk.difference_update(gone)
            plan['ops'].append(dict(op='rmdir', d=d))

        for lab in labels:
            name, a = parse_label(lab)
            if rmdir_mode and name in ('Scan', 'ScanAll', 'ScanBegin', 'ScanBeginAll') and rng.random() < 0.45:
                cands = sorted({p.rsplit('/', 1)[0] for p in on_disk}) or plan['dirs']
                full = rng.choice(cands).split('/')
                rmdir('/'.join(full[:rng.randint(1, len(full))]))
            if name == 'DiskCreate':
                for p in self.replicas_of(a[0]):
                    if p not in on_disk:
                        on_disk.add(p)
                        plan['ops'].append(dict(op='create', f=p, v=int(a[1])))
            elif name == 'Touch':
                for p in self.replicas_of(a[0]):
                    if p in on_disk:            # (an added 'rmdir' may have taken it away)
                        plan['ops'].append(dict(op='touch', f=p, v=int(a[1])))
            elif name == 'DiskDelete':
                for p in self.replicas_of(a[0]):
                    if p in on_disk:
                        on_disk.discard(p)
                        plan['ops'].append(dict(op='delete', f=p))
            elif name == 'DiskRemoveDir':
                rmdir(self.dirpath(a[0]))
            elif name == 'Hold':
                holding = True
                plan['ops'].append(dict(op='hold', queries=self.battery()[:2]))
            elif name == 'Release':
                holding = False
                plan['ops'].append(dict(op='release', queries=self.battery()))
            elif name in ('Add', 'Remove', 'Update', 'Scan'):
                d = self.dirpath(a[0])
                if name == 'Add':
                    shared.add(d)
                if name == 'Remove':
                    shared.discard(d)
                plan['ops'].append(dict(op=name.lower(), d=d, how=rng.choice(['obj', 'str']), queries=self.battery()))
            elif name == 'ScanAll':
                plan['ops'].append(dict(op='scanall', queries=self.battery()))
            elif name == 'ScanBegin':
                inflight = True
                plan['ops'].append(dict(op='scanbegin', all=False, d=self.dirpath(a[0]), queries=self.battery()))
            elif name == 'ScanBeginAll':
                inflight = True
                plan['ops'].append(dict(op='scanbegin', all=True, d='', queries=self.battery()))
            elif name == 'ScanEnd':
                inflight = False
                plan['ops'].append(dict(op='scanend', queries=self.battery()))
            elif name == 'Collect':
                plan['ops'].append(dict(op='collect', queries=self.battery()))
            elif name == 'Load':
                ds = [self.dirpath(d) for d in a[0]]
                shared = set(ds)
                plan['ops'].append(dict(op='load', dirs=ds, queries=self.battery()))
            else:
                raise MachineryFailure(f'unknown action {name}')
            # now and then a call the manager must refuse
            if name in ('Add', 'Remove', 'Scan', 'ScanAll') and not inflight and rng.random() < 0.06 and plan['dirs']:
                d = rng.choice(plan['dirs'])
                op = 'add' if d in shared else rng.choice(['remove', 'update'])
                plan['ops'].append(dict(op=op, d=d, how='str', queries=self.battery()[:2]))
            if hold_mode:
                if not holding and name in ('Scan', 'ScanAll', 'ScanEnd') and rng.random() < 0.7:
                    holding = True
                    plan['ops'].append(dict(op='hold', queries=self.battery()[:2]))
                elif holding and name in ('Scan', 'ScanAll', 'ScanEnd', 'Remove', 'Load', 'Add') and rng.random() < 0.6:
                    holding = False
                    plan['ops'].append(dict(op='release', queries=self.battery()))
        if inflight:        # the behaviour stopped with a scan in flight: let it finish
            plan['ops'].append(dict(op='scanend', queries=self.battery()))
        if holding and hold_mode:
            plan['ops'].append(dict(op='release', queries=self.battery()))
        return plan


# ---------------------------------------------------------------------------
# execution of a plan on the real SharesManager
# ---------------------------------------------------------------------------

class Executor:
    def __init__(self):
        self.base = os.path.realpath(tempfile.mkdtemp(prefix='c07-'))
        self.n = 0
        import aioslsk.shares.manager  # noqa: F401  (import before freezing)
        import aioslsk.settings  # noqa: F401
        gc.collect()
        gc.freeze()               # keeps the per-plan gc.collect() cheap

    def close(self):
        gc.unfreeze()
        shutil.rmtree(self.base, ignore_errors=True)

    def run(self, plan: dict) -> list[dict]:
        self.n += 1
        root = os.path.join(self.base, f't{self.n}')
        os.makedirs(root)
        was = gc.isenabled()
        gc.disable()              # cyclic garbage disappears at 'collect' events only
        try:
            result, _loop = vloop.run(lambda lp: self._main(lp, root, plan))
            events = result[0]
        finally:
            if was:
                gc.enable()
            gc.collect()
            shutil.rmtree(root, ignore_errors=True)
        return events

    # paths -> code sequences ------------------------------------------------
    @staticmethod
    def comps(root: str, path: str) -> list[list[int]]:
        try:
            rel = os.path.relpath(path, root)
        except ValueError:
            return [[UNKNOWN]]
        if rel == '.':
            return []
        if rel.startswith('..'):
            return [[UNKNOWN]] + [codes(p) for p in rel.split(os.sep)]
        return [codes(p) for p in rel.split(os.sep)]

    async def _main(self, loop, root, plan):
        from aioslsk.shares.manager import SharesManager
        from aioslsk.settings import Settings, SharedDirectorySettingEntry
        from aioslsk.events import EventBus

        for d in plan['dirs']:
            os.makedirs(os.path.join(root, d), exist_ok=True)

        def create(rel, v):
            p = os.path.join(root, rel)
            os.makedirs(os.path.dirname(p), exist_ok=True)
            with open(p, 'wb') as fh:
                fh.write(b'x')
            os.utime(p, (MT0 + v, MT0 + v))

        events = [dict(ev='init', disk=[])]
        for rel, v in plan['init']:
            create(rel, v)
            events[0]['disk'].append(dict(f=self.comps(root, os.path.join(root, rel)), v=v))

        from unittest.mock import Mock
        from aioslsk.events import ScanCompleteEvent, SessionInitializedEvent
        from aioslsk.protocol.messages import SharedFoldersFiles

        settings = Settings(credentials={'username': 'me', 'password': 'pw'})
        bus = EventBus()
        network = AsyncMock()
        manager = SharesManager(settings, bus, network)
        held = []                 # directory objects a caller would still hold
        kept = []                 # items the application was given and still holds ('hold' .. 'release')
        told = []                 # counts announced by a completed scan(): event + report to the server

        async def on_scan_complete(event):
            told.append([int(event.folder_count), int(event.file_count)])
        bus.register(ScanCompleteEvent, on_scan_complete)     # (the bus holds listeners weakly)

        async def capture_report(*messages):
            for msg in messages:
                if isinstance(msg, SharedFoldersFiles.Request):
                    told.append([int(msg.shared_folder_count), int(msg.shared_file_count)])
        network.send_server_messages = capture_report
        # a session exists, so that scan() reports the shares to the server
        await bus.emit(SessionInitializedEvent(session=Mock(), raw_message=Mock()))

        # a scan in two steps: executor jobs submitted while `holding` are kept back until 'scanend'
        holding = [False]
        jobs = []
        scan_task = [None]

        def gate(func, a):
            if not holding[0]:
                return None
            fut = loop.create_future()
            jobs.append((fut, func, a))
            return fut
        loop.executor_gate = gate

        def item_key(it):
            try:
                return dict(f=self.comps(root, it.get_absolute_path()),
                            own=self.comps(root, it.shared_directory.absolute_path),
                            v=int(it.modified) - MT0, q=codes(it.get_query_path()))
            except Exception:
                return dict(f=[[UNKNOWN]], own=[], v=-1, q=[UNKNOWN])

        def observe(queries, keep=None):
            dirs, items = [], []
            for d in list(manager.shared_directories):
                if not any(d is h for h in held):
                    held.append(d)
                dc = self.comps(root, d.absolute_path)
                dirs.append(dc)
                for it in list(d.items):
                    rec = item_key(it)
                    rec['d'] = dc
                    items.append(rec)
            items.sort(key=lambda r: json.dumps(r, sort_keys=True))
            try:
                folders, files = manager.get_stats()
                stats = [int(folders), int(files)]
            except Exception:
                stats = [-1, -1]
            qs = []
            if not items:
                queries = queries[:2]      # nothing indexed: two probes for stale answers are enough
            for q, m in queries:
                settings.searches.receive.max_results = m
                exc = 'none'
                res = []
                try:
                    visible, locked = manager.query(q)
                    res = [item_key(it) for it in visible] + [item_key(it) for it in locked]
                    if keep is not None:
                        keep.extend(visible)
                        keep.extend(locked)
                    del visible, locked
                except Exception as e:  # an observation, judged by the trace spec
                    exc = type(e).__name__
                qs.append(dict(q=codes(q), m=m, exc=exc, res=res))
            return dict(dirs=dirs, items=items, stats=stats, queries=qs, told=list(told))

        def find_obj(path):
            for d in manager.shared_directories:
                if d.absolute_path == path:
                    return d
            return None

        for op in plan['ops']:
            kind = op['op']
            if kind == 'rmdir':
                p = os.path.join(root, op['d'])
                shutil.rmtree(p, ignore_errors=True)
                events.append(dict(ev='rmdir', d=self.comps(root, p)))
                continue
            if kind in ('create', 'touch', 'delete'):
                p = os.path.join(root, op['f'])
                if kind == 'delete':
                    os.remove(p)
                    events.append(dict(ev='delete', f=self.comps(root, p)))
                elif kind == 'create':
                    create(op['f'], op['v'])
                    events.append(dict(ev='create', f=self.comps(root, p), v=op['v']))
                else:
                    os.utime(p, (MT0 + op['v'], MT0 + op['v']))
                    events.append(dict(ev='touch', f=self.comps(root, p), v=op['v']))
                continue
            ev = dict(ev=kind, exc='none')
            told.clear()
            try:
                if kind == 'scanbegin':
                    ev['all'] = bool(op['all'])
                    path = os.path.join(root, op['d']) if not op['all'] else root
                    ev['d'] = self.comps(root, path)
                    obj = None if op['all'] else find_obj(path)
                    if not op['all'] and obj is None:
                        raise MachineryFailure(f'plan scans {op["d"]!r}, which is not shared')
                    holding[0] = True
                    scan_task[0] = asyncio.ensure_future(manager.scan() if op['all']
                                                         else manager.scan_directory_files(obj))
                    del obj
                    await vloop.settle(loop)
                    holding[0] = False
                    if scan_task[0].done():
                        # nothing went through the executor: the scan was atomic after all
                        ev['ev'] = 'scanall' if op['all'] else 'scan'
                        task, scan_task[0] = scan_task[0], None
                        task.result()
                elif kind == 'scanend':
                    if scan_task[0] is None:
                        continue          # the scan completed atomically at its 'scanbegin'
                    holding[0] = False
                    while jobs:
                        fut, func, a = jobs.pop(0)
                        if fut.done():
                            continue
                        try:
                            fut.set_result(func(*a))
                        except Exception as e:  # noqa
                            fut.set_exception(e)
                    task, scan_task[0] = scan_task[0], None
                    await task
                elif kind == 'add':
                    path = os.path.join(root, op['d'])
                    ev['d'] = self.comps(root, path)
                    held.append(manager.add_shared_directory(path))
                elif kind in ('remove', 'update', 'scan'):
                    path = os.path.join(root, op['d'])
                    ev['d'] = self.comps(root, path)
                    obj = find_obj(path)
                    arg = obj if (op.get('how') == 'obj' and obj is not None) else path
                    if kind == 'remove':
                        held.append(manager.remove_shared_directory(arg))
                    elif kind == 'update':
                        from aioslsk.shares.model import DirectoryShareMode
                        manager.update_shared_directory(arg, share_mode=DirectoryShareMode.FRIENDS)
                    else:
                        if obj is None:
                            raise MachineryFailure(f'plan scans {op["d"]!r}, which is not shared')
                        await manager.scan_directory_files(obj)
                    del obj, arg
                elif kind == 'scanall':
                    await manager.scan()
                elif kind == 'load':
                    ev['dirs'] = [self.comps(root, os.path.join(root, d)) for d in op['dirs']]
                    settings.shares.directories = [SharedDirectorySettingEntry(path=os.path.join(root, d))
                                                   for d in op['dirs']]
                    manager.load_from_settings()
                elif kind == 'collect':
                    held.clear()
                    gc.collect()
                elif kind == 'hold':
                    # what the application was given: the listing of the shared directories (and, below,
                    # the answers to this step's queries)
                    for d in list(manager.shared_directories):
                        kept.extend(d.items)
                elif kind == 'release':
                    kept.clear()
                else:
                    raise MachineryFailure(f'unknown plan operation {kind}')
            except MachineryFailure:
                raise
            except Exception as e:  # raised by the code under test: an observation
                ev['exc'] = type(e).__name__
            await vloop.settle(loop)
            ev['obs'] = observe(op.get('queries', []), keep=kept if kind == 'hold' else None)
            events.append(ev)
        if loop.unhandled:
            events.append(dict(ev='loop_exception', exc=str(loop.unhandled[0].get('message'))[:200]))
        return events, None


# ---------------------------------------------------------------------------
# verdicts
# ---------------------------------------------------------------------------
_FAIL = re.compile(r'<<\s*"FAIL",\s*(\d+),\s*(\d+),\s*"(\w+)",\s*(\d+)\s*>>')


def explain(traces: list) -> dict[int, list]:
    """Second TLC pass over rejected traces: every failed check is printed (TraceExplain.cfg)."""
    d = tempfile.mkdtemp(prefix='c07x-')
    try:
        f = os.path.join(d, 'rej.json')
        with open(f, 'w') as fh:
            json.dump(traces, fh)
        res = tlc.run_tlc(TRACE, 'TraceExplain.cfg', workers=8, deadlock=False, env=dict(TRACE_FILE=f),
                          timeout=1500, parse_traces=False)
        if [i for i in res.issues] or not res.finished:
            raise tlc.TLCError(f'explanation pass failed: {[(i.kind, i.name, i.message[:300]) for i in res.issues]}')
        joined = ' '.join(res.prints)
        out: dict[int, list] = {}
        for m in _FAIL.finditer(joined):
            t = (int(m.group(2)), m.group(3), int(m.group(4)))
            lst = out.setdefault(int(m.group(1)), [])
            if t not in lst:
                lst.append(t)
        qinfo = {}
        for m in re.finditer(r'<<\s*"QINFO",\s*(\d+),\s*(\d+),\s*(\d+),\s*(\d+),\s*(\d+),\s*(\d+)\s*>>', joined):
            g = [int(x) for x in m.groups()]
            qinfo[(g[0], g[1], g[2])] = dict(answered=g[3], matching=g[4], wrong=g[5])
        for tid in out:
            out[tid].sort()
        return dict(fails=out, qinfo=qinfo)
    finally:
        shutil.rmtree(d, ignore_errors=True)


def _key(r):
    return json.dumps({k: r[k] for k in ('f', 'own', 'v', 'q')}, sort_keys=True)


def _text(cs):
    inv = {v: k for k, v in CODE.items()}
    return ''.join(inv.get(c, '?') for c in cs)


def name_failure(trace, at, prop, k, qinfo=None) -> tuple[str, str]:
    """Fingerprint + description of one failed check.  Naming only: the verdict is TLC's."""
    ev = trace[at - 1]
    obs = ev.get('obs', {})
    opname = {'add': 'add_shared_directory', 'remove': 'remove_shared_directory', 'scan': 'scan_directory_files',
              'scanall': 'scan', 'load': 'load_from_settings', 'update': 'update_shared_directory',
              'collect': 'garbage-collection', 'scanbegin': 'scan-start', 'hold': 'application-keeps-items',
              'release': 'application-releases-kept-items',
              'scanend': 'scan-completion'}.get(ev['ev'], ev['ev'])
    if prop in ('QueryExact', 'NoUnsharedResults'):
        qr = obs['queries'][k - 1]
        qtext = _text(qr['q'])
        index = {_key(i) for i in obs['items']}
        res = [_key(r) for r in qr['res']]
        if qr['exc'] != 'none':
            return f'C07:query:exception:{qr["exc"]}', f'query {qtext!r} raised {qr["exc"]}'
        stale = [r for r in qr['res'] if _key(r) not in index]
        if stale:
            # which operation made the item leave the index while the term map kept it?
            sk = _key(stale[0])
            cause = opname
            for j in range(at - 1, 0, -1):
                o = trace[j].get('obs')
                if o is None:
                    continue
                prev = next((trace[i]['obs'] for i in range(j - 1, 0, -1) if 'obs' in trace[i]), None)
                if prev is not None and sk in {_key(i) for i in prev['items']} and sk not in {_key(i) for i in o['items']}:
                    cause = {'remove': 'remove_shared_directory', 'scan': 'scan_directory_files',
                             'scanall': 'scan_directory_files', 'load': 'load_from_settings'}.get(trace[j]['ev'], trace[j]['ev'])
                    break
            return (f'C07:{cause}:stale-term-map-entry',
                    f'query {qtext!r} returned {_text(stale[0]["q"])!r}, which is in no shared directory '
                    f'(left the index at {cause})')
        if prop == 'NoUnsharedResults':
            return 'C07:query:result-outside-index', f'query {qtext!r}'
        if len(res) != len(set(res)):
            return 'C07:query:duplicate-result', f'query {qtext!r}'
        if len(res) > qr['m']:
            return 'C07:query:cap-exceeded', f'query {qtext!r} max_results={qr["m"]} returned {len(res)}'
        qi = qinfo or {}
        expected = min(qr['m'], qi['matching']) if qi else None
        tail = (f'(max_results={qr["m"]}) returned {len(res)} item(s) where {expected} are due '
                f'({qi["matching"]} indexed files match, {qi["wrong"]} returned item(s) do not match)') if qi \
            else f'(max_results={qr["m"]}) returned {len(res)} item(s)'
        if qi and qi['wrong'] > 0:
            return ('C07:query:returned-non-matching-file',
                    f'query {qtext!r} {tail}: {sorted(_text(r["q"]) for r in qr["res"])[:4]} after {opname}')
        # wildcard whose suffix ends several different indexed words?
        words = set()
        for e in trace[1:at]:
            for i in (e.get('obs') or {}).get('items', []):
                words.update(w.lower() for w in gen_words(_text(i['q'])))
        for t in qtext.split(' '):
            if t.startswith('*') and len(t) > 1 and t[1] in WORDCHARS:
                lead = gen_words(t[1:])[0].lower()
                if len({w for w in words if w.endswith(lead)}) >= 2:
                    return ('C07:query:wildcard-suffix-of-several-words:missing-results',
                            f'query {qtext!r} {tail}: '
                            f'{len({w for w in words if w.endswith(lead)})} words of the term map end with {lead!r}')
        return ('C07:query:missing-results',
                f'query {qtext!r} {tail}: {sorted(_text(r["q"]) for r in qr["res"])[:4]} after {opname}')
    if prop == 'StatsEqualIndex':
        folders = len({json.dumps(i['f'][:-1]) for i in obs['items']})
        if k == 2:
            return ('C07:scan:announced-counts-differ-from-index',
                    f'a completed scan() announced {obs.get("told")} (ScanCompleteEvent / SharedFoldersFiles) but the '
                    f'index holds {len(obs["items"])} files in {folders} folders (after {opname})')
        what = 'folder-count' if obs['stats'][0] != folders else 'file-count'
        if ev['ev'] == 'scanend':
            what += ':stale-after-scan-that-was-read-in-flight'
        return (f'C07:get_stats:{what}',
                f'get_stats() = {obs["stats"]} but the index holds {len(obs["items"])} files in {folders} folders '
                f'(after {opname})')
    return f'C07:{opname}:{prop}:{k}', f'{prop} (part {k}) fails after {opname}'


def judge(chk: Check, traces: list, metas: list, label: str = ''):
    v = tlc.validate_traces(TRACE, 'Trace.cfg', traces, diag_cfg='TraceDiag.cfg', max_diag=0, timeout=2400)
    chk.cov['traces_validated_against_impl'] += v.n
    chk.add_trace_run(v.result)
    chk.log(f'trace validation{label}: {len(v.accepted)} accepted, {len(v.rejected)} rejected')
    if not v.rejected:
        return v, {}
    rej = sorted(v.rejected)
    ex = explain([traces[t - 1] for t in rej])
    found: dict[str, dict] = {}
    for pos, tid in enumerate(rej, start=1):
        trace = traces[tid - 1]
        fails = ex['fails'].get(pos, [])
        named = []
        if not fails:
            # no property check failed: some recorded event is not an instance of any action
            info = tlc.diagnose_trace(TRACE, 'TraceDiag.cfg', trace)
            e = info.get('event') or {}
            named.append((f"C07:{e.get('ev', '?')}:unexpected-outcome:{e.get('exc', '?')}",
                          f"event #{info.get('at')} {e.get('ev')} exc={e.get('exc')} is not explained by the model "
                          f"({info.get('kind')}:{info.get('name')})", info.get('at')))
        else:
            first_at = fails[0][0]
            for at, prop, k in fails:
                # once the model and the recorded index disagree, later index checks only repeat it
                if prop in ('IndexFollowsOperations', 'IndexedOnceInnermost') and at > first_at:
                    continue
                fp, what = name_failure(trace, at, prop, k, ex['qinfo'].get((pos, at, k)))
                named.append((fp, what, at))
        for fp, what, at in named:
            slot = found.setdefault(fp, dict(n=0, what=what, tid=tid, at=at, len=len(trace)))
            slot['n'] += 1
            if len(trace) < slot['len']:
                slot.update(what=what, tid=tid, at=at, len=len(trace))
    for fp, slot in sorted(found.items()):
        tid = slot['tid']
        chk.violation(fp, f"{slot['what']} [event #{slot['at']} of trace {tid}; {slot['n']} trace(s)]",
                      dict(meta=metas[tid - 1], trace_len=slot['len'], at=slot['at']))
    return v, found


# ---------------------------------------------------------------------------
# behaviours
# ---------------------------------------------------------------------------

def _const_values(names: list[str]) -> dict:
    """Evaluate constant definitions of SharesIndex.tla with TLC (the harness keeps no copy of them)."""
    d = tempfile.mkdtemp(prefix='c07e-')
    try:
        with open(os.path.join(d, 'E.tla'), 'w') as fh:
            fh.write('---- MODULE E ----\nEXTENDS SharesIndex\n' +
                     'ASSUME PrintT(<<"CONST", ' + ', '.join(f'<<"{n}", {n}>>' for n in names) + '>>)\n====\n')
        shutil.copy(os.path.join(tlc.SPECS, 'SharesIndex', 'SharesIndex.tla'), d)
        shutil.copy(os.path.join(tlc.SPECS, 'SharesIndex', 'MC_small.cfg'), os.path.join(d, 'E.cfg'))
        res = tlc.run_tlc(os.path.join(d, 'E.tla'), os.path.join(d, 'E.cfg'), workers=1, timeout=300,
                          extra=['-depth', '1'], simulate='num=1')
        txt = ' '.join(res.prints)
        if '"CONST"' not in txt:
            raise MachineryFailure('could not read the model constants from TLC:\n' + res.raw[-1500:])
        # PrintT wraps long values: take the balanced tuple around "CONST"
        start = txt.rindex('<<', 0, txt.index('"CONST"'))
        depth, i = 0, start
        while i < len(txt):
            if txt.startswith('<<', i):
                depth += 1
                i += 2
                continue
            if txt.startswith('>>', i):
                depth -= 1
                i += 2
                if depth == 0:
                    break
                continue
            i += 1
        val = tlc.parse_value(txt[start:i])
        return {str(p[0]): p[1] for p in val[1:]}
    finally:
        shutil.rmtree(d, ignore_errors=True)


def collect_behaviours(chk: Check, thorough: bool):
    """quick: exhaustive check of the small model; thorough: the same with its state graph dumped, from
    which an edge cover is taken"""
    if not thorough:
        res = tlc.model_check(SPEC, 'MC_small.cfg', expect_actions=ACTIONS, workers=8, timeout=900)
        chk.add_model('SharesIndex small (3 dirs, 3 files, histories <= 5, exhaustive)', res)
        return []
    g, res = tlc.dump_graph(SPEC, 'MC_small.cfg', parse_states='init', coverage=True, timeout=900)
    chk.add_model('SharesIndex small (3 dirs, 3 files, histories <= 5, exhaustive)', res)
    missing = [a for a in ACTIONS if res.coverage.get(a, (0, 0))[1] == 0]
    if missing:
        raise MachineryFailure(f'vacuity: actions never taken in MC_small.cfg: {missing}')
    paths = tlc.path_cover(g)
    cover = []
    for p in paths:
        init = g.states[p[0][0]]
        cover.append(behaviour_key(init['disk'], [e[1] for e in p]))
    chk.cov['graph_edges_small'] = len(g.edges)
    chk.cov['cover_paths_small'] = len(paths)
    chk.log(f'graph: {len(g.states)} states, {len(g.edges)} edges, {len(paths)} cover paths')
    return cover


def simulate(chk: Check, cfg: str, num: int, depth: int, seed: int):
    bs, sres = tlc.simulate_behaviours(SPEC, cfg, num=num, depth=depth, seed=seed, timeout=900)
    out = []
    for b in bs:
        labels = [lab for lab, _ in b[1:]]
        if labels:
            out.append(behaviour_key(b[0][1]['disk'], labels))
    return out


def interesting(labels) -> bool:
    names = [parse_label(x)[0] for x in labels]
    return any(nm in ('Scan', 'ScanAll', 'ScanEnd') for nm in names) or \
        (names and names[-1] in ('ScanBegin', 'ScanBeginAll'))


# ---------------------------------------------------------------------------

def design_checks(chk: Check, thorough: bool):
    """The deviation switches: with a switch in the position of the pinned code the design model
    must violate the property the defect breaks (the invariants have teeth)."""
    expect = {'MC_kf1.cfg': 'QueryExact', 'MC_kf2.cfg': 'QueryExact', 'MC_kf3.cfg': 'QueryExact',
              'MC_kf4.cfg': 'StatsEqualIndex'}
    with ThreadPoolExecutor(max_workers=4) as pool:
        futs = {cfg: pool.submit(tlc.run_tlc, SPEC, cfg, workers=2, timeout=900) for cfg in expect}
    counterexamples = []
    for cfg, want in expect.items():
        r = futs[cfg].result()
        got = [i.name for i in r.issues]
        ok = want in got
        chk.cov['binding_selftest'][f'design_model_{cfg[3:6]}_violates_{want}'] = ok
        if not ok:
            raise MachineryFailure(f'{cfg}: expected a violation of {want}, got {got}')
        tr = next(i.trace for i in r.issues if i.name == want)
        counterexamples.append(behaviour_key(tr[0][1]['disk'], [lab for lab, _ in tr[1:]]))
    return counterexamples


def run(chk: Check, args):
    thorough = chk.tier == 'thorough'
    chk.cov['rule'] = (
        'behaviours = (initial disk, action labels) of the SharesIndex design model: a seeded sample of the edge '
        'cover of the exhaustive small graph plus TLC -simulate behaviours of the larger model; each behaviour is '
        'concretised several ways (ASCII / accents / Cyrillic+Greek+CJK / mixed alphabets, separator roles rotated '
        'over all separators of the statement, abstract files replicated with fillers up to ~30 files) into a plan, '
        'executed on the real SharesManager over a temp tree; after every share operation directory.items, '
        'get_stats() and a query battery (model queries + seeded random ones, max_results 1..100) are recorded; '
        'distinct = distinct (behaviour, concretisation); non-trivial = the history contains a scan and at least '
        'one query answered with a non-empty result')
    consts = _const_values(['MC_QueriesS', 'MC_QueriesL', 'MC_DirsS', 'MC_FilesS', 'MC_DirsL', 'MC_FilesL'])
    # the model's counterexamples for the code's position of each switch are replayed on the real code:
    # they are rejected exactly while the corresponding defect is present
    counterexamples = design_checks(chk, thorough)
    cover = collect_behaviours(chk, thorough)
    if thorough:
        rb = tlc.model_check(SPEC, 'MC_mid.cfg', expect_actions=ACTIONS, timeout=3000)
        chk.add_model('SharesIndex mid (3 dirs, 3 files, histories <= 6, exhaustive)', rb)
        rm = tlc.model_check(SPEC, 'MC_match.cfg', timeout=3000)
        chk.add_model('matcher slice: all two-file indexes, names <= 3 chars over {a,A,b,_,-}, 18 queries', rm)
        rk = tlc.run_tlc(SPEC, 'MC_match_kf1.cfg', timeout=900)
        chk.cov['binding_selftest']['matcher_slice_with_intersection_violates_QueryExact'] = \
            any(i.name == 'QueryExact' for i in rk.issues)
        if not chk.cov['binding_selftest']['matcher_slice_with_intersection_violates_QueryExact']:
            raise MachineryFailure('MC_match_kf1.cfg: expected a violation of QueryExact')

    rng = random.Random(chk.seed * 7919 + 17)
    n_cover = 350 if thorough else 0
    n_sim_small = 250 if thorough else 110
    n_sim_big = 450 if thorough else 160
    sel = [b for b in cover if interesting(b[1])]
    rng.shuffle(sel)
    chosen = [(b, 'S', 'design-counterexample') for b in counterexamples for _ in range(4 if thorough else 2)]
    chosen += [(b, 'S', 'cover') for b in sel[:n_cover]]
    for cfg, size, src, want, depth, sd in (('MC_sim_small.cfg', 'S', 'sim-small', n_sim_small, 9, 1),
                                            ('MC_sim_big.cfg', 'L', 'sim-big', n_sim_big, 10, 2)):
        got = [b for b in simulate(chk, cfg, want * 2, depth, chk.seed + sd) if interesting(b[1])]
        chosen += [(b, size, src) for b in got[:want]]
    chk.cov['behaviours'] = dict(cover=min(len(sel), n_cover), cover_available=len(sel),
                                 simulated=len(chosen) - min(len(sel), n_cover))

    ex = Executor()
    traces, metas = [], []
    seen = set()
    try:
        for bi, (b, size, source) in enumerate(chosen):
            if (b, size) in seen and source != 'design-counterexample':
                continue
            seen.add((b, size))
            dirs = consts['MC_Dirs' + size]
            files = consts['MC_Files' + size]
            mq = sorted(consts['MC_Queries' + size])
            nconc = 2 if thorough else 1
            for ci in range(nconc):
                index = bi * nconc + ci
                style = STYLES[index % len(STYLES)]
                crng = random.Random(f'{chk.seed}/{bi}/{ci}')
                conc = Concretisation(style, index, crng)
                replicas = crng.choice([1, 1, 2, 3, 4, 6] if not thorough else [1, 2, 3, 4, 6, 8])
                if size == 'L':
                    replicas = min(replicas, 5)
                pb = PlanBuilder(conc, crng, replicas, 5 if not thorough else 7, mq)
                plan = pb.build([dict(f=f, v=v) for f, v in b[0]], b[1], dirs, files)
                ev = ex.run(plan)
                traces.append(ev)
                metas.append(dict(plan=plan, source=source, style=style, labels=list(b[1])))
                nonempty = any(q['res'] for e in ev for q in (e.get('obs') or {}).get('queries', []))
                chk.count((b, size, style, index), nontrivial=interesting(b[1]) and nonempty)
    finally:
        ex.close()
    nfiles = [len(m['plan']['init']) for m in metas]
    chk.cov['tree_sizes'] = dict(max_initial_files=max(nfiles), replays=len(traces),
                                 queries=sum(len((e.get('obs') or {}).get('queries', [])) for t in traces for e in t),
                                 nonempty_answers=sum(1 for t in traces for e in t
                                                      for q in (e.get('obs') or {}).get('queries', []) if q['res']))
    chk.log(f'executed {len(traces)} plans on the real SharesManager; {chk.cov["tree_sizes"]}')
    for i in (0, len(traces) // 2, len(traces) - 1):
        chk.sample(dict(labels=metas[i]['labels'], style=metas[i]['style'],
                        ops=[{k: v for k, v in o.items() if k != 'queries'} for o in metas[i]['plan']['ops']][:12],
                        queries=[q for o in metas[i]['plan']['ops'] for q in o.get('queries', [])][:8]), limit=3)

    judge(chk, traces, metas)
    selftest(chk, traces)
    chk.assumptions += [
        'the matching algorithm of docs/source/SOULSEEK.rst ("Query rules") and the property statement are the oracle; '
        'they are transcribed as Inc/Wild/Match/Parse in SharesIndex.tla',
        'character classes and case pairs come from the fixed table in harness/props/c07.py (ASCII, Latin accents, '
        'Cyrillic, Greek pairs; digits, CJK, Hangul, kana caseless); Unicode case folding beyond simple pairs, '
        'combining marks and "/" inside queries are outside the alphabet',
        'histories are sequential except that a scan may be split in two steps (the directory walk is held in the '
        'executor by loop.executor_gate and runs when released); while it is in flight only reads, disk changes and '
        'update_shared_directory happen - add/remove/load or a second scan during a scan are not exercised',
        'between "hold" and "release" the application holds every item of the shared directories and the answers to '
        'that step\'s queries (strong references); "rmdir" removes a directory tree with everything in it before a scan starts',
        'a removed directory object stays referenced until the "collect" step (the caller holds it, and the '
        'item<->directory reference cycle keeps it until the garbage collector runs)',
    ]


def selftest(chk: Check, traces: list):
    """Corrupt recorded fields: every corrupted trace must be rejected."""
    bad = []
    kinds = []
    for tr in traces:
        if len(bad) >= 8:
            break
        for i, e in enumerate(tr):
            obs = e.get('obs')
            if not obs:
                continue
            full = [k for k, q in enumerate(obs['queries']) if q['res'] and len(q['res']) < q['m']]
            if full and 'drop' not in kinds:
                c = copy.deepcopy(tr)
                c[i]['obs']['queries'][full[0]]['res'].pop()
                bad.append(c)
                kinds.append('drop')
                break
            empty = [k for k, q in enumerate(obs['queries']) if not q['res']]
            if empty and obs['items'] and 'extra' not in kinds:
                c = copy.deepcopy(tr)
                it = obs['items'][0]
                c[i]['obs']['queries'][empty[0]]['res'].append({k: it[k] for k in ('f', 'own', 'v', 'q')})
                # make sure it is really wrong: use a query that cannot match anything
                c[i]['obs']['queries'][empty[0]]['q'] = codes('zzzzqq')
                bad.append(c)
                kinds.append('extra')
                break
            if obs['items'] and 'stats' not in kinds:
                c = copy.deepcopy(tr)
                c[i]['obs']['stats'][1] += 1
                bad.append(c)
                kinds.append('stats')
                break
            if obs['items'] and 'case' not in kinds and any(x % 2 == 1 and x >= 100 for x in obs['items'][0]['q']):
                # an item recorded with a query path differing from its file name (upper case lost)
                c = copy.deepcopy(tr)
                c[i]['obs']['items'][0]['q'] = [x - 1 if (x >= 100 and x % 2) else x for x in obs['items'][0]['q']]
                bad.append(c)
                kinds.append('case')
                break
            if len(obs['items']) >= 1 and 'lost' not in kinds:
                c = copy.deepcopy(tr)
                c[i]['obs']['items'].pop()
                c[i]['obs']['stats'] = [len({json.dumps(x['f'][:-1]) for x in c[i]['obs']['items']}),
                                        len(c[i]['obs']['items'])]
                for q in c[i]['obs']['queries']:
                    q['res'] = [r for r in q['res'] if _key(r) in {_key(x) for x in c[i]['obs']['items']}]
                bad.append(c)
                kinds.append('lost')
                break
    if not bad:
        raise MachineryFailure('self-test: no trace could be corrupted')
    cv = tlc.validate_traces(TRACE, 'Trace.cfg', bad, max_diag=0, timeout=600)
    chk.cov['binding_selftest']['corrupted_traces_rejected'] = f'{len(cv.rejected)}/{len(bad)} ({",".join(kinds)})'
    if len(cv.rejected) != len(bad):
        raise MachineryFailure(f'corrupted traces were accepted by the trace spec: kinds={kinds} '
                               f'accepted={sorted(cv.accepted)}')


def replay(chk: Check, data: dict):
    """Re-execute the plan of a replay file on the current tree and validate the new trace."""
    meta = (data.get('replay') or {}).get('meta') or {}
    plan = meta['plan']
    ex = Executor()
    try:
        ev = ex.run(plan)
    finally:
        ex.close()
    for o in plan['ops']:
        print('  ', {k: v for k, v in o.items() if k != 'queries'})
    judge(chk, [ev], [meta])

"""C14 - search requests flow down the tree exactly once and are answered to the asker
(spec: DistributedTree, property set C14)."""
from __future__ import annotations

import copy
import shutil
import tempfile
from collections import Counter

from .. import tlc
from ..core import Check, MachineryFailure
from ..lib_disttree import run_schedule
from . import c13 as base

MC = base.MC
TRACE = base.TRACE

C14_ACTIONS = ['PotentialParents', 'AttemptOk', 'Incoming', 'Level', 'Close', 'WaitClosedDone',
               'ExcludedPhrases', 'ServerSearch', 'DistSearch', 'LegacyWrapped']

# the share of the client under test: a public and a friends-only directory
SHARE = dict(
    dirs=[
        dict(path='zzpublic', mode='everyone',
             files=['alpha/red apple.mp3', 'alpha/green apple.flac', 'beta/blue berry.mp3', 'beta/Mixed CASE tune.MP3',
                    'delta/apple_red.mp3', 'delta/Berry-Blue.flac', 'Red/Apple/cider.ogg']),
        dict(path='zzfriends', mode='friends',
             files=['gamma/red cherry.mp3', 'gamma/secret apple.ogg']),
    ],
    friends=['u2'],
)
HIT_QUERIES = ['apple', 'red', 'blue berry', 'cherry', 'APPLE  green', 'alpha', 'mp3', 'red -apple', 'mixed case',
               'secret', 'Berry Blue beta', 'apple -secret -green']
MISS_QUERIES = ['banana', 'red berry', 'app', 'apple -apple', 'cherry -red', '-apple', 'alpha gamma', 'berries']
OWN_HIT = ['apple', 'red', 'mp3', 'cherry']
# server-excluded phrases (looked for literally in the path, ignoring case) with, for each, queries that
# contain the phrase and still match files whose path does not (other separator / order / directory
# levels), and queries whose matches all contain it
PHRASES = {
    'Red Apple': dict(phr=['red apple', 'RED APPLE mp3', 'red apple -green'],
                      gone=['alpha red', 'red apple alpha']),
    'blue berry': dict(phr=['blue berry', 'Blue Berry flac'], gone=['beta berry', 'blue berry mp3']),
}
TICKETS = [1, 2, 7, 65536, 2147483647, 0]
OTHER_CODES = [4, 5, 7, 93, 0]
ASKER_NAMES = [dict(u1='stranger', u2='my friend'), dict(u1='Someone Else', u2='friend2'), dict(u1='u', u2='f')]


def concretise(abstract, rng, *, variant: int):
    """Abstract stimuli -> concrete ones.  On top of what C13 does: queries / askers / tickets for the
    searches, the phrases of ExcludedSearchPhrases, and the loop slot of a request: now and then a
    connection that has nothing to do with the request (a bystander's peer connection, a candidate that
    is neither parent nor child) closes in the very slot in which the request arrives."""
    groups, world = base.concretise_groups(abstract, rng, variant=variant)
    phrases = []                         # in force
    out = []
    bystander = False
    softclose = None
    if any(s[0] == 'search' for s in abstract) and rng.random() < 0.6:
        out.append(('bystander',))
        bystander = True
    for n, (st, grp) in enumerate(zip(abstract, groups)):
        if st[0] == 'xphr':
            phrases = rng.sample(sorted(PHRASES), rng.choice([1, 1, 2])) if st[1] else []
            out.append(('xphr', [ph if rng.random() < 0.5 else ph.upper() for ph in phrases]))
            continue
        if st[0] != 'search':
            if st[0] == 'close' and st[1] == softclose:
                grp = [('closeifopen',) + tuple(g[1:]) for g in grp]
            softclose = None
            out.extend(grp)
            continue
        _, carrier, frm, u, q, code = st
        pool = None
        if phrases and q in ('qphr', 'qgone'):
            pool = [x for ph in phrases for x in PHRASES[ph]['phr' if q == 'qphr' else 'gone']]
        if u == 'me':
            asker = 'me'
            query = rng.choice(pool or (MISS_QUERIES if q == 'qmiss' else OWN_HIT))
        else:
            asker = rng.choice(['u1', 'u1', 'u2'])
            query = rng.choice(pool or (MISS_QUERIES if q == 'qmiss' else HIT_QUERIES))
        num = 3 if code == 'search' else rng.choice(OTHER_CODES)
        srch = ('search', carrier, frm, asker, rng.choice(TICKETS), query, num)
        nxt = abstract[n + 1] if n + 1 < len(abstract) else None
        if bystander and rng.random() < 0.5:
            out.append(('burst', srch, ('bygone',)))
            bystander = False
            if rng.random() < 0.7:
                out.append(('bystander',))
                bystander = True
        elif nxt is not None and nxt[0] == 'close' and nxt[1] != frm and rng.random() < 0.6:
            # the model closes another peer next: same slot, if that peer is unrelated at that moment
            # (otherwise the burst ends after the request and the close follows as usual)
            out.append(('burst', srch, ('closeother', nxt[1], 'eof')))
            softclose = nxt[1]
        else:
            out.append(srch)
    an = ASKER_NAMES[variant % len(ASKER_NAMES)]
    world['askers'] = dict(me=world['me'], u1=an['u1'], u2=an['u2'])
    world['share'] = SHARE
    world['alias'] = pick_alias(abstract, rng)
    return out, world


def pick_alias(abstract, rng, rate=0.5):
    """Now and then two model peers are the same user: b connects to us (a second link, e.g. a reconnect
    while the old link is still half open) like any other peer.  b must be a peer that only ever connects
    in and closes in this schedule (it is never proposed, never announces, never sends a request)."""
    if rng.random() >= rate:
        return {}
    kinds: dict = {}
    for st in abstract:
        if st[0] == 'pp':
            for p in st[1]:
                kinds.setdefault(p, set()).add('pp')
        elif st[0] == 'search':
            kinds.setdefault(st[2], set()).add('search')
        elif len(st) > 1 and isinstance(st[1], str):
            kinds.setdefault(st[1], set()).add(st[0])
    plain = {'incoming', 'close', 'wcdone', 'drained'}
    bs = sorted(p for p, ks in kinds.items() if p.startswith('p') and ks <= plain and 'incoming' in ks)
    if not bs:
        return {}
    b = rng.choice(bs)
    # a: a user that only ever connects in as well (a proposed potential parent of the same name would
    # make the second link a candidate instead of a child - another history than the one meant here)
    others = sorted(p for p, ks in kinds.items() if p.startswith('p') and p != b and ks <= plain and 'incoming' in ks)
    if not others:
        return {}
    return {b: rng.choice(others)}


def _fp(tid, info, trace):
    if info.get('kind') == 'property':
        idx = info.get('idx')
        if idx is None:
            at = info.get('at')
            idx = (int(at) - 2) if at is not None else len(trace) - 1
        name = info.get('name') or '?'
        name = name[1:] if name.startswith('T') and name[1:2].isupper() else name
        shape = info.get('shape') or '?'
        # which search is concerned: the reply / forward record that broke the property, or the last search
        ev = trace[idx] if 0 <= idx < len(trace) else {}
        srch = None
        for e in reversed(trace[:idx + 1]):
            if e.get('ev') == 'search' and (ev.get('ev') not in ('reply', 'pf') or
                                            (e['t'] == ev.get('t') and e['u'] == ev.get('to', ev.get('u')))):
                srch = e
                break
        site = f"{srch['carrier']}-search" if srch else 'no-search'
        if name == 'EveryEventExplained':
            last = next((e for e in reversed(trace[:idx + 1]) if e.get('ev') == 'search'), None)
            prop = 'ForwardExactlyOnce' if ev.get('ev') == 'pf' else 'ReplyIffMatches'
            return f"C14:{prop}:{shape}:after-{last['carrier'] if last else 'no'}-search"
        if srch and srch['u'] == 'me' and (name == 'OwnSearchSilent' or ev.get('ev') in ('reply', 'pf')):
            what = {'reply': 'own-search-answered', 'pf': 'own-search-forwarded'}.get(ev.get('ev'), shape)
            return f'C14:OwnSearchSilent:{what}:{site}'
        return f'C14:{name}:{shape}:{site}'
    ev = info.get('event') or {}
    if ev.get('ev') == 'pf':
        return 'C14:ForwardExactlyOnce:unexplained-search-frame-at-peer'
    if ev.get('ev') == 'reply':
        return 'C14:ReplyIffMatches:unexplained-reply'
    return f"C14:unexplained-event:{ev.get('ev')}"


def collect(chk: Check, thorough: bool):
    """{abstract stimuli: source}; only schedules that contain a search request"""
    scheds: dict[tuple, str] = {}

    def add(labels, source, init=None):
        ab = base.abstract_stimuli(labels)
        if init is not None:
            ab = base.prefix_of(init) + ab
        if ab and any(s[0] == 'search' for s in ab) and ab not in scheds:
            scheds[ab] = source
            return True
        return False

    # (1) counterexamples of the code-position designs
    # MC_c14_open_forward.cfg: the answering repaired, the forwarding (proposed open finding) in the code's
    # position - the design-level counterexample ends in the deviation the trace spec tolerates and marks
    for cfg, prop, fid in [('MC_c14_code_own.cfg', 'OwnSearchSilent', 'F14-1'),
                           ('MC_c14_open_forward.cfg', 'ForwardExactlyOnce', 'F14-1-forwarding-open'),
                           ('MC_c14_code_childparent.cfg', 'ForwardOnlyToChildren', 'F13-2-seen-from-C14')]:
        r = tlc.run_tlc(MC, cfg, timeout=900)
        hit = [i for i in r.issues if i.name == prop]
        chk.cov['binding_selftest'][f'design_{fid}_switch_off_violates_{prop}'] = bool(hit)
        if not hit:
            raise MachineryFailure(f'{cfg}: expected a violation of {prop}, got {[(i.kind, i.name) for i in r.issues]}')
        if fid.startswith('F14-1'):
            add([lab for lab, _ in hit[0].trace[1:]], f'counterexample:{fid}')

    # (2) transition cover of the exhaustive two-peer graph with searches
    g, res = tlc.dump_graph(MC, 'MC_c14_cover.cfg', parse_states='init', timeout=900)
    if not res.ok:
        raise MachineryFailure(f'graph dump failed: {[(i.kind, i.name) for i in res.issues]}')
    paths = tlc.path_cover(g)
    n = 0
    for p in paths:
        n += add([e[1] for e in p], 'cover2', g.states[p[0][0]])
    chk.cov['graph_states_cover2'] = len(g.states)
    chk.cov['graph_edges_cover2'] = len(g.edges)
    chk.cov['cover_paths_cover2'] = len(paths)
    chk.log(f'cover graph: {len(g.states)} states, {len(g.edges)} edges, {len(paths)} paths, {n} schedules with a search')

    # (3) random behaviours with up to 4 searches interleaved with membership changes
    plan = [('MC_c14_gen3.cfg', 3000 if thorough else 700, 14)]
    if thorough:
        plan.append(('MC_c14_gen4.cfg', 3000, 16))
    for cfg, num, depth in plan:
        behs, sres = tlc.simulate_behaviours(MC, cfg, num=num, depth=depth, seed=chk.seed + 11, timeout=900)
        new = 0
        for b in behs:
            new += add([lab for lab, _ in b[1:]], 'sim:' + cfg, b[0][1])
        chk.cov[f'sim_behaviours_{cfg}'] = len(behs)
        chk.log(f'simulation {cfg}: {len(behs)} behaviours, {new} new schedules with a search')
    return scheds


def run(chk: Check, args):
    thorough = chk.tier == 'thorough'
    chk.cov['rule'] = (
        'schedules = tree-building stimuli (as C13, without announcements by accepted children, GetUserStats and '
        'server loss) interleaved with search requests on the three carriers (ServerSearchRequest while branch '
        'root, DistributedSearchRequest and wrapped server search from the parent, also with a non-search '
        'distributed code), projected from TLC behaviours of DistributedTree (counterexample of the code-position '
        'design, edge cover of the exhaustive 2-peer graph, simulated 3-/4-peer behaviours); concretised with user '
        'names, tickets, queries over a real temp share (public + friends-only directory; hits, misses, exclusions, '
        'case, own user name) and executed on a real logged-in SoulSeekClient with real SearchManager and '
        'SharesManager; simulated askers accept the peer connection and record PeerSearchReply; distinct = distinct '
        '(schedule, concretisation); non-trivial = at least one search request was delivered')
    if thorough:
        for cfg, label in [('MC_c14_big.cfg', '3 peers, 4 events, 2 searches'),
                           ('MC_c14_big_slow.cfg', '3 peers, 5 events, 1 search, back-pressured child links')]:
            acts = [a for a in C14_ACTIONS if not (a == 'ExcludedPhrases' and 'slow' in cfg)]
            r = tlc.model_check(MC, cfg, expect_actions=acts, timeout=3000)
            chk.add_model(f'DistributedTree C14, all repairs, {label}', r)
    else:
        r = tlc.model_check(MC, 'MC_c14_quick.cfg', expect_actions=C14_ACTIONS, timeout=3000)
        chk.add_model('DistributedTree C14, all repairs, 3 peers, 4 events, 1 search', r)

    scheds = collect(chk, thorough)
    keys = sorted(scheds, key=lambda s: (not scheds[s].startswith('counterexample'), repr(s)))
    cap = 5000 if thorough else 600
    keys = base.sample_by_source(chk, scheds, keys, cap)

    traces, metas = [], []
    truncated = 0
    why: dict = {}
    delivered = 0
    tmp = tempfile.mkdtemp(prefix='c14-')
    try:
        for n, ab in enumerate(keys):
            source = scheds[ab]
            variants = [(n % 3, True)]
            if thorough or source.startswith('counterexample') or n % 3 == 0:
                variants.append(((n + 1) % 3, False))
            for variant, hold in variants:
                conc, world = concretise(ab, chk.rng, variant=variant)
                if not hold:
                    conc = [s for s in conc if s[0] != 'wcdone']
                ev, info = run_schedule(conc, hold=hold, tmpdir=tmp, **world)
                if info.get('not_settled'):
                    raise MachineryFailure(f'loop did not drain while replaying {conc}')
                if info.get('sim_failure'):
                    raise MachineryFailure(f'scripted counterpart failed: {info["sim_failure"]} while replaying {conc}')
                truncated += 1 if info.get('truncated') else 0
                if info.get('truncated'):
                    why[info['truncated']] = why.get(info['truncated'], 0) + 1
                ns = sum(1 for e in ev if e['ev'] == 'search')
                delivered += ns
                traces.append(ev)
                metas.append(dict(abstract=ab, stimuli=conc, hold=hold, variant=variant, source=source,
                                  alias=world.get('alias') or {},
                                  truncated=info.get('truncated')))
                chk.count((ab, variant, hold, tuple(s for s in conc if s[0] == 'search')), nontrivial=ns > 0)
    finally:
        shutil.rmtree(tmp, ignore_errors=True)
    chk.cov['schedules_truncated_as_infeasible'] = truncated
    chk.cov['truncation_reasons'] = why
    chk.cov['search_requests_delivered'] = delivered
    chk.cov['search_replies_observed'] = sum(1 for tr in traces for e in tr if e['ev'] == 'reply')
    chk.cov['search_forwards_observed'] = sum(1 for tr in traces for e in tr if e['ev'] == 'pf' and e['kind'] == 'srch')
    chk.log(f'replayed {len(traces)} executions of {len(keys)} schedules: {delivered} search requests, '
            f'{chk.cov["search_forwards_observed"]} forwards and {chk.cov["search_replies_observed"]} replies observed '
            f'({truncated} truncated)')
    vacuous = not chk.cov['search_replies_observed'] or not chk.cov['search_forwards_observed']
    for i in (0, len(traces) // 2, len(traces) - 1):
        chk.sample(dict(meta=metas[i], trace=[e for e in traces[i] if e['ev'] != 'snap'][:60]))

    v = tlc.validate_traces(TRACE, 'TraceC14.cfg', traces, diag_cfg='TraceC14Diag.cfg', max_diag=2, timeout=2400)
    base.name_rejections(v, traces, 'TraceC14Judge.cfg')
    fps = base.report(chk, v, traces, metas, _fp)
    chk.log(f'trace validation: {len(v.accepted)} accepted, {len(v.rejected)} rejected, '
            f'{sum(1 for m in v.accepted.values() if m)} accepted with a tolerated deviation')
    if fps:
        cnt = Counter(fps.values())
        chk.cov['rejections_by_fingerprint'] = dict(cnt)
        chk.log('rejections by fingerprint: ' + ', '.join(f'{k} x{n}' for k, n in sorted(cnt.items())))
    if vacuous and not chk.violations:
        raise MachineryFailure('vacuous run: no forward or no reply was observed at all')
    selftest(chk, [traces[t - 1] for t in sorted(v.accepted)])
    chk.assumptions += [
        'Matches(asker, query) is computed in the trace spec from the share recorded in the trace: a file matches '
        'when every included word occurs as a whole word in its path below the shared directory and no excluded '
        'word does (case-insensitive); locked = file of the friends-only directory and asker not a friend. '
        'Server-excluded phrases (ExcludedSearchPhrases) are an environment action: the trace names the files whose '
        'path contains a phrase literally (ignoring case) and Matches leaves them out; queries that contain the '
        'phrase but match other paths are generated. Wildcards and nested shared directories are C07/C08 matters',
        'a current child is a peer whose distributed connection was taken as child and has not been closed since '
        '(bound from the snapshots and the links, not from the client\'s list at the time of the request)',
        'now and then an unrelated connection (a bystander\'s peer connection, a candidate that is neither parent nor '
        'child) closes in the loop slot in which a request arrives; GetUserStats outcomes that lower the child limit '
        'while children are connected are part of the generated histories',
        'search requests come from the server only while there is no parent, and over the distributed network only '
        'from the current parent (the statement speaks of nothing else)',
        'every asker (also the own user name) has an address at the scripted server and accepts the connection',
        'the tree is built as in C13; accepted children do not announce levels (C13, finding F13-2)',
    ]


def replay(chk: Check, d: dict):
    """./check C14 --replay FILE (core.main_for passes the loaded file): re-execute the recorded
    stimuli on the code under test and judge the new execution."""
    path = 'replay file'
    meta = (d.get('replay') or {}).get('meta') or {}
    if not meta.get('stimuli'):
        raise MachineryFailure('the replay file holds no stimuli')
    _, world = concretise([], chk.rng, variant=int(meta.get('variant', 0)))
    world['alias'] = dict(meta.get('alias') or {})
    tmp = tempfile.mkdtemp(prefix='c14-')
    try:
        ev, info = run_schedule([tuple(s) for s in meta['stimuli']], hold=bool(meta.get('hold', True)), tmpdir=tmp, **world)
    finally:
        shutil.rmtree(tmp, ignore_errors=True)
    chk.count(('replay', path))
    chk.sample(dict(meta=meta, trace=[e for e in ev if e['ev'] != 'snap'][:80]))
    v = tlc.validate_traces(TRACE, 'TraceC14.cfg', [ev], diag_cfg='TraceC14Diag.cfg', max_diag=1, timeout=600)
    base.name_rejections(v, [ev], 'TraceC14Judge.cfg')
    base.report(chk, v, [ev], [meta], _fp)
    chk.log(f'replayed {path}: {"accepted" if v.accepted else "rejected"}')


def selftest(chk: Check, traces):
    bad, kinds = [], []

    def find(pred):
        for tr in traces:
            for i, e in enumerate(tr):
                if pred(tr, i, e):
                    return tr, i
        return None, None

    tr, i = find(lambda tr, i, e: e['ev'] == 'pf' and e.get('kind') == 'srch' and e.get('u') != 'me')
    if tr:
        c = copy.deepcopy(tr)
        c.insert(i + 1, copy.deepcopy(c[i]))
        bad.append(c)
        kinds.append('forward duplicated')
        c = copy.deepcopy(tr)
        c[i]['t'] = c[i]['t'] + 1 if c[i]['t'] < 100 else c[i]['t'] - 1
        bad.append(c)
        kinds.append('forwarded ticket changed')
        c = copy.deepcopy(tr)
        del c[i]
        bad.append(c)
        kinds.append('forward dropped')
        c = copy.deepcopy(tr)
        other = [p for p in ('p1', 'p2', 'p3') if p != c[i]['p'] and p not in
                 next(e for e in reversed(c[:i]) if e['ev'] == 'snap')['children']]
        if other:       # (every peer may be a child in the chosen trace: then this corruption kind is skipped)
            c[i]['p'] = other[0]
            bad.append(c)
            kinds.append('forward to a non-child')
    tr, i = find(lambda tr, i, e: e['ev'] == 'reply' and e['vis'])
    if tr:
        c = copy.deepcopy(tr)
        c[i]['vis'] = c[i]['vis'][1:]
        bad.append(c)
        kinds.append('reply lacks a file')
        c = copy.deepcopy(tr)
        del c[i]
        bad.append(c)
        kinds.append('reply dropped')
        c = copy.deepcopy(tr)
        c.insert(i + 1, copy.deepcopy(c[i]))
        bad.append(c)
        kinds.append('reply duplicated')
        c = copy.deepcopy(tr)
        c[i]['user'] = 'p1'
        bad.append(c)
        kinds.append('reply under another name')
    if len(bad) < 7:
        if chk.violations:
            chk.cov['binding_selftest']['corrupted_traces_rejected'] = 'skipped: too few accepted executions to corrupt'
            return
        raise MachineryFailure('binding self-test found nothing to corrupt')
    cv = tlc.validate_traces(TRACE, 'TraceC14.cfg', bad, max_diag=0, timeout=600)
    chk.cov['binding_selftest']['corrupted_traces_rejected'] = f'{len(cv.rejected)}/{len(bad)} ({", ".join(kinds)})'
    if len(cv.rejected) != len(bad):
        ok = [kinds[t - 1] for t in cv.accepted]
        raise MachineryFailure(f'corrupted traces were accepted by the trace spec: {ok}')

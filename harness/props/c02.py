"""C02 - malformed or hostile bytes never crash a reader or desynchronise the stream (spec: Framing).

A: TLC behaviours of Framing (simulation of the 3-frame model, in the thorough tier also the edge
   cover of the 2-frame state graph) are projected onto what the adversary controls - connection
   kind, frame sequence, segmentation, EOF / silence / local close, and for every Hostile slot
   whether it should decode - and concretised many ways (harness/lib_c02.py).  Each scenario is
   fed, segment by segment, to a real logged-in SoulSeekClient on the simulated network: through
   the server connection, an accepted peer / distributed connection, or as the first frame of an
   accepted connection.  All managers' handlers run.
B: the recording (MessageReceivedEvent, ConnectionStateChangedEvent, PeerInitializedEvent,
   completion of the reading task, quiescent points) is validated against FramingTrace.
"""
from __future__ import annotations

import asyncio
import copy
import logging
import os
import re
import shutil
import signal
import tempfile
from typing import Optional

from .. import tlc, vloop
from .. import lib_c02 as L
from ..core import Check, MachineryFailure

SPEC = 'Framing/Framing.tla'
TRACE = 'Framing/FramingTrace.tla'
HDR_UNITS = 2                  # HdrLen of the exhaustive configs
BIG = 2_000_000_000            # announced lengths are logged capped (TLC integers are 32 bit)
SENT_BASE = 900_000

_FEED = re.compile(r'FeedSegment\((\d+)\)')


class Hang(BaseException):
    pass


# ---------------------------------------------------------------------------
# behaviours -> abstract schedules
# ---------------------------------------------------------------------------

def project(labels):
    """What the adversary / environment does in a behaviour, and the decode outcome it wants for
    every frame that gets decoded."""
    stim, choices, cur = [], {}, 1
    for lab in labels:
        m = _FEED.match(lab)
        if m:
            stim.append(('feed', int(m.group(1))))
        elif lab == 'FeedEof':
            stim.append(('eof',))
        elif lab == 'Tick':
            stim.append(('tick',))
        elif lab == 'LocalCloseRequest':
            stim.append(('lclose',))
        elif lab == 'DecodeReject':
            choices[cur] = 'reject'
            cur += 1
        elif lab == 'DecodeMsg':
            choices[cur] = 'msg'
        elif lab in ('HandlerDone', 'HandlerRaises'):
            cur += 1
        elif lab.startswith('InitOk'):
            choices[cur] = 'init:' + lab[8]
            cur += 1
        elif lab == 'InitBad':
            choices[cur] = 'initbad'
            cur += 1
    return tuple(stim), tuple(sorted(choices.items()))


def abstract_key(st, labels):
    frames = tuple((str(f['k']), int(f['b']), int(f['a'])) for f in st['stream'])
    stim, choices = project(labels)
    return (str(st['kind']), frames, stim, choices)


# ---------------------------------------------------------------------------
# concretisation
# ---------------------------------------------------------------------------

_PAD = 'abcdefghijklmnopqrstuvwxyz0123456789'
# paddings of the peer sentinel's text field: frames below and beyond 128 and 256 bytes (the obfuscation
# key array wraps around there) and a few KiB
PADS = (0, 0, 0, 40, 100, 120, 140, 250, 270, 700)


def sentinel(M, fam, sid, pad=0):
    """The Sentinel(id) of a reader family.  The peer sentinel carries a text of chosen length, so
    sentinels come in several frame sizes."""
    if fam == 'server':
        return M.ParentInactivityTimeout.Response(sid)
    if fam == 'peer':
        text = (_PAD * (pad // len(_PAD) + 1))[sid % 7:][:pad]
        return M.PeerPlaceInQueueReply.Request('sentinel-%d-%s.mp3' % (sid, text), sid)
    return M.DistributedChildDepth.Request(sid)


SENT_FAM = {'ParentInactivityTimeout.Response': 'server', 'PeerPlaceInQueueReply.Request': 'peer',
            'DistributedChildDepth.Request': 'dist'}
SENT_FIELD = {'ParentInactivityTimeout.Response': 'timeout', 'PeerPlaceInQueueReply.Request': 'place',
              'DistributedChildDepth.Request': 'depth'}


class Concretiser:
    def __init__(self, rng):
        from aioslsk.protocol import messages as M
        self.M = M
        self.rng = rng
        self.gen = L.Gen(rng)
        self.host = {k: L.Hostile(rng, self.gen, k) for k in ('server', 'peer', 'dist', 'init')}
        self.sid = SENT_BASE
        self.cat_counts: dict = {}
        self.class_counts: dict = {}

    def _next_sid(self):
        self.sid += 1
        return self.sid

    def new_sentinel(self, fam):
        """-> (sid, pad, message)"""
        sid = self._next_sid()
        pad = self.rng.choice(PADS) if fam == 'peer' else 0
        return sid, pad, sentinel(self.M, fam, sid, pad)

    def _hostile_body(self, fam, want, units):
        """units: abstract body length (0 empty, 1 one byte, >= 2 anything longer)."""
        r = self.rng
        h = self.host[fam]
        if units == 0 and r.random() < 0.3:
            return b'', 'empty', ''
        if units == 1:
            c = r.choice(h.classes)
            code = L.code_bytes(c)
            if len(code) == 1 and r.random() < 0.5:
                return code, 'code_only', c.__qualname__
            return bytes([r.getrandbits(8)]), 'one_byte', ''
        if want == 'msg' or (want is None and r.random() < 0.35):
            cls = h.next_class() if r.random() < 0.8 else None
            return h.valid(cls)
        return h.body(minlen=2)

    def build(self, key, preamble: Optional[bool] = None):
        """abstract schedule -> scenario dict (JSON-able)."""
        kind, aframes, stim, choices = key
        choices = dict(choices)
        r = self.rng
        M = self.M
        variant = 'outgoing' if kind in ('peer', 'dist') and r.random() < 0.3 else 'accepted'
        obf = kind != 'server' and variant == 'accepted' and r.random() < 0.5
        fam = {'server': 'server', 'peer': 'peer', 'dist': 'dist', 'accept': 'init'}[kind]
        frames = []
        obf_now = obf if kind != 'dist' else False      # D connections are never obfuscated after init
        demote = False                                   # after a hostile init nothing is a sentinel
        for i, (k, bu, au) in enumerate(aframes, start=1):
            want = choices.get(i)
            rec = dict(k=k, id=0, cat='', cls='', obf=obf_now, au=au)
            if k == 'I':
                typ = 'D' if want == 'init:D' else 'P' if want == 'init:P' else r.choice(['P', 'D'])
                user = r.choice(['peer1', 'peer2', 'üser']) + 'u' * r.choice((0, 0, 0, 110, 130, 300))
                msg = M.PeerInit.Request(user, typ, r.choice([0, 0, 5]))
                body = msg.serialize()[4:]
                rec.update(id=i, cat='init', cls='PeerInit.Request', typ=typ, user=user)
                nxt_fam, nxt_obf = ('peer', obf) if typ == 'P' else ('dist', False)
            elif k == 'S':
                if demote:
                    body = sentinel(M, fam, self._next_sid()).serialize()[4:]
                    rec.update(k='H', cat='after_hostile_init', cls='')
                else:
                    sid, pad, msg = self.new_sentinel(fam)
                    body = msg.serialize()[4:]
                    rec.update(id=sid, cat='sentinel', cls=type(msg).__qualname__, pad=pad)
            elif k == 'H':
                if fam == 'init':
                    body, cat, cls = self._hostile_init(want, bu)
                    nxt_fam, nxt_obf = 'peer', obf
                    demote = True
                else:
                    body, cat, cls = self._hostile_body(fam, want, bu)
                rec.update(cat=cat, cls=cls)
            else:   # 'L'
                present = 0 if au == 0 else r.randrange(1, 9) if au == 1 else r.randrange(9, 60)
                if present and r.random() < 0.5:
                    # what follows the lying header looks like further frames
                    filler = b''.join(L.frame(sentinel(M, fam if fam != 'init' else 'peer', self._next_sid()).serialize()[4:])
                                      for _ in range(3))
                    data = filler[:present]
                else:
                    data = bytes(r.getrandbits(8) for _ in range(present))
                extra = r.choice([1, 2, 100, 70000, 0xFFFFFFFF - present])
                claimed = present + extra
                frm = L.U32.pack(claimed) + data
                w = L.wire(frm, obf_now, bytes(r.getrandbits(8) for _ in range(4)))
                h = 8 if obf_now else 4
                rec.update(hex=w.hex(), h=h, b=min(claimed, BIG), a=present, cat='lying')
                frames.append(rec)
                continue
            w = L.wire(L.frame(body), obf_now, bytes(r.getrandbits(8) for _ in range(4)))
            h = 8 if obf_now else 4
            rec.update(hex=w.hex(), h=h, b=len(body), a=len(body))
            frames.append(rec)
            self.cat_counts[rec['cat']] = self.cat_counts.get(rec['cat'], 0) + 1
            if rec['cat'] == 'valid':
                self.class_counts[rec['cls']] = self.class_counts.get(rec['cls'], 0) + 1
            if fam == 'init':
                fam, obf_now = nxt_fam, nxt_obf
        # abstract offsets -> byte offsets
        amap = {0: 0}
        apos = bpos = 0
        for rec, (k, bu, au) in zip(frames, aframes):
            hb, ab = rec['h'], rec['a']
            cuts_h = sorted(r.sample(range(1, hb), HDR_UNITS - 1))
            for u, c in enumerate(cuts_h, start=1):
                amap[apos + u] = bpos + c
            amap[apos + HDR_UNITS] = bpos + hb
            if au >= 1:
                ncut = min(au - 1, max(ab - 1, 0))
                inner = sorted(r.sample(range(1, ab), ncut)) if ncut else []
                for u in range(1, au):
                    amap[apos + HDR_UNITS + u] = bpos + hb + (inner[u - 1] if u <= ncut else ab)
            amap[apos + HDR_UNITS + au] = bpos + hb + ab     # the abstract end of a frame is its real end
            apos += HDR_UNITS + au
            bpos += hb + ab
        stimuli, ap, bp = [], 0, 0
        for s in stim:
            if s[0] == 'feed':
                ap += s[1]
                nb = amap[ap] - bp
                bp = amap[ap]
                if nb > 0:
                    stimuli.append(['feed', nb])
            elif s[0] == 'eof' and r.random() < 0.3:
                stimuli.append(['eof', 'reset'])
            else:
                stimuli.append([s[0]])
        if preamble is None:
            preamble = r.random() < 0.6
        return dict(kind=kind, obf=obf, variant=variant, preamble=preamble, raiser=r.random() < 0.4,
                    logging=r.random() < 0.15,
                    frames=[{k: v for k, v in f.items() if k != 'au'} for f in frames], stimuli=stimuli)

    def _hostile_init(self, want, units):
        r = self.rng
        M = self.M
        if units == 0 and r.random() < 0.3:
            return b'', 'empty', ''
        if units == 1:
            return bytes([r.choice([0, 1, 2, 255])]), 'one_byte', ''
        if want is not None and want.startswith('init:'):
            typ = want[5]
            if typ == 'F':
                msg = M.PeerInit.Request(r.choice(['peer1', '']), 'F', r.choice([0, 7]))
            else:
                # decodable but odd inits: empty user name, long type, uint64 ticket
                msg = M.PeerInit.Request(r.choice(['', 'peer1', 'me', 'x' * 300]), r.choice([typ, typ, 'X', '', typ * 2]), 0)
            body = msg.serialize()[4:]
            if r.random() < 0.3:
                body = body[:-4] + bytes(8)         # ticket sent as uint64
            return body, 'valid', 'PeerInit.Request'
        if r.random() < 0.15:
            msg = M.PeerPierceFirewall.Request(r.choice([0, 1, 12345, 0xFFFFFFFF]))   # unknown ticket
            return msg.serialize()[4:], 'valid', 'PeerPierceFirewall.Request'
        return self.host['init'].body(minlen=2)

    def free(self, kind=None):
        """A scenario not derived from a TLC behaviour: longer stream, byte-level random segmentation."""
        r = self.rng
        kind = kind or r.choice(['server', 'peer', 'dist', 'accept'])
        n = r.randrange(3, 9)
        af = []
        for i in range(n):
            if i == 0 and kind == 'accept':
                af.append(r.choice([('I', 2, 2), ('I', 2, 2), ('H', 2, 2)]))
            else:
                af.append(r.choice([('S', 2, 2)] * 3 + [('H', 2, 2)] * 7 + [('H', 0, 0), ('H', 1, 1)]))
        if r.random() < 0.2:
            af.append(('L', 3, r.choice([0, 1, 2])))
        sc = self.build((kind, tuple(af), (), ()))
        total = sum(f['h'] + f['a'] for f in sc['frames'])
        pos, stimuli = 0, []
        mode = r.choice(['bytes', 'chunks', 'whole', 'frames'])
        if mode == 'bytes' and total > 1200:
            mode = 'chunks'

        ends, acc = [], 0
        for f in sc['frames']:
            acc += f['h'] + f['a']
            ends.append(acc)
        while pos < total:
            if mode == 'bytes':
                nb = r.choice([1, 1, 2, 3])
            elif mode == 'chunks':
                nb = r.randrange(1, 40)
            elif mode == 'frames':
                nb = next(e for e in ends if e > pos) - pos
            else:
                nb = total
            nb = min(nb, total - pos)
            stimuli.append(['feed', nb])
            pos += nb
        end = r.random()
        if end < 0.25:
            stimuli.append(['eof'])
        elif end < 0.4:
            stimuli.append(['tick'])
        elif end < 0.5:
            stimuli.append(['lclose'])
        sc['stimuli'] = stimuli
        sc['free'] = True
        return sc


# ---------------------------------------------------------------------------
# running a scenario on the real client
# ---------------------------------------------------------------------------

PORT, OPORT = 61000, 61001


class _FormatSink(logging.Handler):
    """Formats every record like a StreamHandler would (and, like it, swallows formatting errors)."""

    def __init__(self, stats):
        super().__init__()
        self.stats = stats

    def emit(self, record):
        try:
            self.format(record)
            self.stats['log_records'] = self.stats.get('log_records', 0) + 1
        except Exception:
            self.stats['log_format_errors'] = self.stats.get('log_format_errors', 0) + 1


class Runner:
    def __init__(self, tmpdir):
        self.tmpdir = tmpdir
        self.stats = dict(unhandled_elsewhere=0, unhandled_examples=[], msg_classes={})

    def run(self, sc) -> list:
        events: list = []
        self._events = events
        old = signal.signal(signal.SIGALRM, self._alarm)
        signal.setitimer(signal.ITIMER_REAL, 30)
        self._st = None
        lg = logging.getLogger('aioslsk')
        saved = (logging.root.manager.disable, lg.level, lg.propagate)
        sink = _FormatSink(self.stats)
        if sc.get('logging'):
            # with logging on, the library's log calls (LoggerAdapter.process, LogRecord creation with
            # extra=connection.__dict__, %-formatting of messages) run inside the reader as in production
            logging.disable(logging.NOTSET)
            lg.setLevel(logging.DEBUG)
            lg.propagate = False
            lg.addHandler(sink)
        try:
            try:
                vloop.run(lambda lp: self._main(lp, sc, events))
            except Hang:
                pass                      # already recorded by _alarm
        finally:
            signal.setitimer(signal.ITIMER_REAL, 0)
            signal.signal(signal.SIGALRM, old)
            lg.removeHandler(sink)
            logging.disable(saved[0])
            lg.setLevel(saved[1])
            lg.propagate = saved[2]
        return events

    def _alarm(self, signum, frame):
        """30 s of wall time in one scenario (they take milliseconds).  The exception aborts whatever
        callback is running; asyncio stores it in that task and the loop goes on, so the verdict is
        recorded here."""
        st, events = self._st, self._events
        if st is not None and st.get('in_tick'):
            # virtual time cannot advance while some task of the client spins on zero-delay sleeps
            # (seen: WishlistInterval(interval=0)); a limit of the virtual loop, not a reader that
            # hangs.  The trace ends before the tick.
            self.stats['time_stuck_in_tick'] = self.stats.get('time_stuck_in_tick', 0) + 1
            while events and events[-1]['ev'] != 'tick':
                events.pop()
            if events:
                events.pop()
        elif st is None or st.get('recording'):
            events.append(dict(ev='hang'))
        if st is not None:
            st['recording'] = False
        raise Hang()

    async def _main(self, loop, sc, events):
        from ..simnet import SimNet
        from ..simserver import ScriptedServer, make_settings, make_client
        from aioslsk.protocol import messages as M
        from aioslsk.protocol import obfuscation
        from aioslsk.events import MessageReceivedEvent, ConnectionStateChangedEvent, PeerInitializedEvent
        from aioslsk.network.connection import CloseReason

        krng = __import__('random').Random(1234)
        obfuscation.generate_key = lambda: bytes(krng.getrandbits(8) for _ in range(4))

        net = SimNet(loop).install()
        keep = []
        try:
            srv = await ScriptedServer(net).start()
            # the scripted server must never answer by itself: its bytes would land inside our frames
            for cls in (M.GetPeerAddress.Request, M.ConnectToPeer.Request, M.CannotConnect.Request):
                srv.handlers[cls] = lambda *a: None
            shared = os.path.join(self.tmpdir, 'shared')
            settings = make_settings('me', port=PORT, obfuscated_port=OPORT,
                                     download_dir=os.path.join(self.tmpdir, 'dl'),
                                     shared=[dict(path=shared, share_mode='everyone')],
                                     users=dict(friends=['friend1']))
            client = make_client(settings)
            await client.start()
            await client.shares.scan()
            await client.login()
            await vloop.settle(loop, 200)
            sess = srv.sessions[0]
            network = client.network
            kind = sc['kind']

            if sc.get('preamble'):
                # what a server sends right after a login
                sess.send(M.RoomList.Response(rooms=['room1', 'room2'], rooms_user_count=[3, 1],
                                              rooms_private_owned=[], rooms_private_owned_user_count=[],
                                              rooms_private=['privroom'], rooms_private_user_count=[2],
                                              rooms_private_operated=[]),
                          M.ParentMinSpeed.Response(1), M.ParentSpeedRatio.Response(50),
                          M.WishlistInterval.Response(720),
                          M.PrivilegedUsers.Response(['friend1']),
                          M.ExcludedSearchPhrases.Response(['banned']))
                await vloop.settle(loop, 400)
                try:
                    await client.searches.search('song')
                    await client.transfers.download('peer1', 'music\\song.mp3')
                except Exception as exc:     # setup, not under test
                    raise MachineryFailure(f'scenario setup failed: {exc!r}')
                await vloop.settle(loop, 400)

            # bystander: an established peer connection
            bep = await net.dial(PORT)
            bep.send_message(M.PeerInit.Request('bystander', 'P', 0))
            await vloop.settle(loop, 200)
            bconn = next((c for c in network.peer_connections if c.port == bep.link.addr[0][1]), None)
            if bconn is None:
                raise MachineryFailure('bystander connection not found')
            keep.append(bep)

            bys = {id(network.listening_connections[0]): 'listen0', id(network.listening_connections[1]): 'listen1',
                   id(bconn): 'peer'}
            if kind != 'server':
                bys[id(network.server_connection)] = 'server'

            # the connection under test
            accept_task = None
            if kind == 'server':
                conn = network.server_connection
                feeder = sess.ep.writer
            elif sc.get('variant') == 'outgoing':
                # the client dials a scripted peer: told to by the server (ConnectToPeer, kind peer) or
                # because the server named it as a potential distributed parent (kind dist)
                from ..simserver import ScriptedPeer
                from aioslsk.protocol import primitives as P
                pport = 2235 if kind == 'peer' else 2236
                sp = await ScriptedPeer(net, 'peer1' if kind == 'peer' else 'dparent', pport).listen()
                keep.append(sp)
                if kind == 'peer':
                    sess.send(M.ConnectToPeer.Response('peer1', 'P', '10.0.0.5', pport, 4242, False, 0, 0))
                else:
                    sess.send(M.PotentialParents.Response([P.PotentialParent('dparent', '10.0.0.6', pport)]))
                await vloop.settle(loop, 400)
                conn = next((c for c in network.peer_connections if c.port == pport), None)
                if conn is None or not sp.accepted or conn.state.name != 'CONNECTED':
                    raise MachineryFailure(f'outgoing {kind} connection was not established')
                feeder = sp.accepted[0].writer
            else:
                ep = await net.dial(OPORT if sc['obf'] else PORT)
                keep.append(ep)
                feeder = ep.writer
                name = f'sim-accept-{ep.link.id}'
                accept_task = next((t for t in asyncio.all_tasks(loop) if t.get_name() == name), None)
                await vloop.settle(loop, 200)
                conn = next((c for c in network.peer_connections if c.port == ep.link.addr[0][1]), None)
                if conn is None:
                    raise MachineryFailure('accepted connection not found')
                if kind in ('peer', 'dist'):
                    init = M.PeerInit.Request('peer1', 'P' if kind == 'peer' else 'D', 0).serialize()
                    feeder.write(L.wire(init, sc['obf'], b'\x01\x02\x03\x04'))
                    await vloop.settle(loop, 400)
                    if conn.state.name in ('CLOSING', 'CLOSED'):
                        raise MachineryFailure(f'{kind} connection did not survive its own valid init')

            if sc.get('raiser'):
                # a response waiter whose (user supplied) field predicate raises: on_message_received
                # raises out of the callback for every valid message of these classes
                from aioslsk.network.network import ExpectedResponse
                from dataclasses import fields as dc_fields

                def raiser(value):
                    raise ValueError('matcher predicate failed')
                for f in sc['frames']:
                    if f['cat'] == 'valid' and f['cls'] and f['k'] == 'H':
                        outer, _, inner = f['cls'].partition('.')
                        cls = getattr(getattr(M, outer, None), inner, None)
                        fl = dc_fields(cls) if cls is not None else ()
                        if fl:
                            er = ExpectedResponse(type(conn), cls, fields={fl[0].name: raiser})
                            keep.append(er)
                            network.register_response_future(er)

            # what each Sentinel(id) looked like when it was sent: delivered means delivered as sent
            sids = {f['id']: sentinel(M, SENT_FAM[f['cls']], f['id'], f.get('pad', 0))
                    for f in sc['frames'] if f['k'] == 'S' and f.get('cls') in SENT_FAM}
            init_frame = sc['frames'][0] if kind == 'accept' and sc['frames'] and sc['frames'][0]['k'] == 'I' else None
            st = dict(closing=False, peer_init=False, last_cls='', n_unhandled=len(loop.unhandled), msgs=0,
                      recording=True, spinning=False, in_tick=False)
            self._st = st
            tasks_watched = set()

            def watch_reader():
                rt = getattr(conn, '_reader_task', None)
                if rt is not None and id(rt) not in tasks_watched:
                    tasks_watched.add(id(rt))
                    keep.append(rt)
                    rt.add_done_callback(on_reader_done)

            def how_of(task):
                if task.cancelled():
                    return 'cancelled'
                exc = task.exception()
                return 'returned' if exc is None else f'raised:{type(exc).__name__}'

            def on_reader_done(task):
                if st['recording']:
                    events.append(dict(ev='reader_done', how=how_of(task), after=st['last_cls']))

            def on_accept_done(task):
                if not st['recording']:
                    return
                how = how_of(task)
                if not st['peer_init']:
                    events.append(dict(ev='reader_done', how=how, after='(init)'))
                elif how != 'returned':
                    events.append(dict(ev='accept_raised', how=how))

            def on_msg(event):
                if st['recording'] and event.connection is conn:
                    m = event.message
                    cls = type(m).__qualname__
                    fld = SENT_FIELD.get(cls)
                    v = getattr(m, fld, 0) if fld else 0
                    st['last_cls'] = cls
                    st['msgs'] += 1
                    self.stats['msg_classes'][cls] = self.stats['msg_classes'].get(cls, 0) + 1
                    sid = 0
                    if v in sids:
                        sid = v if m == sids[v] else -1          # -1: a sentinel with altered content
                    events.append(dict(ev='msg', cls=cls, sid=sid))

            def on_msg_end(event):
                # registered with the lowest priority: every other listener has been called
                if st['recording'] and event.connection is conn:
                    events.append(dict(ev='hdone'))

            def on_state(event):
                c = event.connection
                if not st['recording']:
                    return
                if c is conn:
                    if event.state.name in ('CLOSING', 'CLOSED'):
                        st['closing'] = True
                    events.append(dict(ev='state', st=event.state.name, reason=event.close_reason.name))
                elif id(c) in bys and event.close_reason.name != 'TIMEOUT':
                    # (a bystander that runs into its own read timeout while the harness lets time
                    # pass is the environment's doing, not this connection's)
                    events.append(dict(ev='ostate', which=bys[id(c)], st=event.state.name))

            def on_peer_init(event):
                if st['recording'] and event.connection is conn:
                    st['peer_init'] = True
                    t = conn.connection_type
                    typ = t if t in ('P', 'F') else 'D'
                    if init_frame is not None and (conn.username != init_frame.get('user') or t != init_frame.get('typ')):
                        typ = 'ALTERED'              # a valid PeerInit was taken for something else
                    events.append(dict(ev='peer_init', typ=typ, raw=str(t)[:8]))
                    watch_reader()

            keep.extend([on_msg, on_msg_end, on_state, on_peer_init])
            client.events.register(MessageReceivedEvent, on_msg, priority=0)
            client.events.register(MessageReceivedEvent, on_msg_end, priority=10 ** 9)
            client.events.register(ConnectionStateChangedEvent, on_state, priority=0)
            client.events.register(PeerInitializedEvent, on_peer_init, priority=0)
            if kind == 'accept' and accept_task is not None:
                accept_task.add_done_callback(on_accept_done)

            events.append(dict(ev='init', kind=kind,
                               frames=[dict(k=f['k'], id=f['id'], h=f['h'], b=f['b'], a=f['a']) for f in sc['frames']]))
            watch_reader()

            def unhandled_check():
                new = loop.unhandled[st['n_unhandled']:]
                st['n_unhandled'] = len(loop.unhandled)
                for ctx in new:
                    t = ctx.get('task') or ctx.get('future')
                    if t is not None and (id(t) in tasks_watched or t is accept_task):
                        log(ev='unhandled', what=str(ctx.get('message'))[:120])
                    else:
                        self.stats['unhandled_elsewhere'] += 1
                        if len(self.stats['unhandled_examples']) < 5:
                            self.stats['unhandled_examples'].append(
                                f"{ctx.get('message')} / {ctx.get('exception')!r}"[:300])

            def log(**e):
                if st['recording']:
                    events.append(e)

            async def quiet():
                for _ in range(400):
                    await asyncio.sleep(0)
                    if len(loop._ready) == 0:
                        break
                else:
                    # never quiescent: a task of the client spins on zero-delay sleeps, so the virtual
                    # clock cannot be advanced any more in this scenario
                    if not st['spinning']:
                        st['spinning'] = True
                        self.stats['spinning_scenarios'] = self.stats.get('spinning_scenarios', 0) + 1
                unhandled_check()
                log(ev='quiet')

            async def tick(dt):
                if st['spinning'] or not st['recording']:
                    return
                log(ev='tick')
                st['in_tick'] = True
                await asyncio.sleep(dt)
                st['in_tick'] = False

            data = b''.join(bytes.fromhex(f['hex']) for f in sc['frames'])
            pos = 0
            eof = False
            await quiet()
            for s in sc['stimuli']:
                if s[0] == 'feed':
                    if eof:
                        continue
                    chunk = data[pos:pos + s[1]]
                    pos += len(chunk)
                    if not chunk:
                        continue
                    log(ev='feed', n=len(chunk))
                    feeder.write(chunk)
                elif s[0] == 'eof':
                    if eof:
                        continue
                    eof = True
                    log(ev='eof')
                    if len(s) > 1 and s[1] == 'reset':
                        feeder.link.cut('reset')         # connection reset instead of an orderly close
                    else:
                        feeder.close()
                elif s[0] == 'tick':
                    await tick(float(getattr(conn, 'read_timeout', 60) or 60) + 1)
                elif s[0] == 'lclose':
                    log(ev='lclose')
                    await conn.disconnect(CloseReason.REQUESTED)
                await quiet()
            # a handler may be waiting for something: give it (virtual) time, visibly
            want = sum(1 for f in sc['frames'] if f['k'] == 'S')
            for _ in range(8):
                got = sum(1 for e in events if e['ev'] == 'msg' and e['sid'])
                if st['closing'] or eof or got >= want or st['spinning']:
                    break
                await tick(5)
                await quiet()
            st['recording'] = False
        finally:
            net.uninstall()
        return events


# ---------------------------------------------------------------------------
# verdict helpers
# ---------------------------------------------------------------------------

def diagnose(trace) -> dict:
    """Why was `trace` rejected?  (tlc.diagnose_trace reports the first deadlock TLC meets, which for
    this spec is usually a dead-end of the Msg/Reject choice, not the real obstacle.)  The longest
    accepted prefix gives the first event no behaviour of the spec explains; the same prefix is then
    run with the properties as invariants to see whether a property - rather than a missing action -
    is what rejects it."""
    import json
    prefixes = [trace[:k] for k in range(1, len(trace) + 1)]
    pv = tlc.validate_traces(TRACE, 'Trace.cfg', prefixes, max_diag=0, timeout=900)
    ok = max(pv.accepted) if pv.accepted else 0
    event = trace[ok] if ok < len(trace) else None
    info = dict(kind='unexplained_event', name='NoSpecActionMatches', at=ok + 1, event=event, detail='')
    d = tempfile.mkdtemp(prefix='c02diag-')
    try:
        f = os.path.join(d, 'one.json')
        with open(f, 'w') as fh:
            json.dump([trace[:ok + 1]], fh)
        res = tlc.run_tlc(TRACE, 'TraceDiag.cfg', workers=1, deadlock=False, cont=True, env={'TRACE_FILE': f}, timeout=600)
        best = None
        for iss in res.issues:
            if iss.kind in ('invariant', 'action_property') and iss.trace:
                lv = iss.trace[-1][1].get('l')
                if lv == ok + 2 and (best is None or iss.name == 'NoSilentStop'):
                    best = iss
        if best is not None:
            info.update(kind='property', name=best.name.lstrip('T') if best.name.startswith('T') and best.name[1:2].isupper() else best.name,
                        detail=tlc._fmt_trace_tail(best))
    finally:
        shutil.rmtree(d, ignore_errors=True)
    return info


def make_fingerprint(scenarios):
    def fp(tid, info, trace):
        sc = scenarios[tid - 1]
        kind = sc['kind']
        ev = info.get('event') or {}
        at = info.get('at')
        # the frame being processed: count completed frames by the bytes fed so far is not needed -
        # name the last decoded message class instead
        last_cls = ''
        if at:
            for e in trace[:max(0, int(at) - 1)]:
                if e.get('ev') == 'msg':
                    last_cls = e.get('cls', '')
        rd = next((e for e in trace if e.get('ev') == 'reader_done' and e.get('how') != 'returned'), None)
        if info.get('kind') == 'property' and info.get('name') == 'NoSilentStop':
            e = next((x for x in trace if x.get('ev') == 'reader_done'), {})
            return f"C02:reader-stopped-silently:{kind}:{e.get('after') or '-'}:{e.get('how')}"
        if info.get('kind') == 'property':
            return f"C02:{info.get('name')}:{kind}"
        name = ev.get('ev')
        if name == 'state':
            return f"C02:closed-without-reason:{kind}:{ev.get('reason')}:after={last_cls or '-'}"
        if name == 'quiet':
            if rd is not None:
                return f"C02:reader-stopped-silently:{kind}:{rd.get('after') or '-'}:{rd.get('how')}"
            return f"C02:frame-not-delivered-or-connection-not-closed:{kind}"
        if name == 'msg' and ev.get('sid') == -1:
            return f"C02:sentinel-content-altered:{kind}:{ev.get('cls')}"
        if name == 'msg':
            return f"C02:unexpected-delivery:{kind}:{ev.get('cls')}"
        if name == 'peer_init' and ev.get('typ') == 'ALTERED':
            return f"C02:init-content-altered:{kind}"
        if name == 'hang':
            # name the last hostile frame that had been fed completely
            fed = sum(e.get('n', 0) for e in trace[:int(at or 0)] if e.get('ev') == 'feed')
            acc, last = 0, None
            for f in sc['frames']:
                acc += f['h'] + f['a']
                if acc <= fed and f['a'] == f['b'] and f['k'] == 'H':
                    last = f
            return f"C02:does-not-terminate:{kind}:{(last or {}).get('cat', '-')}:{(last or {}).get('cls', '-') or '-'}"
        if name in ('unhandled', 'accept_raised'):
            return f"C02:{name}:{kind}:{ev.get('how') or ev.get('what') or ''}"
        if name == 'ostate':
            return f"C02:other-connection-affected:{kind}:{ev.get('which')}"
        return f"C02:unexplained:{kind}:{name}"
    return fp


# ---------------------------------------------------------------------------

def collect(chk: Check, thorough: bool):
    keys = {}
    num = 10000 if thorough else 1600
    behs, sres = tlc.simulate_behaviours(SPEC, 'MC_sim.cfg', num=num, depth=32, seed=chk.seed + 1, timeout=900)
    for b in behs:
        k = abstract_key(b[0][1], [lab for lab, _ in b[1:]])
        if k[2]:
            keys.setdefault(k, 'sim3')
    chk.cov['sim_behaviours'] = len(behs)
    n_sim = len(keys)
    n_cover = 0
    if thorough:
        g, res = tlc.dump_graph(SPEC, 'MC_quick.cfg', parse_states='init', timeout=1500)
        if not res.ok:
            raise MachineryFailure(f'graph dump failed: {[(i.kind, i.name) for i in res.issues]}')
        paths = tlc.path_cover(g)
        for p in paths:
            k = abstract_key(g.states[p[0][0]], [e[1] for e in p])
            if k[2] and k not in keys:
                keys[k] = 'cover2'
                n_cover += 1
        chk.cov['graph_edges_cover'] = len(g.edges)
        chk.cov['cover_paths'] = len(paths)
    chk.log(f'behaviours: {len(behs)} simulated -> {n_sim} distinct schedules; cover adds {n_cover}')
    return keys


def interesting(key):
    """Prefer schedules that get at least one whole frame to the reader."""
    kind, frames, stim, choices = key
    fed = sum(s[1] for s in stim if s[0] == 'feed')
    first = HDR_UNITS + frames[0][2] if frames else 0
    return fed >= first and frames[0][0] != 'L'


def run(chk: Check, args):
    thorough = chk.tier == 'thorough'
    chk.cov['rule'] = ('scenario = (connection kind, frame sequence, segmentation, EOF/silence/local close, wanted '
                       'decode outcome per Hostile slot) projected from TLC behaviours of Framing, concretised with '
                       'generated bytes (valid messages of every receivable class, truncations, bit flips, 0xFFFFFFFF '
                       'counts, bad text, corrupt zlib, unknown codes, wrong-kind frames, lying prefixes), plus 70 KiB / 200 KiB '
                       'frames (valid and hostile) between sentinels in MSS-sized segments, plus '
                       'free-form longer streams; each is fed to a real logged-in SoulSeekClient in virtual time; '
                       'distinct = distinct (scenario bytes, stimuli); non-trivial = at least one frame was fed whole')
    r = tlc.model_check(SPEC, 'MC_quick.cfg',
                        expect_actions=['FeedSegment', 'FeedEof', 'Tick', 'LocalCloseRequest', 'ReadHeader', 'ReadBody',
                                        'DecodeReject', 'DecodeMsg', 'Deliver', 'HandlerDone', 'HandlerRaises', 'InitOk',
                                        'InitBad', 'EofSeen', 'Timeout', 'Close', 'CloseDone', 'ReaderExit',
                                        'OtherCloses'], timeout=900)
    chk.add_model('Framing <=2 frames (exhaustive)', r)
    rd = tlc.run_tlc(SPEC, 'MC_quick_dev.cfg', timeout=900)
    dev = any(i.name == 'NoSilentStop' for i in rd.issues) and \
        any(i.trace and i.trace[-1][0].startswith('HandlerRaisesBase') for i in rd.issues)
    chk.cov['binding_selftest']['model_with_BaseExcEscapes_violates_NoSilentStop'] = dev
    if not dev:
        raise MachineryFailure('deviation config did not violate NoSilentStop through HandlerRaisesBase')
    if thorough:
        rl = tlc.run_tlc(SPEC, 'MC_live.cfg', timeout=900)
        chk.add_model('Framing <=2 frames, liveness (Progress, ReaderEnds) under fairness', rl)
        rb = tlc.model_check(SPEC, 'MC_big.cfg', timeout=3000)
        chk.add_model('Framing <=3 frames, all hostile/lying lengths, 2 bystanders (exhaustive)', rb)

    keys = collect(chk, thorough)
    order = sorted(keys)
    chk.rng.shuffle(order)
    n_model = 10000 if thorough else 1100
    n_free = 7000 if thorough else 450
    # mostly schedules that get a whole frame to the reader, but also the ones that do not (EOF, silence
    # or a local close in the middle of the very first frame - the only frame of the accept phase)
    rich = [k for k in order if interesting(k)]
    poor = [k for k in order if not interesting(k)]
    n_poor = min(len(poor), n_model // 6)
    order = rich[:n_model - n_poor] + poor[:n_poor]

    conc = Concretiser(chk.rng)
    n_layout = L.selfcheck_layout(L.Gen(chk.rng))
    chk.cov['binding_selftest']['layout_walk_matches_serialize'] = n_layout
    scenarios, metas = [], []
    for k in order:
        scenarios.append(conc.build(k))
        metas.append(dict(source=keys[k], abstract=[k[0], list(k[1]), list(k[2]), list(k[3])]))
    for _ in range(n_free):
        scenarios.append(conc.free())
        metas.append(dict(source='free'))
    # every receivable class at least once, between two sentinels, with and without the login burst
    for fam in ('server', 'peer', 'dist'):
        for cls in conc.host[fam].classes:
            for pre in (False, True):
                sc = handler_scenario(conc, fam, [cls], pre)
                scenarios.append(sc)
                metas.append(dict(source='every-class', cls=cls.__qualname__))
    for fam in ('server', 'peer', 'dist'):
        for i in range(60 if thorough else 6):
            scenarios.append(session_scenario(conc, fam, 60 if fam == 'server' else 24, preamble=i % 2 == 0))
            metas.append(dict(source='session'))
    for fam in ('server', 'peer', 'dist'):
        for sc in count_scenarios(conc, fam):
            scenarios.append(sc)
            metas.append(dict(source='count-at-end'))
    # big frames (beyond any plausible chunking threshold) between sentinels, in MSS-sized and odd segments
    combos = []
    for fam in ('server', 'peer', 'dist'):
        for size in LARGE_SIZES:
            for how in ('valid', 'hostile'):
                combos.append((fam, size, how, False, 'accepted'))
    for size in LARGE_SIZES:
        for how in ('valid', 'hostile'):
            combos.append(('peer', size, how, True, 'accepted'))          # obfuscated
    combos.append(('peer', LARGE_SIZES[0], 'valid', False, 'outgoing'))
    combos.append(('dist', LARGE_SIZES[0], 'hostile', False, 'outgoing'))
    for rep in range(4 if thorough else 1):
        for j, (fam, size, how, obf, variant) in enumerate(combos):
            seg = (MSS, 9000, 65536, 4096)[(j + rep) % 4] if thorough else (MSS if j % 3 else 9000)
            scenarios.append(large_scenario(conc, fam, size, how, seg, obf=obf, variant=variant, preamble=bool(rep % 2)))
            metas.append(dict(source='large-frame', size=size, how=how, seg=seg))
    chk.log(f'{len(scenarios)} scenarios built; hostile categories: {dict(sorted(conc.cat_counts.items()))}')

    tmp = tempfile.mkdtemp(prefix='c02-')
    os.makedirs(os.path.join(tmp, 'shared', 'music'))
    os.makedirs(os.path.join(tmp, 'dl'))
    for fn in ('song.mp3', 'other.flac'):
        with open(os.path.join(tmp, 'shared', 'music', fn), 'wb') as fh:
            fh.write(b'x' * 100)
    runner = Runner(tmp)
    traces = []
    cwd = os.getcwd()
    try:
        os.chdir(tmp)
        hangs = 0
        for i, sc in enumerate(scenarios):
            ev = runner.run(sc)
            traces.append(ev)
            whole = any(e['ev'] == 'msg' or e['ev'] == 'peer_init' for e in ev) or \
                sum(e.get('n', 0) for e in ev if e['ev'] == 'feed') >= (sc['frames'][0]['h'] + sc['frames'][0]['b'] if sc['frames'] else 1)
            chk.count((tuple(f['hex'] for f in sc['frames']), tuple(map(tuple, sc['stimuli'])), sc['kind'], sc['preamble']),
                      nontrivial=whole)
            if i and i % 500 == 0:
                chk.log(f'  {i} scenarios run')
            if any(e['ev'] == 'hang' for e in ev[-3:]):
                hangs += 1
                if hangs >= 3:
                    chk.log(f'  three scenarios hung (30 s wall each): not running the remaining {len(scenarios) - i - 1}')
                    break
    finally:
        os.chdir(cwd)
        shutil.rmtree(tmp, ignore_errors=True)
    scenarios, metas = scenarios[:len(traces)], metas[:len(traces)]
    chk.log(f'ran {len(traces)} scenarios on the real client; delivered classes: {len(runner.stats["msg_classes"])}')
    chk.cov['hostile_categories'] = dict(sorted(conc.cat_counts.items()))
    chk.cov['delivered_message_classes'] = len(runner.stats['msg_classes'])
    chk.cov['valid_classes_fed'] = len(conc.class_counts)
    chk.cov['unhandled_in_other_tasks'] = runner.stats['unhandled_elsewhere']
    chk.cov['scenarios_with_spinning_task'] = runner.stats.get('spinning_scenarios', 0)
    chk.cov['ticks_abandoned_time_stuck'] = runner.stats.get('time_stuck_in_tick', 0)
    chk.cov['log_records_formatted'] = runner.stats.get('log_records', 0)
    chk.cov['log_format_errors'] = runner.stats.get('log_format_errors', 0)
    if runner.stats.get('spinning_scenarios'):
        chk.notes.append('in some scenarios a background task of the client spins on zero-delay sleeps (e.g. after '
                         'WishlistInterval(interval=0)); virtual time cannot advance there, so read-timeout stimuli '
                         'are skipped for them (not a C02 matter: the reader keeps working)')
    if runner.stats['unhandled_examples']:
        chk.notes.append('loop exception handler entries from tasks other than the reader (not judged by C02): ' +
                         ' | '.join(runner.stats['unhandled_examples']))
    for i in (0, len(traces) // 2, len(traces) - 1):
        chk.sample(dict(meta=metas[i], scenario={k: v for k, v in scenarios[i].items() if k != 'frames'},
                        frames=[{k: v for k, v in f.items() if k != 'hex'} for f in scenarios[i]['frames']],
                        trace=traces[i][:60]))

    v = tlc.validate_traces(TRACE, 'Trace.cfg', traces, max_diag=0, timeout=1500)
    diagnosed = {}
    for tid in sorted(v.rejected):
        # one diagnosis per distinct shape of rejected trace, at most 12 in all
        shape = (scenarios[tid - 1]['kind'], tuple((e['ev'], e.get('st'), e.get('how'), e.get('cls') if e['ev'] == 'reader_done' else None)
                                                    for e in traces[tid - 1] if e['ev'] not in ('feed', 'quiet', 'msg')),
                 next((e.get('after') for e in traces[tid - 1] if e['ev'] == 'reader_done'), None))
        if shape not in diagnosed:
            if len(diagnosed) >= 6:
                continue
            diagnosed[shape] = diagnose(traces[tid - 1])
        v.rejected[tid] = dict(diagnosed[shape], event=diagnosed[shape].get('event'))
    chk.apply_verdicts(v, traces, make_fingerprint(scenarios),
                       meta_of=lambda tid: dict(meta=metas[tid - 1], scenario=scenarios[tid - 1]))
    chk.log(f'trace validation: {len(v.accepted)} accepted, {len(v.rejected)} rejected')

    selftest(chk, [traces[tid - 1] for tid in sorted(v.accepted)])       # corrupt only executions that were accepted
    chk.assumptions += [
        'asyncio.StreamReader.readexactly and the simulated transport deliver bytes in order (no kernel-level effects)',
        'a Sentinel is a message whose handlers are harmless: ParentInactivityTimeout (server), PeerPlaceInQueueReply '
        '(peer), DistributedChildDepth (distributed)',
        'a decodable non-sentinel message may legitimately make the client close this or another connection '
        '(protocol behaviour); an undecodable frame may not',
        'reader liveness is observed through connection._reader_task when it exists and, independently, through the '
        'delivery of the sentinels that follow',
        'decompression bombs and multi-gigabyte prefixes are represented by Lying frames only',
    ]


def handler_scenario(conc: Concretiser, fam, classes, preamble):
    """S, valid(cls)..., S on an established connection of kind `fam`, fed frame by frame."""
    M = conc.M
    r = conc.rng
    obf = fam == 'peer' and r.random() < 0.5
    frames = []

    def add(body, k, sid, cat, cls, **extra):
        w = L.wire(L.frame(body), obf, bytes(r.getrandbits(8) for _ in range(4)))
        frames.append(dict(k=k, id=sid, cat=cat, cls=cls, obf=obf, hex=w.hex(), h=8 if obf else 4, b=len(body), a=len(body),
                           **extra))

    def add_sentinel():
        sid, pad, msg = conc.new_sentinel(fam)
        add(msg.serialize()[4:], 'S', sid, 'sentinel', type(msg).__qualname__, pad=pad)

    add_sentinel()
    for cls in classes:
        for _ in range(2):
            body, cat, name = conc.host[fam].valid(cls)
            add(body, 'H', 0, cat, name)
            conc.class_counts[name] = conc.class_counts.get(name, 0) + 1
    add_sentinel()
    return dict(kind=fam, obf=obf, variant='accepted', preamble=preamble, raiser=False, frames=frames,
                stimuli=[['feed', f['h'] + f['a']] for f in frames])


LARGE_SIZES = (70 * 1024, 200 * 1024)
MSS = 1460


def large_body(conc: Concretiser, fam, size, how):
    """A frame body of about `size` bytes for a reader of family `fam` -> (body, cat, class name).
    how = 'valid': a valid message that is simply big (a user info reply with a picture, a shares
    reply, a room list, a long admin message, a distributed search with a long query);
    'hostile': an undecodable body of that size (unknown code, a big valid frame cut short or with a
    0xFFFFFFFF count)."""
    M, r = conc.M, conc.rng
    if how == 'valid':
        if fam == 'peer':
            if r.random() < 0.7:
                m = M.PeerUserInfoReply.Request('big', True, bytes(r.getrandbits(8) for _ in range(64)) * (size // 64),
                                                upload_slots=3, queue_size=0, has_slots_free=True)
            else:
                # zlib output must itself be large: hard to compress names
                from aioslsk.protocol import primitives as P
                files = [P.FileData(1, '%032x.mp3' % r.getrandbits(128), r.getrandbits(30), 'mp3', [])
                         for _ in range(size // 28)]
                m = M.PeerSharesReply.Request([P.DirectoryData('music', files)])
        elif fam == 'server':
            if r.random() < 0.5:
                m = M.AdminMessage.Response('A' * size)
            else:
                n = size // 16
                m = M.PrivilegedUsers.Response(['user%08d' % i for i in range(n)])
        else:
            m = M.DistributedSearchRequest.Request(0x31, 'nobody', r.getrandbits(20), 'q' * size)
        return m.serialize()[4:], 'large_valid', type(m).__qualname__
    h = conc.host[fam]
    kind = r.choice(['unknown_code', 'truncate', 'count', 'random'])
    if kind in ('truncate', 'count'):
        body, _, name = large_body(conc, fam, size, 'valid')
        if kind == 'truncate' or name in ('PeerSharesReply.Request',):
            return body[:len(body) - r.randrange(1, 5000)], 'large_truncate', name
        w = h.code_width
        return body[:w] + b'\xff\xff\xff\xff' + body[w + 4:], 'large_count', name
    if kind == 'unknown_code':
        for _ in range(100):
            code = r.getrandbits(32) if h.code_width == 4 else r.getrandbits(8)
            if code not in h.codes:
                break
        cb = L.U32.pack(code) if h.code_width == 4 else bytes([code])
        return cb + bytes(r.getrandbits(8) for _ in range(256)) * (size // 256), 'large_unknown_code', ''
    return bytes(r.getrandbits(8) for _ in range(256)) * (size // 256), 'large_random', ''


def large_scenario(conc: Concretiser, fam, size, how, seg, obf=False, variant='accepted', preamble=False):
    """sentinel, big frame, sentinel, small hostile, sentinel - delivered in `seg`-byte TCP segments
    (the reader is woken after every segment, so reads of a big body come back short).  Whatever
    way an implementation reads big bodies, what follows them must still be delivered in order."""
    M, r = conc.M, conc.rng
    frames = []

    def add(body, k, sid, cat, cls, **extra):
        w = L.wire(L.frame(body), obf, bytes(r.getrandbits(8) for _ in range(4)))
        frames.append(dict(k=k, id=sid, cat=cat, cls=cls, obf=obf, hex=w.hex(), h=8 if obf else 4, b=len(body), a=len(body),
                           **extra))

    def add_sentinel():
        sid, pad, msg = conc.new_sentinel(fam)
        add(msg.serialize()[4:], 'S', sid, 'sentinel', type(msg).__qualname__, pad=pad)

    def sent():
        add_sentinel()

    sent()
    body, cat, name = large_body(conc, fam, size, how)
    add(body, 'H', 0, cat, name)
    conc.cat_counts[cat] = conc.cat_counts.get(cat, 0) + 1
    sent()
    body, cat, name = conc.host[fam].body(minlen=2)
    add(body, 'H', 0, cat, name)
    sent()
    total = sum(f['h'] + f['a'] for f in frames)
    stimuli, pos = [], 0
    first = frames[0]['h'] + frames[0]['a']
    if r.random() < 0.5:                     # the first sentinel on its own, or inside the first segment
        stimuli.append(['feed', first])
        pos = first
    while pos < total:
        nb = min(seg, total - pos)
        stimuli.append(['feed', nb])
        pos += nb
    return dict(kind=fam, obf=obf, variant=variant, preamble=preamble, raiser=False, logging=False, large=True,
                frames=frames, stimuli=stimuli)


def count_scenarios(conc: Concretiser, fam, per=40):
    """Every length / count field of every receivable class set to 0xFFFFFFFF with the frame ending
    right there (parsing must terminate and reject), in batches between sentinels."""
    r = conc.rng
    bombs = conc.host[fam].count_bombs()
    out = []
    for start in range(0, len(bombs), per):
        obf = fam == 'peer' and r.random() < 0.5
        frames = []

        def add(body, k, sid, cat, cls, **extra):
            w = L.wire(L.frame(body), obf, bytes(r.getrandbits(8) for _ in range(4)))
            frames.append(dict(k=k, id=sid, cat=cat, cls=cls, obf=obf, hex=w.hex(), h=8 if obf else 4, b=len(body),
                               a=len(body), **extra))

        def add_sentinel():
            sid, pad, msg = conc.new_sentinel(fam)
            add(msg.serialize()[4:], 'S', sid, 'sentinel', type(msg).__qualname__, pad=pad)

        add_sentinel()
        for body, cat, name in bombs[start:start + per]:
            add(body, 'H', 0, cat, name)
            conc.cat_counts[cat] = conc.cat_counts.get(cat, 0) + 1
        add_sentinel()
        out.append(dict(kind=fam, obf=obf, variant='accepted', preamble=False, raiser=False, logging=False,
                        frames=frames, stimuli=[['feed', f['h'] + f['a']] for f in frames]))
    return out


def session_scenario(conc: Concretiser, fam, n, preamble=True):
    """A long valid conversation: n valid messages of random classes (state accumulates in the
    managers), a sentinel after every few, fed with random segmentation."""
    M = conc.M
    r = conc.rng
    obf = fam == 'peer' and r.random() < 0.5
    frames = []

    def add(body, k, sid, cat, cls, **extra):
        w = L.wire(L.frame(body), obf, bytes(r.getrandbits(8) for _ in range(4)))
        frames.append(dict(k=k, id=sid, cat=cat, cls=cls, obf=obf, hex=w.hex(), h=8 if obf else 4, b=len(body), a=len(body),
                           **extra))

    def add_sentinel():
        sid, pad, msg = conc.new_sentinel(fam)
        add(msg.serialize()[4:], 'S', sid, 'sentinel', type(msg).__qualname__, pad=pad)

    for i in range(n):
        if r.random() < 0.15:
            body, cat, name = conc.host[fam].body(minlen=0)
        else:
            body, cat, name = conc.host[fam].valid(conc.host[fam].next_class() if r.random() < 0.5 else None)
            conc.class_counts[name] = conc.class_counts.get(name, 0) + 1
        add(body, 'H', 0, cat, name)
        if i % 4 == 3 or i == n - 1:
            add_sentinel()
    total = sum(f['h'] + f['a'] for f in frames)
    stimuli, pos = [], 0
    while pos < total:
        nb = min(r.choice([1, 7, 30, 100, 400, 2000]), total - pos)
        stimuli.append(['feed', nb])
        pos += nb
    return dict(kind=fam, obf=obf, variant='accepted', preamble=preamble, raiser=r.random() < 0.3,
                logging=r.random() < 0.3, frames=frames,
                stimuli=stimuli)


def selftest(chk: Check, traces):
    """Corrupt recorded fields: the trace spec must reject."""
    bad = []

    def pick(pred, mutate, limit=3):
        n = 0
        for tr in traces:
            idx = [i for i, e in enumerate(tr) if pred(tr, i, e)]
            if not idx:
                continue
            b = copy.deepcopy(tr)
            if mutate(b, idx[0]) is not False:
                bad.append(b)
                n += 1
            if n >= limit:
                break

    def has_hdone(tr, i):
        return i + 1 < len(tr) and tr[i + 1]['ev'] == 'hdone'

    # a delivered sentinel is lost (the event and the end of its handling)
    def lose(b, i):
        del b[i:i + 2]
    pick(lambda tr, i, e: e['ev'] == 'msg' and e['sid'] and has_hdone(tr, i), lose)

    # ... delivered twice
    def dup(b, i):
        b[i:i] = [dict(b[i]), dict(ev='hdone')]
    pick(lambda tr, i, e: e['ev'] == 'msg' and e['sid'] and has_hdone(tr, i), dup)

    # two sentinels swapped
    def swap(b, i):
        j = next((j for j in range(i + 1, len(b)) if b[j]['ev'] == 'msg' and b[j]['sid']), None)
        if j is None:
            return False
        b[i]['sid'], b[j]['sid'] = b[j]['sid'], b[i]['sid']
    pick(lambda tr, i, e: e['ev'] == 'msg' and e['sid'] and
         any(x['ev'] == 'msg' and x['sid'] for x in tr[i + 1:]), swap)
    # a message decoded from a hostile body is delivered twice
    def dup_h(b, i):
        b[i:i] = [dict(b[i]), dict(ev='hdone')]
    pick(lambda tr, i, e: e['ev'] == 'msg' and not e['sid'] and has_hdone(tr, i) and
         sum(1 for f in tr[0]['frames'] if f['k'] == 'H') == 1, dup_h)      # (one H frame: no other slot to blame)
    # the reader ends although nothing closed the connection
    def kill(b, i):
        if any(e['ev'] in ('state', 'peer_init', 'eof', 'lclose') for e in b):
            return False
        b.insert(i, dict(ev='reader_done', how='cancelled', after='x'))
    pick(lambda tr, i, e: e['ev'] == 'quiet' and i > 2, kill)
    # the connection closes after a frame without any reason
    def close(b, i):
        if any(e['ev'] in ('state', 'eof', 'lclose', 'tick') for e in b) or b[0]['kind'] == 'accept':
            return False
        if any(e['ev'] == 'msg' and not e['sid'] for e in b):
            return False
        b[i:i] = [dict(ev='state', st='CLOSING', reason='READ_ERROR'), dict(ev='state', st='CLOSED', reason='READ_ERROR'),
                  dict(ev='reader_done', how='returned', after='')]
        del b[i + 3:]
    pick(lambda tr, i, e: e['ev'] == 'quiet' and i > 2, close)
    # a bystander is closed by a bad init
    def other(b, i):
        if any(e['ev'] == 'msg' and not e['sid'] for e in b) or any(e['ev'] == 'peer_init' for e in b):
            return False
        b.insert(i, dict(ev='ostate', which='listen0', st='CLOSED'))
    pick(lambda tr, i, e: e['ev'] == 'quiet' and i > 1 and tr[0]['kind'] == 'accept', other)
    if not bad:
        if not traces:
            chk.cov['binding_selftest']['corrupted_traces_rejected'] = 'no accepted trace to corrupt'
            return
        raise MachineryFailure('self-test could not build corrupted traces')
    cv = tlc.validate_traces(TRACE, 'Trace.cfg', bad, max_diag=0, timeout=600)
    chk.cov['binding_selftest']['corrupted_traces_rejected'] = f'{len(cv.rejected)}/{len(bad)}'
    if len(cv.rejected) != len(bad):
        raise MachineryFailure(f'corrupted traces were accepted by the trace spec: {sorted(cv.accepted)}')


def replay(chk: Check, data: dict):
    """Re-execute the scenario of a replay file on the current tree and validate the new trace."""
    sc = (((data.get('replay') or {}).get('meta') or {}).get('scenario'))
    if not sc:
        raise MachineryFailure('replay file has no scenario')
    tmp = tempfile.mkdtemp(prefix='c02-')
    os.makedirs(os.path.join(tmp, 'shared', 'music'))
    os.makedirs(os.path.join(tmp, 'dl'))
    for fn in ('song.mp3', 'other.flac'):
        with open(os.path.join(tmp, 'shared', 'music', fn), 'wb') as fh:
            fh.write(b'x' * 100)
    cwd = os.getcwd()
    try:
        os.chdir(tmp)
        tr = Runner(tmp).run(sc)
    finally:
        os.chdir(cwd)
        shutil.rmtree(tmp, ignore_errors=True)
    chk.count(('replay',))
    print('   frames:', [(f['k'], f['cat'], f['cls']) for f in sc['frames']])
    for e in tr[1:]:
        print('  ', e)
    v = tlc.validate_traces(TRACE, 'Trace.cfg', [tr], max_diag=0, timeout=600)
    for tid in v.rejected:
        v.rejected[tid] = diagnose(tr)
    chk.apply_verdicts(v, [tr], make_fingerprint([sc]), meta_of=lambda tid: dict(scenario=sc))

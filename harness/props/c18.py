"""C18 - search results reach only live requests; removal and timeouts are exact
(spec: SearchRequests).

Direction A: behaviours of the SearchRequests design model (edge cover of the small state
graphs, simulation of the larger ones) plus seeded random scenarios are projected onto the
driver's stimuli (search / command search / WishlistInterval / remove_request / PeerSearchReply /
Timer start-cancel-reschedule / yield / advance one tick) and executed on the real objects in a
virtual-time loop:
  rig 'L'   real SoulSeekClient (not started: real SearchManager, EventBus, ticket generators,
            commands through client.execute), server sends recorded by a stub, replies and the
            WishlistInterval fed as MessageReceivedEvent - slot-exact with the model;
  rig 'F'   started real client, logged in at a scripted server on the simulated network; the
            WishlistInterval arrives on the server connection, replies arrive on real peer
            connections dialled by a scripted peer;
  rig 'T'   tasks.Timer driven directly.
Direction B: every recorded execution is judged by TLC against SearchRequestsTrace.
"""
from __future__ import annotations

import asyncio
import copy
import gc
import re

from .. import tlc, vloop
from ..core import Check, MachineryFailure

SPEC = 'SearchRequests/SearchRequests.tla'
TRACE = 'SearchRequests/SearchRequestsTrace.tla'
MAX_ENTS = 20               # Ents of Trace.cfg
SIM_ITEMS = 2               # WishItems of MC_req_big.cfg
SIM_ENTS = 5                # Ents of MC_req_big.cfg
DEFAULT_IVAL_MS = 600000    # DefaultIval of Trace.cfg (constants.DEFAULT_WISHLIST_INTERVAL)

_LABEL = re.compile(r'^(\w+)(?:\((.*)\))?$')


# ---------------------------------------------------------------------------
# behaviours -> stimuli
# ---------------------------------------------------------------------------

def stimuli_of(labels):
    """Project a behaviour (action labels) onto what the driver does; internal steps of the
    loop (RunFirst, RunDue, ...) happen by themselves in the real loop."""
    out = []
    for lab in labels:
        m = _LABEL.match(lab.strip())
        if not m:
            continue
        name, args = m.group(1), [a.strip() for a in (m.group(2) or '').split(',') if a.strip()]
        if name == 'Search':
            out.append(('search',))
        elif name == 'CmdSearch':
            out.append(('cmd',))
        elif name == 'WlMsg':
            out.append(('wlmsg', int(args[0])))
        elif name == 'Remove':
            out.append(('remove', int(args[0])))
        elif name == 'Reply':
            out.append(('reply', int(args[0])))
        elif name == 'SrvLoss':
            out.append(('srvloss',))
        elif name == 'SearchRm':
            out.append(('searchrm',))
        elif name == 'SearchHeld':
            out.append(('sheld',))
        elif name == 'SentRelease':
            out.append(('srelease', int(args[0])))
        elif name == 'CmdAgain':
            out.append(('recmd', int(args[0])))
        elif name == 'ReplyHeld':
            out.append(('rheld', int(args[0])))
        elif name == 'ReplyRelease':
            out.append(('rrelease', int(args[0])))
        elif name == 'TNew':
            out.append(('tnew', int(args[0])))
        elif name == 'TStart':
            out.append(('tstart', int(args[0])))
        elif name == 'TCancel':
            out.append(('tcancel', int(args[0])))
        elif name == 'TResched':
            out.append(('tresched', int(args[0]), int(args[1])))
        elif name == 'Yield':
            out.append(('yield',))
        elif name == 'Advance':
            out.append(('advance',))
    # trailing yields/advances are subsumed by the drain every run ends with
    while out and out[-1][0] in ('yield', 'advance'):
        out.pop()
    return tuple(out)


# ---------------------------------------------------------------------------
# execution on the real code
# ---------------------------------------------------------------------------

class _Conn:
    """Stands in for the connection a message arrived on (rig L)."""

    def __init__(self):
        self.disconnects = 0

    async def disconnect(self, reason=None):
        self.disconnects += 1


class _HeldConn:
    """A connection whose disconnect() completes when the driver says so (rig L)."""

    def __init__(self, loop):
        self.gate = loop.create_future()

    async def disconnect(self, reason=None):
        await self.gate

    def release(self):
        if not self.gate.done():
            self.gate.set_result(None)


class Run:
    """One execution.  cfg: rig ('L'|'F'|'T'), rt, wt (seconds; wt=-1: server interval),
    items (enabled wishlist entries), tick (seconds per model tick), conc (concretisation seed)."""

    def __init__(self, cfg: dict, stimuli, drain_ticks: int = 5):
        import random
        self.cfg = cfg
        self.stimuli = stimuli
        self.rng = random.Random(cfg.get('conc', 0))
        self.tick = float(cfg.get('tick', 1.0))
        self.drain_ticks = drain_ticks
        self.events: list[dict] = []
        self.objs: list = []            # entity index-1 -> request object / Timer
        self.ids: dict[int, int] = {}   # id(obj) -> entity index
        self.believed_live: set[int] = set()
        self.timeouts: dict[int, int] = {}   # bare timers: timeout in force (ms)
        self.armed: set[int] = set()         # bare timers with a pending deadline, per the calls made
        self.cur_op = None
        self.cur_results = None
        self.nerr = 0
        self.other_errors = 0
        self.overflow = False
        self.client = None
        self.loop = None
        self.sent_msgs: list = []
        self._keep = []
        self.held: list[dict] = []      # replies in flight on a connection whose close is held
        self.sent_remove = False        # the next SearchRequestSentEvent's listener removes the request
        self.sent_hold = False          # the next SearchRequestSentEvent meets a listener that suspends
        self.sheld: list[dict] = []     # searches whose sent event is being delivered to such a listener
        self.cmds: dict[int, object] = {}   # entity -> the command object that created it
        self.lst = '' if cfg.get('lst', '-') == '-' else str(cfg.get('lst'))
        self.server_down = False        # rig F: the server connection is gone, nothing can be sent

    # -- recording ---------------------------------------------------------
    def now_ms(self) -> int:
        return int(round((self.loop.time() - self.t0) * 1000))

    def snap(self):
        if self.client is None:
            return []
        out = []
        for tk, req in list(self.client.searches.requests.items()):
            out.append([int(tk) if isinstance(tk, int) and 0 <= tk < 2 ** 31 else -1, self.ent_of(req)])
        return sorted(out)

    def log(self, ev, **kw):
        rec = dict(ev=ev, **kw)
        rec['now'] = self.now_ms()
        rec['reqs'] = self.snap()
        self.events.append(rec)

    def ent_of(self, obj, create=True) -> int:
        e = self.ids.get(id(obj))
        if e is None and create:
            self.objs.append(obj)
            e = len(self.objs)
            self.ids[id(obj)] = e
            if e > MAX_ENTS:
                self.overflow = True
        return e

    def scan(self, sent=None):
        """Log a `create` record for every request object in SearchManager.requests that has
        not been seen before (`sent`: the request a SearchRequestSentEvent was just emitted for)."""
        if self.client is None:
            return
        from aioslsk.search.model import SearchType
        for tk, req in list(self.client.searches.requests.items()):
            if id(req) in self.ids:
                continue
            e = self.ent_of(req)
            via = self.cur_op if self.cur_op in ('search', 'cmd') else 'wl'
            if req.search_type == SearchType.WISHLIST:
                kind = 'wish'
            elif via == 'cmd':
                kind = 'cmd'
            else:
                kind = 'mgr'
            self.believed_live.add(e)
            # snapshot is taken inside log(): the new object is known by now
            self.log('create', e=e, kind=kind, tk=int(req.ticket), key=int(tk), timed=req.timer is not None,
                     via=via, api=req.search_type.name, sent=req is sent)

    def poll_errors(self):
        un = self.loop.unhandled
        while self.nerr < len(un):
            ctx = un[self.nerr]
            self.nerr += 1
            exc = ctx.get('exception')
            if not self._concerns_search(ctx, exc):
                self.other_errors += 1
                continue
            tk = 0
            if isinstance(exc, KeyError) and exc.args and isinstance(exc.args[0], int) and 0 <= exc.args[0] < 2 ** 31:
                tk = exc.args[0]
            self.log('looperr', exc=type(exc).__name__ if exc is not None else 'none', tk=tk,
                     msg=str(ctx.get('message'))[:80])

    @staticmethod
    def _concerns_search(ctx, exc) -> bool:
        """Only errors raised from the search manager / Timer code are C18's business."""
        tb = getattr(exc, '__traceback__', None)
        while tb is not None:
            fn = tb.tb_frame.f_code.co_filename.replace('\\', '/')
            if fn.endswith('aioslsk/tasks.py') or '/aioslsk/search/' in fn or fn.endswith('aioslsk/commands.py'):
                return True
            tb = tb.tb_next
        txt = ' '.join(repr(ctx.get(k)) for k in ('task', 'future', 'handle') if ctx.get(k) is not None)
        return 'Timer.' in txt or 'SearchManager.' in txt

    # -- listeners -----------------------------------------------------------
    def _on_sent(self, event):
        self.scan(sent=event.query)
        if self.sent_remove and asyncio.current_task() is self.driver_task:
            # an application listener that drops the request it is told about
            self.sent_remove = False
            e = self.ent_of(event.query)
            self.believed_live.discard(e)
            exc_name = 'none'
            try:
                self.client.searches.remove_request(event.query if self.rng.random() < 0.5 else event.query.ticket)
            except Exception as exc:
                exc_name = type(exc).__name__
            self.log('remove', e=e, exc=exc_name)

    async def _on_sent_slow(self, event):
        """A coroutine listener: normally returns at once, suspends when the driver asked for it."""
        cur = asyncio.current_task()
        if cur is self.driver_task:
            return                              # never the driver itself
        rec = next((r for r in self.sheld if r.get('task') is cur and 'gate' not in r), None)
        if rec is None and self.sent_hold:      # `holdnext`: whoever emits next
            self.sent_hold = False
            rec = next((r for r in self.sheld if 'task' not in r and 'gate' not in r), None)
        if rec is None:
            return
        rec['gate'] = self.loop.create_future()
        await rec['gate']

    def _on_result(self, event):
        e = self.ent_of(event.query)
        if self.cur_results is not None:
            self.cur_results.append((e, int(event.result.ticket)))
        else:
            self.log('result', e=e, tk=int(event.result.ticket))

    def _on_removed(self, event):
        e = self.ent_of(event.query)
        self.believed_live.discard(e)
        self.log('removed', e=e)

    # -- set-up ----------------------------------------------------------------
    def execute(self):
        res, loop = vloop.run(lambda lp: self._main(lp))
        return self.events

    async def _main(self, loop):
        self.loop = loop
        self.driver_task = asyncio.current_task()
        rig = self.cfg['rig']
        try:
            if rig == 'L':
                await self._setup_light()
            elif rig == 'F':
                await self._setup_full()
            self.t0 = loop.time()
            self.log('init', nl=len(self.lst), rt=int(self.cfg.get('rt', 0)) * 1000,
                     wt=(int(self.cfg.get('wt', 0)) * 1000 if int(self.cfg.get('wt', 0)) >= 0 else -1))
            last_op_tick = 0
            nticks = 0
            for st in self.stimuli:
                if self.overflow:
                    break
                await self.step(st)
                if st[0] == 'advance':
                    nticks += 1
                elif st[0] != 'yield':
                    last_op_tick = nticks
            # drain: long enough for every deadline set so far to pass
            while nticks < last_op_tick + self.drain_ticks and not self.overflow:
                await self.step(('advance',))
                nticks += 1
            for h in range(1, len(self.held) + 1):
                await self._op_rrelease(h)
            for k in range(1, len(self.sheld) + 1):
                await self._op_srelease(k)
            self.sent_hold = False
            await self.quiesce()
            gc.collect(0)
            self.poll_errors()
            self.log('quiet')
        finally:
            if rig == 'F':
                await self._teardown_full()
        return self.events

    def _settings(self):
        from ..simserver import make_settings
        items = int(self.cfg.get('items', 0))
        wl = [dict(query=f'wish {i} item', enabled=True) for i in range(items)]
        if items and self.rng.random() < 0.5:
            wl.insert(self.rng.randrange(len(wl) + 1), dict(query='disabled item', enabled=False))
        return make_settings('me', searches=dict(
            send=dict(request_timeout=int(self.cfg.get('rt', 0)),
                      wishlist_request_timeout=int(self.cfg.get('wt', 0)),
                      store_results=self.rng.random() < 0.7),
            wishlist=wl))

    def _listen(self, bus):
        from aioslsk.events import SearchRequestSentEvent, SearchResultEvent, SearchRequestRemovedEvent
        # the bus holds listeners weakly: bound methods of self stay alive with self
        self._keep = [self._on_sent, self._on_result, self._on_removed, self._on_sent_slow]
        bus.register(SearchRequestSentEvent, self._keep[0])
        bus.register(SearchRequestSentEvent, self._keep[3])
        bus.register(SearchResultEvent, self._keep[1])
        bus.register(SearchRequestRemovedEvent, self._keep[2])
        # the application's listeners of SearchRequestRemovedEvent (after the recorder's own):
        # s = plain function, a = coroutine that does not suspend, u = coroutine that really suspends
        for i, ch in enumerate(self.lst, 1):
            fn = self._app_listener(i, ch)
            self._keep.append(fn)
            bus.register(SearchRequestRemovedEvent, fn)

    def _app_listener(self, i, ch):
        def told(event):
            self.log('ltold', e=self.ent_of(event.query), i=i)
        if ch == 's':
            return told
        if ch == 'a':
            async def listener_a(event):
                told(event)
            return listener_a

        async def listener_u(event):
            await asyncio.sleep(0)          # e.g. a queue put / a database write
            told(event)
        return listener_u

    async def _setup_light(self):
        from ..simserver import make_client
        from aioslsk.session import Session
        from aioslsk.user.model import User
        client = make_client(self._settings())
        sent = self.sent_msgs

        async def send_server_messages(*messages):
            sent.extend(messages)
            return []
        client.network.send_server_messages = send_server_messages
        self.client = client
        self._login_light()
        self._listen(client.events)
        self.server_conn = _Conn()

    def _login_light(self):
        # what login() would have done, without a network
        from aioslsk.session import Session
        from aioslsk.user.model import User
        self.client.session = Session(user=User(name='me'), ip_address='1.2.3.4', greeting='', client_version=157,
                                      minor_version=100)

    async def _setup_full(self):
        from .. import simnet, simserver
        self.net = simnet.SimNet(self.loop).install()
        self.server = await simserver.ScriptedServer(self.net).start()
        client = simserver.make_client(self._settings())
        self.client = client
        self._listen(client.events)
        await client.start()
        await client.login()
        self.peer_no = 0
        await self.quiesce()

    async def _teardown_full(self):
        try:
            if self.client is not None:
                await self.client.stop()
        except Exception:
            pass
        finally:
            if getattr(self, 'net', None) is not None:
                self.net.uninstall()

    # -- driver steps ------------------------------------------------------------
    async def quiesce(self):
        """Yield until nothing but the driver can run at the current instant: the ready queue is
        empty and no scheduled timer is due."""
        loop = self.loop
        for _ in range(2000):
            if not loop._ready:          # our own handle has been popped: nothing else is ready
                t = loop.time() + 1e-9
                if not any(h._when <= t and not h._cancelled for h in loop._scheduled):
                    return
            await asyncio.sleep(0)
        raise MachineryFailure('ready queue does not drain')

    async def step(self, st):
        kind = st[0]
        if kind == 'yield':
            await asyncio.sleep(0)
            self.poll_errors()
            self.scan()
            return
        if kind == 'advance':
            # which instant a timeout counts from is not pinned down while the sent event is still
            # being delivered: the clock does not move during such a delivery
            for k in range(1, len(self.sheld) + 1):
                await self._op_srelease(k)
            await self.quiesce()
            self.scan()
            self.poll_errors()
            self.log('quiet')
            self.loop.advance(self.tick)
            await asyncio.sleep(0)
            self.poll_errors()
            return
        if self.cfg['rig'] == 'F':
            # on the wire a reply / announcement is not handled atomically: keep calls apart from
            # whatever is still in progress (a wishlist round sending its searches), so that the
            # position of a record in the trace is the position of its effect.  Orders within one
            # instant at ready-slot granularity are rig L's business.
            await self.quiesce()
            self.scan()
            self.poll_errors()
        if self.server_down and kind in NEEDS_SERVER:
            if self.cfg['rig'] == 'F':
                return                   # (no automatic reconnect in these runs)
            self._login_light()          # rig L: the application reconnects and logs in again first
            self.server_down = False
        fn = getattr(self, '_op_' + kind)
        self.cur_op = kind
        try:
            await fn(*st[1:])
            self.scan()
        finally:
            self.cur_op = None
        self.poll_errors()

    def _query(self):
        return self.rng.choice(['some query', 'artist - title', 'Ünï cødé', 'a b -c *d'])

    async def _op_search(self):
        s = self.client.searches
        api = self.rng.choice(['search', 'search_room', 'search_user'])
        try:
            if api == 'search':
                await s.search(self._query())
            elif api == 'search_room':
                await s.search_room(self.rng.choice(['room0', 'other room']), self._query())
            else:
                await s.search_user(self.rng.choice(['user0', 'someone else']), self._query())
        except Exception as exc:   # observation
            self.log('opexc', what=f'{api}:{type(exc).__name__}')

    async def _op_srvloss(self):
        """The server connection is lost (rig F: the server closes it; rig L: the state changes
        of the client's ServerConnection are announced on the bus, as the network does)."""
        if self.server_down:
            return
        if self.cfg['rig'] == 'F':
            self.server_down = True
            self.server.sessions[-1].close('eof' if self.rng.random() < 0.7 else 'reset')
            await self.quiesce()
            return
        from aioslsk.events import ConnectionStateChangedEvent
        from aioslsk.network.connection import CloseReason, ConnectionState
        self.server_down = True
        conn = self.client.network.server_connection
        for state in (ConnectionState.CLOSING, ConnectionState.CLOSED):
            try:
                await self.client.events.emit(ConnectionStateChangedEvent(conn, state, CloseReason.EOF))
            except Exception as exc:
                self.log('opexc', what=f'srvloss:{type(exc).__name__}')

    async def _op_searchrm(self):
        self.sent_remove = True
        try:
            await self._op_search()
        finally:
            self.sent_remove = False

    async def _op_sheld(self):
        """search() in a task of its own; its SearchRequestSentEvent meets a suspending listener."""
        rec = dict()
        self.sheld.append(rec)

        async def go():
            await self._op_search()
        rec['task'] = asyncio.create_task(go())

    async def _op_holdnext(self):
        """The next SearchRequestSentEvent, whoever emits it (a wishlist round), meets the
        suspending listener."""
        self.sheld.append(dict())
        self.sent_hold = True

    async def _op_srelease(self, k):
        if k > len(self.sheld):
            return
        gate = self.sheld[k - 1].get('gate')
        if gate is not None and not gate.done():
            gate.set_result(None)

    async def _op_recmd(self, e):
        cmd = self.cmds.get(e)
        if cmd is None:
            return
        self.cur_op = 'cmd'
        known = len(self.objs)
        try:
            await self.client.execute(cmd)
        except Exception as exc:
            self.log('opexc', what=f'{type(cmd).__name__}:{type(exc).__name__}')
        self.scan()
        for new in range(known + 1, len(self.objs) + 1):
            self.cmds[new] = cmd

    async def _op_cmd(self):
        from aioslsk import commands as C
        which = self.rng.choice(['global', 'user', 'room'])
        if which == 'global':
            cmd = C.GlobalSearchCommand(self._query())
        elif which == 'user':
            cmd = C.UserSearchCommand('user0', self._query())
        else:
            cmd = C.RoomSearchCommand('room0', self._query())
        known = len(self.objs)
        try:
            await self.client.execute(cmd)
        except Exception as exc:
            self.log('opexc', what=f'{type(cmd).__name__}:{type(exc).__name__}')
        self.scan()
        for new in range(known + 1, len(self.objs) + 1):
            self.cmds[new] = cmd

    async def _op_remove(self, e):
        if e > len(self.objs) or e not in self.believed_live:
            return
        req = self.objs[e - 1]
        self.believed_live.discard(e)
        exc_name = 'none'
        try:
            self.client.searches.remove_request(req if self.rng.random() < 0.5 else req.ticket)
        except Exception as exc:
            exc_name = type(exc).__name__
        self.log('remove', e=e, exc=exc_name)

    def _reply_message(self, tk):
        from aioslsk.protocol.messages import PeerSearchReply
        from aioslsk.protocol.primitives import FileData
        n = self.rng.randrange(0, 3)
        return PeerSearchReply.Request(
            username=self.rng.choice(['peer1', 'peer2']), ticket=tk,
            results=[FileData(1, f'dir\\file{i}.mp3', 1000 + i, 'mp3', attributes=[]) for i in range(n)],
            has_slots_free=True, avg_speed=100, queue_size=0, locked_results=None)

    async def _op_reply(self, tk):
        from aioslsk.events import MessageReceivedEvent
        self.cur_results = []
        exc_name = None
        try:
            if self.cfg['rig'] == 'F':
                # a peer dials the client's listening port and delivers the reply on the wire
                from ..simserver import ScriptedPeer
                self.peer_no += 1
                peer = ScriptedPeer(self.net, f'peer{self.peer_no}')
                ep = await peer.dial(61000, typ='P')
                ep.send_message(self._reply_message(tk))
                await self.quiesce()
            else:
                await self.client.events.emit(MessageReceivedEvent(self._reply_message(tk), _Conn()))
        except Exception as exc:
            exc_name = type(exc).__name__
        res, self.cur_results = self.cur_results, None
        self.log('reply', tk=tk, res=[e for e, _ in res], rtk=[t for _, t in res])
        if exc_name:
            self.log('opexc', what=f'reply:{exc_name}')

    async def _op_rheld(self, tk):
        """A reply is delivered on a connection whose close is held: the handler stays suspended
        in `await connection.disconnect()` until `rrelease`."""
        from aioslsk.events import MessageReceivedEvent
        h = len(self.held) + 1
        rec = dict(h=h, done=False)
        self.held.append(rec)
        self.log('rin', h=h, tk=tk)
        if self.cfg['rig'] == 'F':
            from ..simserver import ScriptedPeer
            self.peer_no += 1
            peer = ScriptedPeer(self.net, f'peer{self.peer_no}')
            ep = await peer.dial(61000, typ='P')
            rec['writer'] = ep.link.writers[1]          # the client's end of the link
            rec['writer'].hold_wait_closed = True
            ep.send_message(self._reply_message(tk))
            await self.quiesce()
            return
        conn = _HeldConn(self.loop)
        rec['conn'] = conn
        task = asyncio.create_task(self.client.events.emit(MessageReceivedEvent(self._reply_message(tk), conn)))
        rec['task'] = task

        def finished(t, rec=rec):
            rec['done'] = True
            self.log('rdone', h=rec['h'])
            if not t.cancelled() and t.exception() is not None:
                self.log('opexc', what=f'reply:{type(t.exception()).__name__}')
        task.add_done_callback(finished)

    async def _op_rrelease(self, h):
        if h > len(self.held) or self.held[h - 1].get('released'):
            return
        rec = self.held[h - 1]
        rec['released'] = True
        if self.cfg['rig'] == 'F':
            rec['writer'].release_wait_closed()
            await self.quiesce()
            # the handler's end is not observable from outside: by now it is over
            rec['done'] = True
            self.log('rdone', h=h)
        else:
            rec['conn'].release()

    async def _op_wlmsg(self, ival):
        from aioslsk.events import MessageReceivedEvent
        from aioslsk.protocol.messages import WishlistInterval
        secs = int(ival * self.tick)
        self.log('wlmsg', ival=secs * 1000)
        try:
            if self.cfg['rig'] == 'F':
                self.server.sessions[-1].send(WishlistInterval.Response(secs))
                await self.quiesce()
            else:
                await self.client.events.emit(MessageReceivedEvent(WishlistInterval.Response(secs), self.server_conn))
        except asyncio.CancelledError:
            # F02-1 (C02): a second announcement awaits the task it cancelled.  Not C18's business.
            if asyncio.current_task().cancelling():
                raise
        except Exception as exc:
            self.log('opexc', what=f'wlmsg:{type(exc).__name__}')

    # -- bare Timer ----------------------------------------------------------------
    def _timer_cb(self, holder):
        async def cb():
            self.armed.discard(holder[0])
            self.log('fire', e=holder[0])
        return cb

    async def _op_tnew(self, d):
        from aioslsk.tasks import Timer
        holder = [0]
        tm = Timer(d * self.tick, self._timer_cb(holder))
        e = self.ent_of(tm)
        holder[0] = e
        self.timeouts[e] = int(round(d * self.tick * 1000))
        self.armed.add(e)
        tm.start()
        self.log('tnew', e=e, d=self.timeouts[e])

    async def _op_tstart(self, e):
        if e > len(self.objs) or e in self.armed:
            return
        self.armed.add(e)
        self.objs[e - 1].start()
        self.log('tstart', e=e, d=self.timeouts[e])

    async def _op_tcancel(self, e):
        if e > len(self.objs):
            return
        self.armed.discard(e)
        self.objs[e - 1].cancel()
        self.log('tcancel', e=e)

    async def _op_tresched(self, e, d):
        if e > len(self.objs):
            return
        self.armed.add(e)
        if d:
            self.timeouts[e] = int(round(d * self.tick * 1000))
            self.objs[e - 1].reschedule(d * self.tick)
        elif self.rng.random() < 0.5:
            self.objs[e - 1].reschedule()
        else:
            self.objs[e - 1].reschedule(None)
        self.log('tresched', e=e, d=self.timeouts[e])


def execute(cfg, stimuli):
    r = Run(cfg, stimuli)
    ev = r.execute()
    return ev, r


# ---------------------------------------------------------------------------
# schedules
# ---------------------------------------------------------------------------

REQ_ACTIONS = ['Search', 'CmdSearch', 'WlMsg', 'Remove', 'Reply', 'Yield', 'Advance', 'RunFirst', 'RunCancelled',
               'RunDue', 'RunCallback', 'RunUnset', 'RunWishlist', 'RunWlDue']
HELD_ACTIONS = ['Search', 'Remove', 'ReplyHeld', 'ReplyRelease', 'RunReplyArrive', 'RunReplyResume', 'Yield',
                'Advance', 'RunFirst', 'RunCancelled', 'RunDue', 'RunCallback', 'RunUnset']
NEEDS_SERVER = ('search', 'cmd', 'wlmsg', 'searchrm', 'sheld', 'recmd')
LOSS_ACTIONS = ['Search', 'Remove', 'WlMsg', 'SrvLoss', 'Yield', 'Advance', 'RunFirst', 'RunCancelled', 'RunDue',
                'RunCallback', 'RunUnset', 'RunWishlist', 'RunWlDue', 'RunWlDead']
LST_ACTIONS = ['Search', 'Remove', 'WlMsg', 'Yield', 'Advance', 'RunFirst', 'RunCancelled', 'RunDue', 'RunCallback',
               'RunEmitResume', 'RunUnset', 'RunWishlist', 'RunWlDue']
LST_CODES = ['s', 'a', 'u', 'us', 'su', 'ua', 'au', 'uu', 'sa']
SENT_ACTIONS = ['CmdSearch', 'Remove', 'SearchRm', 'SearchHeld', 'SentRelease', 'CmdAgain', 'RunSearchArrive',
                'RunSearchResume', 'Yield', 'Advance', 'RunFirst', 'RunCancelled', 'RunDue', 'RunCallback', 'RunUnset']
TIMER_ACTIONS = ['TNew', 'TStart', 'TCancel', 'TResched', 'Yield', 'Advance', 'RunFirst', 'RunCancelled', 'RunDue',
                 'RunCallback', 'RunUnset']


def _vacuity(res, cfg, expect):
    missing = [a for a in expect if res.coverage.get(a, (0, 0))[1] == 0]
    if res.ok and missing:
        raise MachineryFailure(f'vacuity: actions never taken in {cfg}: {missing}')


def dump_cover(cfg: str):
    # one worker: the order of the dump (hence the edge cover and the sampled schedules) is then
    # the same in every run
    return tlc.dump_graph(SPEC, cfg, parse_states='init', coverage=True, workers=1, timeout=3000)


def cover_schedules(chk: Check, cfg: str, label: str, expect, dumped=None):
    """Model-check `cfg` exhaustively, dump its state graph and return the stimulus schedules of an
    edge cover: {(rt, wt, stimuli): source}."""
    g, res = dumped if dumped is not None else dump_cover(cfg)
    _vacuity(res, cfg, expect)
    chk.add_model(label, res)
    paths = tlc.path_cover(g)
    scheds = {}
    for p in paths:
        init = g.states[p[0][0]]
        st = stimuli_of([e[1] for e in p])
        if st:
            scheds.setdefault((int(init['rt']), int(init['wt']), st), 'cover:' + cfg)
    chk.cov.setdefault('graphs', {})[cfg] = dict(states=len(g.states), edges=len(g.edges), cover_paths=len(paths),
                                                 schedules=len(scheds))
    chk.log(f'graph {cfg}: {len(g.states)} states, {len(g.edges)} edges, {len(paths)} cover paths, '
            f'{len(scheds)} distinct stimulus schedules')
    return scheds


def sim_schedules(chk: Check, cfg: str, num: int, depth: int, seed: int):
    behs, sres = tlc.simulate_behaviours(SPEC, cfg, num=num, depth=depth, seed=seed, timeout=3000)
    if any(i.kind != 'timeout' for i in sres.issues):
        raise MachineryFailure(f'simulation of {cfg} reported {[(i.kind, i.name) for i in sres.issues]}')
    scheds = {}
    for b in behs:
        st = stimuli_of([lab for lab, _ in b[1:]])
        if st:
            key = (int(b[0][1]['rt']), int(b[0][1]['wt']), st)
            scheds.setdefault(key, 'sim:' + cfg)
            # what the design model says the code will emit, and when (ticks)
            PREDICTED.setdefault(key, [(str(o['ev']), int(o['e']), int(state['now']))
                                       for _, state in b[1:] for o in state['out']
                                       if o['ev'] in ('result', 'removed', 'fire')])
    chk.cov.setdefault('simulations', {})[cfg] = dict(behaviours=len(behs), schedules=len(scheds))
    chk.log(f'simulation {cfg}: {len(behs)} behaviours, {len(scheds)} distinct stimulus schedules')
    return scheds


PREDICTED: dict = {}


def _norm(events):
    """Sort each run of consecutive timer-callback events of one instant."""
    out, run = [], []
    for e in events:
        if e[0] in ('removed', 'fire') and (not run or run[-1][2] == e[2]):
            run.append(e)
            continue
        out += sorted(run)
        run = [e] if e[0] in ('removed', 'fire') else []
        if not run:
            out.append(e)
    return out + sorted(run)


def _same_up_to_timer_order(pred, obs):
    if _norm(obs[:len(pred)]) == _norm(pred):
        return True
    # the behaviour ended in the middle of an instant in which several timers fire
    k = len(pred)
    while k and pred[k - 1][0] in ('removed', 'fire') and pred[k - 1][2] == pred[-1][2]:
        k -= 1
    return _norm(obs[:k]) == _norm(pred[:k]) and all(e in obs[k:] for e in pred[k:])


def observed_events(trace, tick):
    out = []
    for r in trace:
        t = int(round(r['now'] / (tick * 1000)))
        if r['ev'] == 'reply':
            out += [('result', e, t) for e in r['res']]
        elif r['ev'] in ('removed', 'fire', 'result'):
            out.append((r['ev'], r['e'], t))
    return out


def random_request_scenario(rng, rig):
    """Longer histories than the bounded model explores: more requests, every kind of stimulus,
    replies by ticket class."""
    rt = rng.choice([0, 1, 2, 2, 3])
    wt = rng.choice([-1, -1, 0, 1, 2, 4])
    items = rng.choice([0, 1, 2])
    st = []
    created = 0
    wl = 0
    ticks = 0
    held = 0
    sheld = 0
    for _ in range(rng.randrange(5, 16)):
        r = rng.random()
        if r < 0.16:
            st.append(('search',))
            created += 1
        elif r < 0.19:
            st.append(('searchrm',))
            created += 1
        elif r < 0.22:
            if sheld < 2 and rng.random() < 0.6:
                st.append(('sheld',))
                sheld += 1
                created += 1
            elif sheld:
                st.append(('srelease', rng.randrange(1, sheld + 1)))
        elif r < 0.31:
            st.append(('cmd',))
            created += 1
        elif r < 0.34 and created:
            st.append(('recmd', rng.randrange(1, created + 1)))
            created += 1
        elif r < 0.40 and items and wl < (2 if rig == 'L' else 1):
            if rig == 'L' and wl == 0 and rng.random() < 0.4:
                # a wishlist round whose sent event is still being delivered when the next
                # announcement cancels the round
                st += [('holdnext',), ('wlmsg', rng.choice([2, 3, 4])), ('yield',), ('wlmsg', rng.choice([2, 3, 4]))]
                sheld += 1
                wl += 2
                created += 2 * items
                continue
            st.append(('wlmsg', rng.choice([2, 3, 4])))
            wl += 1
            created += items
        elif r < 0.55 and created:
            st.append(('remove', rng.randrange(1, created + 2)))
        elif r < 0.68:
            st.append(('reply', rng.randrange(1, created + 4)))
        elif r < 0.75:
            if held < 3 and (created == 0 or rng.random() < 0.7):
                st.append(('rheld', rng.randrange(2, created + 3)))
                held += 1
            elif held:
                st.append(('rrelease', rng.randrange(1, held + 1)))
        elif r < 0.78:
            st.append(('srvloss',))
        elif r < 0.85:
            st.append(('yield',))
        elif ticks < 7:
            st.append(('advance',))
            ticks += 1
            if wl:
                created += items if rng.random() < 0.4 else 0
    return dict(rig=rig, rt=rt, wt=wt, items=items, lst=rng.choice(['-'] + LST_CODES)), tuple(st)


def random_timer_scenario(rng):
    st = []
    n = 0
    ticks = 0
    for _ in range(rng.randrange(4, 14)):
        r = rng.random()
        if (r < 0.15 and n < 3) or n == 0:
            st.append(('tnew', rng.choice([1, 2, 3])))
            n += 1
        elif r < 0.30:
            st.append(('tstart', rng.randrange(1, n + 1)))
        elif r < 0.45:
            st.append(('tcancel', rng.randrange(1, n + 1)))
        elif r < 0.65:
            st.append(('tresched', rng.randrange(1, n + 1), rng.choice([0, 0, 1, 2, 3])))
        elif r < 0.82:
            st.append(('yield',))
        elif ticks < 8:
            st.append(('advance',))
            ticks += 1
    return dict(rig='T', tick=rng.choice([1.0, 0.5, 0.25])), tuple(st)


# ---------------------------------------------------------------------------
# verdicts
# ---------------------------------------------------------------------------

_PRINT = re.compile(r'<<"REJECT", (\d+), (\d+), "(\w+)">>')


def validate(traces, workers, chunk=2500):
    """Batch validation; fills in, for every rejected trace, the property TLC named in its REJECT
    line and the record it was evaluating.  A TLC run over a batch is bound by one thread
    (reading the batch, generating the initial states), so batches are judged side by side."""
    from concurrent.futures import ThreadPoolExecutor
    total = tlc.TraceVerdicts(n=len(traces))
    chunk = max(300, min(chunk, -(-len(traces) // 3)))       # three even batches when that is enough
    bases = list(range(0, len(traces), chunk))
    par = max(1, min(3, len(bases)))

    def one(base):
        part = traces[base:base + chunk]
        return tlc.validate_traces(TRACE, 'Trace.cfg', part, max_diag=0, workers=max(1, workers // par),
                                   timeout=3000, chunk=chunk + 1)
    with ThreadPoolExecutor(max_workers=par) as pool:
        results = list(pool.map(one, bases))
    runs = []
    for base, v in zip(bases, results):
        part = traces[base:base + chunk]
        runs.append(v.result)
        why = {}
        for m in _PRINT.finditer(' '.join(v.result.prints)):
            why[int(m.group(1))] = (int(m.group(2)), m.group(3))
        for tid, marks in v.accepted.items():
            total.accepted[base + tid] = marks
        for tid in v.rejected:
            if tid in why:
                at, name = why[tid]
                info = dict(kind='property', name=name, at=at, detail='named by SearchRequestsTrace!Judge',
                            event=part[tid - 1][at - 1] if 0 < at <= len(part[tid - 1]) else None)
            else:
                info = dict(kind='rejected', name='?', at=None, detail='no REJECT line')
            total.rejected[base + tid] = info
    return total, runs


def _ticket_of(trace, e):
    for r in trace:
        if r['ev'] == 'create' and r.get('e') == e:
            return r.get('tk')
    return None


def fingerprint(tid, info, trace):
    name = info.get('name')
    ev = info.get('event') or {}
    at = info.get('at') or 0
    prefix = trace[:max(at - 1, 0)]
    if name == 'MalformedRecord':
        return 'C18:harness:malformed-record'
    if name == 'DistinctTickets' and ev.get('ev') == 'create':
        gone = {r['e'] for r in prefix if r['ev'] in ('remove', 'removed')}
        other = [r for r in prefix if r['ev'] == 'create' and r['tk'] == ev['tk'] and r['e'] not in gone]
        gens = sorted({'command' if r['kind'] == 'cmd' else 'manager' for r in other + [ev]})
        if gens == ['command', 'manager']:
            return 'C18:DistinctTickets:command-and-manager-tickets-come-from-two-generators'
        return f'C18:DistinctTickets:{gens[0]}-generator-repeats-a-live-ticket'
    if name == 'NoLoopError':
        # the timer of a manually removed request fired: its callback finds the ticket gone
        manual = any(r['ev'] == 'remove' and _ticket_of(prefix, r['e']) == ev.get('tk') for r in prefix)
        if ev.get('exc') == 'KeyError' and manual:
            return 'C18:QuietAfterManualRemoval:remove_request-leaves-timer-armed'
        return f"C18:NoLoopError:{ev.get('exc')}"
    if name == 'SupersededNeverFires':
        if ev.get('ev') == 'fire':
            return 'C18:SupersededNeverFires:Timer-callback-ran-for-cancelled-or-superseded-deadline'
        return f"C18:SupersededNeverFires:request-timer:{ev.get('ev')}"
    if name == 'QuietAfterManualRemoval':
        if ev.get('ev') == 'removed':
            # ... or finds the ticket in use again and reports the removed request as removed
            return 'C18:QuietAfterManualRemoval:remove_request-leaves-timer-armed'
        return f"C18:QuietAfterManualRemoval:{ev.get('ev')}-event-after-manual-removal"
    if name == 'RemovedOnceAtTimeout':
        return 'C18:RemovedOnceAtTimeout:removal-reported-for-non-live-request-or-at-wrong-time'
    if name in ('AllTold', 'ReportedToEveryListener'):
        return ('C18:ReportedToEveryListener:removal-not-reported-to-every-listener' if name == 'AllTold'
                else 'C18:ReportedToEveryListener:listener-told-twice-or-at-wrong-time')
    if name == 'NoOverdue':
        return 'C18:NoOverdue:deadline-passed-without-' + ('timer-callback' if any(
            r['ev'] == 'tnew' for r in prefix) else 'removal')
    if name == 'ResultIffLive':
        if (ev.get('ev') == 'reply' and not ev.get('res')) or ev.get('ev') == 'rdone':
            return 'C18:ResultIffLive:no-result-event-for-reply-to-live-request'
        return 'C18:ResultIffLive:result-event-for-unregistered-or-other-request'
    if name == 'RegistryExact':
        return 'C18:RegistryExact:SearchManager.requests-is-not-the-set-of-live-requests'
    if name == 'ApiCallRaised':
        return f"C18:ApiCallRaised:{ev.get('what')}"
    return f"C18:{name}:{ev.get('ev')}"


# ---------------------------------------------------------------------------
# binding self-test: corrupted traces must be rejected
# ---------------------------------------------------------------------------

def corruptions(trace, need):
    """Yield (what, corrupted trace) for one accepted trace; only the kinds in `need`."""
    def first(pred):
        for i, r in enumerate(trace):
            if pred(i, r):
                return i
        return None

    def edit(fn):
        bad = copy.deepcopy(trace)
        fn(bad)
        return bad

    if need & {'drop-removed-event', 'duplicate-removed-event'}:
        i = first(lambda i, r: r['ev'] == 'removed')
        if i is not None:
            if 'drop-removed-event' in need:
                yield 'drop-removed-event', edit(lambda t: t.pop(i))
            if 'duplicate-removed-event' in need:
                yield 'duplicate-removed-event', edit(lambda t: t.insert(i + 1, copy.deepcopy(t[i])))
    if 'drop-result-of-live-reply' in need:
        i = first(lambda i, r: r['ev'] == 'reply' and r['res'])
        if i is not None:
            yield 'drop-result-of-live-reply', edit(lambda t: t[i].update(res=[]))
    if 'result-for-reply-with-dead-ticket' in need:
        i = first(lambda i, r: r['ev'] == 'reply' and not r['res'] and r['reqs'])
        if i is not None:
            yield 'result-for-reply-with-dead-ticket', edit(lambda t: t[i].update(res=[t[i]['reqs'][0][1]]))
    if 'second-live-request-with-same-ticket' in need:
        i = first(lambda i, r: r['ev'] == 'create' and len(r['reqs']) >= 2)
        if i is not None:
            other = [p for p in trace[i]['reqs'] if p[1] != trace[i]['e']][0]
            yield 'second-live-request-with-same-ticket', edit(lambda t: t[i].update(tk=other[0]))
    if need & {'loop-error-after-removal', 'removed-event-after-manual-removal'}:
        i = first(lambda i, r: r['ev'] == 'remove' and r['exc'] == 'none')
        if i is not None:
            r = trace[i]
            if 'loop-error-after-removal' in need:
                yield 'loop-error-after-removal', edit(lambda t: t.insert(
                    i + 1, dict(ev='looperr', exc='KeyError', tk=0, now=r['now'], reqs=r['reqs'])))
            if 'removed-event-after-manual-removal' in need:
                yield 'removed-event-after-manual-removal', edit(lambda t: t.insert(
                    i + 1, dict(ev='removed', e=r['e'], now=r['now'], reqs=r['reqs'])))
    if need & {'duplicate-result-of-reply-in-flight', 'drop-result-of-reply-in-flight'}:
        i = first(lambda i, r: r['ev'] == 'result')
        if i is not None:
            e = trace[i]['e']
            if 'duplicate-result-of-reply-in-flight' in need:
                yield 'duplicate-result-of-reply-in-flight', edit(lambda t: t.insert(i + 1, copy.deepcopy(t[i])))
            if ('drop-result-of-reply-in-flight' in need and sum(1 for r in trace if r['ev'] == 'rin') == 1
                    and not any(r['ev'] in ('remove', 'removed') and r['e'] == e for r in trace)
                    and any(r['ev'] == 'create' and r['e'] == e for r in trace[:i])
                    and first(lambda j, r: r['ev'] == 'rin') > first(lambda j, r: r['ev'] == 'create' and r['e'] == e)):
                yield 'drop-result-of-reply-in-flight', edit(lambda t: t.pop(i))
    if need & {'drop-listener-report', 'duplicate-listener-report'}:
        i = first(lambda i, r: r['ev'] == 'ltold')
        if i is not None:
            if 'drop-listener-report' in need:
                yield 'drop-listener-report', edit(lambda t: t.pop(i))
            if 'duplicate-listener-report' in need:
                yield 'duplicate-listener-report', edit(lambda t: t.insert(i + 1, copy.deepcopy(t[i])))
    if 'fire-after-cancel' in need:
        i = first(lambda i, r: r['ev'] == 'tcancel')
        if i is not None:
            r = trace[i]
            yield 'fire-after-cancel', edit(lambda t: t.insert(i + 1, dict(ev='fire', e=r['e'], now=r['now'], reqs=[])))
    if 'drop-fire' in need:
        # a callback that ran last thing before the loop went quiet (so that dropping it cannot be
        # read as "cancelled at the deadline")
        i = first(lambda i, r: r['ev'] == 'fire' and i + 1 < len(trace) and trace[i + 1]['ev'] == 'quiet')
        if i is not None:
            yield 'drop-fire', edit(lambda t: t.pop(i))


# ---------------------------------------------------------------------------

def _key(ev):
    return tuple((e['ev'], e.get('e'), e.get('tk'), e.get('d'), e.get('now'), tuple(e.get('res', ())),
                  e.get('kind'), e.get('exc')) for e in ev)


def run(chk: Check, args):
    import os
    thorough = chk.tier == 'thorough'
    workers = min(8, int(os.environ.get('VERIF_TLC_WORKERS', '8')))
    chk.cov['rule'] = ('schedule = (settings, sequence of stimuli search/command-search/WishlistInterval/remove/'
                       'reply(ticket)/Timer start-cancel-reschedule/yield/advance-one-tick) projected from TLC '
                       'behaviours of SearchRequests (edge cover of the exhaustive small graphs, simulation of the '
                       'larger configurations) or drawn by a seeded generator; each is executed on the real '
                       'SearchManager / search commands / tasks.Timer in a virtual-time loop (rigs L, F, T) and the '
                       'recorded trace is judged by TLC against SearchRequestsTrace; distinct = distinct recorded '
                       'traces; non-trivial = a request or timer was created')

    # ---- design models -------------------------------------------------------------------
    from concurrent.futures import ThreadPoolExecutor
    deviations = (('MC_req_code_remove.cfg', 'NoLoopError'), ('MC_req_code_gen.cfg', 'DistinctTickets'),
                  ('MC_timer_code.cfg', 'SupersededNeverFires'), ('MC_req_code_reply.cfg', 'ResultIffLive'),
                  ('MC_req_code_start.cfg', 'NoLoopError'), ('MC_req_code_recmd.cfg', 'DistinctTickets'),
                  ('MC_req_code_selfcancel.cfg', 'AllTold'), ('MC_req_code_loss.cfg', 'NoOverdue'))
    with ThreadPoolExecutor(max_workers=4) as pool:
        f_req = pool.submit(dump_cover, 'MC_req_tiny.cfg')
        f_tm = pool.submit(dump_cover, 'MC_timer_tiny.cfg')
        f_held = pool.submit(dump_cover, 'MC_req_held_tiny.cfg')
        f_sent = pool.submit(dump_cover, 'MC_req_sent_tiny.cfg')
        f_lst = pool.submit(dump_cover, 'MC_req_lst_tiny.cfg')
        f_loss = pool.submit(dump_cover, 'MC_req_loss_tiny.cfg')
        f_dev = [pool.submit(tlc.run_tlc, SPEC, cfg, workers=2, timeout=900) for cfg, _ in deviations]
        scheds_req = cover_schedules(chk, 'MC_req_tiny.cfg', 'SearchRequests requests tiny (exhaustive)',
                                     REQ_ACTIONS, f_req.result())
        scheds_tm = cover_schedules(chk, 'MC_timer_tiny.cfg', 'SearchRequests timer tiny (exhaustive)',
                                    TIMER_ACTIONS, f_tm.result())
        # replies whose connection is slow to close, with removals / expiries inside that window
        scheds_held = cover_schedules(chk, 'MC_req_held_tiny.cfg', 'SearchRequests held replies tiny (exhaustive)',
                                      HELD_ACTIONS, f_held.result())
        # listeners of SearchRequestSentEvent that remove the request / suspend; commands executed again
        scheds_sent = cover_schedules(chk, 'MC_req_sent_tiny.cfg', 'SearchRequests sent-event listeners tiny (exhaustive)',
                                      SENT_ACTIONS, f_sent.result())
        # the application's listeners of SearchRequestRemovedEvent: one that suspends, then a plain one
        scheds_lst = cover_schedules(chk, 'MC_req_lst_tiny.cfg', 'SearchRequests removed-event listeners tiny (exhaustive)',
                                     LST_ACTIONS, f_lst.result())
        # the server connection is lost while requests are pending: their timeouts stay in force
        scheds_loss = cover_schedules(chk, 'MC_req_loss_tiny.cfg', 'SearchRequests server loss tiny (exhaustive)',
                                      LOSS_ACTIONS, f_loss.result())
        # the code's position of each switch must break the property it is about
        for (cfg, prop), fut in zip(deviations, f_dev):
            r = fut.result()
            caught = any(i.name == prop for i in r.issues)
            chk.cov['binding_selftest'][f'model_{cfg[3:-4]}_violates_{prop}'] = caught
            if not caught:
                raise MachineryFailure(f'{cfg}: the design model with the switch in the code position does not '
                                       f'violate {prop}')
    if thorough:
        scheds_req.update({k: v for k, v in cover_schedules(
            chk, 'MC_req_small.cfg', 'SearchRequests requests small (exhaustive)', REQ_ACTIONS).items()
            if k not in scheds_req})
        scheds_tm.update({k: v for k, v in cover_schedules(
            chk, 'MC_timer_small.cfg', 'SearchRequests timer small (exhaustive)', TIMER_ACTIONS).items()
            if k not in scheds_tm})
        r = tlc.model_check(SPEC, 'MC_req.cfg', expect_actions=REQ_ACTIONS, timeout=3000)
        chk.add_model('SearchRequests requests (exhaustive)', r)
        r = tlc.model_check(SPEC, 'MC_req_held.cfg', expect_actions=HELD_ACTIONS, timeout=3000)
        chk.add_model('SearchRequests held replies (exhaustive)', r)
        r = tlc.model_check(SPEC, 'MC_timer.cfg', expect_actions=TIMER_ACTIONS, timeout=3000)
        chk.add_model('SearchRequests timer (exhaustive)', r)
        r = tlc.model_check(SPEC, 'MC_timer2.cfg', expect_actions=TIMER_ACTIONS, timeout=3000)
        chk.add_model('SearchRequests two timers (exhaustive)', r)
        for k, v in sim_schedules(chk, 'MC_req_big.cfg', 1500, 60, chk.seed + 1).items():
            scheds_req.setdefault(k, v)
        for k, v in sim_schedules(chk, 'MC_timer2.cfg', 1000, 50, chk.seed + 2).items():
            scheds_tm.setdefault(k, v)

    # quick: a seeded sample of the cover; thorough: all of it
    def pick(scheds, cap):
        keys = sorted(scheds)
        if cap is not None and len(keys) > cap:
            chk.rng.shuffle(keys)
            keys = sorted(keys[:cap])
        return keys
    req_keys = pick(scheds_req, None if thorough else 1000)
    tm_keys = pick(scheds_tm, None if thorough else 1000)
    held_keys = pick(scheds_held, None if thorough else 600)
    sent_keys = pick(scheds_sent, None if thorough else 550)
    lst_keys = pick(scheds_lst, None if thorough else 350)
    loss_keys = pick(scheds_loss, None if thorough else 300)
    full_cover = thorough

    # ---- replay on the real code ----------------------------------------------------------
    plan = []      # (cfg, stimuli, source)
    conc = chk.rng.randrange(1 << 30)
    for n, key in enumerate(req_keys):
        rt, wt, st = key
        plan.append((dict(rig='L', rt=rt, wt=wt, items=1 if n % 3 else 2, conc=conc + n), st, scheds_req[key]))
    # the full client over the simulated network: a sample of the same schedules
    keys = list(req_keys)
    chk.rng.shuffle(keys)
    for n, key in enumerate(keys[:(1500 if thorough else 250)]):
        rt, wt, st = key
        plan.append((dict(rig='F', rt=rt, wt=wt, items=1 if n % 2 else 2, conc=conc + 7 * n), st, scheds_req[key]))
    for n, key in enumerate(held_keys):
        rt, wt, st = key
        plan.append((dict(rig='L', rt=rt, wt=wt, items=0, conc=conc + n), st, scheds_held[key]))
    keys = list(held_keys)
    chk.rng.shuffle(keys)
    for n, key in enumerate(keys[:(600 if thorough else 150)]):
        rt, wt, st = key
        plan.append((dict(rig='F', rt=rt, wt=wt, items=0, conc=conc + 5 * n), st, scheds_held[key]))
    for n, key in enumerate(sent_keys):
        rt, wt, st = key
        plan.append((dict(rig='L', rt=rt, wt=wt, items=0, conc=conc + n), st, scheds_sent[key]))
    keys = list(sent_keys)
    chk.rng.shuffle(keys)
    for n, key in enumerate(keys[:(500 if thorough else 120)]):
        rt, wt, st = key
        plan.append((dict(rig='F', rt=rt, wt=wt, items=0, conc=conc + 3 * n), st, scheds_sent[key]))
    for n, key in enumerate(lst_keys):
        rt, wt, st = key
        # the model's pair (suspending, plain) slot-exactly; other listener sets on the same schedules
        plan.append((dict(rig='L' if n % 6 else 'F', rt=rt, wt=wt, items=1, conc=conc + n,
                          lst='us' if n % 2 == 0 else LST_CODES[(n // 2) % len(LST_CODES)]), st, scheds_lst[key]))
    for n, key in enumerate(loss_keys):
        rt, wt, st = key
        plan.append((dict(rig='L' if n % 3 else 'F', rt=rt, wt=wt, items=1, conc=conc + n), st, scheds_loss[key]))
    # the other request histories: every third one with some listeners of the removed event
    for n, (cfg, st, src) in enumerate(plan):
        if cfg['rig'] in 'LF' and 'lst' not in cfg and not src.startswith('sim:') and n % 3 == 0:
            cfg['lst'] = LST_CODES[(n // 3) % len(LST_CODES)]
    for n, key in enumerate(tm_keys):
        plan.append((dict(rig='T', tick=(1.0, 0.5, 0.25)[n % 3], conc=conc + n), key[2], scheds_tm[key]))
    for n in range(2500 if thorough else 250):
        cfg, st = random_request_scenario(chk.rng, 'L' if n % 4 else 'F')
        cfg['conc'] = conc + 13 * n
        plan.append((cfg, st, 'random'))
    for n in range(2000 if thorough else 250):
        cfg, st = random_timer_scenario(chk.rng)
        cfg['conc'] = conc + 17 * n
        plan.append((cfg, st, 'random'))

    traces, metas = [], []
    overflow = other_errors = 0
    conf = dict(compared=0, as_predicted=0, as_predicted_up_to_same_instant_timer_order=0, differ=0)
    for cfg, st, src in plan:
        ev, r = execute(cfg, st)
        pred = PREDICTED.get((cfg.get('rt', 0), cfg.get('wt', 0), st)) if cfg['rig'] in 'LT' and src.startswith('sim:') else None
        if pred is not None and (cfg['rig'] == 'T' or cfg.get('items') == SIM_ITEMS):
            # slot-exactness of the design model: the real loop emits what the model predicted
            # (the model is bounded: it stops creating requests when it runs out of entity ids)
            obs = [o for o in observed_events(ev, r.tick) if o[1] <= SIM_ENTS]
            conf['compared'] += 1
            if obs[:len(pred)] == pred:
                conf['as_predicted'] += 1
            elif _same_up_to_timer_order(pred, obs):
                # timers due at the same instant: the model allows any order, the loop uses its heap order
                conf['as_predicted_up_to_same_instant_timer_order'] += 1
            else:
                conf['differ'] += 1
                if len(chk.notes) < 5:
                    chk.notes.append(f'design model predicted other events than the real loop produced: '
                                     f'{cfg} {st} predicted {pred} observed {obs}')
        other_errors += r.other_errors
        if r.overflow:
            overflow += 1
            continue
        traces.append(ev)
        metas.append(dict(cfg=cfg, stimuli=st, source=src))
        chk.count(_key(ev), nontrivial=any(e['ev'] in ('create', 'tnew') for e in ev))
    chk.cov['replayed'] = dict(total=len(traces),
                               by_rig={rg: sum(1 for m in metas if m['cfg']['rig'] == rg) for rg in 'LFT'},
                               dropped_too_many_entities=overflow,
                               loop_errors_outside_search_code=other_errors)
    chk.cov['exhaustive'] = bool(full_cover)
    chk.cov['design_model_predictions'] = conf
    chk.log(f'replayed {len(traces)} schedules on the real code '
            f'({chk.cov["replayed"]["by_rig"]}), {overflow} dropped (entity bound)')
    for i in (0, len(traces) // 3, 2 * len(traces) // 3, len(traces) - 1):
        chk.sample(dict(meta=metas[i], trace=[{k: v for k, v in e.items() if k != 'reqs'} for e in traces[i]]))

    # ---- judge every execution ----------------------------------------------------------------
    v, runs = validate(traces, workers)
    for res in runs:
        chk.add_trace_run(res)
    if any(info.get('name') == 'MalformedRecord' for info in v.rejected.values()):
        tid = [t for t, i in v.rejected.items() if i.get('name') == 'MalformedRecord'][0]
        raise MachineryFailure(f'recorder produced a malformed record: trace {tid} {v.rejected[tid]} '
                               f'{metas[tid - 1]}')
    # one violation per fingerprint (the first trace that shows it), with TLC's own counterexample
    chk.cov['traces_validated_against_impl'] += v.n
    groups: dict[str, list[int]] = {}
    for tid, info in sorted(v.rejected.items()):
        groups.setdefault(fingerprint(tid, info, traces[tid - 1]), []).append(tid)
    chk.cov['rejected_by_fingerprint'] = {fp: len(tids) for fp, tids in groups.items()}
    for n, (fp, tids) in enumerate(sorted(groups.items())):
        tid = tids[0]
        info = v.rejected[tid]
        if n < 6:
            d = tlc.diagnose_trace(TRACE, 'TraceDiag.cfg', traces[tid - 1])
            info['detail'] = f"TraceDiag.cfg: {d.get('kind')} {d.get('name')}\n{d.get('detail', '')}"[:4000]
        what = (f"{len(tids)} trace(s); first: trace {tid} breaks {info.get('name')} at record #{info.get('at')} "
                f"{info.get('event')} (rig {metas[tid - 1]['cfg']['rig']}, {metas[tid - 1]['source']})")
        chk.violation(fp, what, dict(trace=traces[tid - 1], verdict=info, meta=metas[tid - 1]))
    chk.log(f'trace validation: {len(v.accepted)} accepted, {len(v.rejected)} rejected')

    # ---- binding self-test: corrupted traces must be rejected --------------------------------
    want = ['drop-removed-event', 'duplicate-removed-event', 'drop-result-of-live-reply',
            'result-for-reply-with-dead-ticket', 'second-live-request-with-same-ticket',
            'loop-error-after-removal', 'removed-event-after-manual-removal', 'fire-after-cancel', 'drop-fire',
            'duplicate-result-of-reply-in-flight', 'drop-result-of-reply-in-flight',
            'drop-listener-report', 'duplicate-listener-report']
    got = {w: [] for w in want}
    for tid in sorted(v.accepted):
        need = {w for w in want if len(got[w]) < 3}
        if not need:
            break
        for what, bad in corruptions(traces[tid - 1], need):
            got[what].append(bad)
    flat = [(w, t) for w in want for t in got[w]]
    if flat:
        cv, _ = validate([t for _, t in flat], workers)
        by = {}
        for i, (w, _) in enumerate(flat, 1):
            ok = i in cv.rejected
            by.setdefault(w, []).append(cv.rejected[i]['name'] if ok else 'ACCEPTED')
        chk.cov['binding_selftest']['corrupted_traces'] = by
        chk.cov['binding_selftest']['corrupted_traces_rejected'] = f'{len(cv.rejected)}/{len(flat)}'
        if len(cv.rejected) != len(flat):
            raise MachineryFailure(f'corrupted traces were accepted by the trace spec: {by}')
    chk.assumptions += [
        'virtual time: the driver advances the clock one tick at a time and only when the loop is quiescent; '
        'timeouts are whole ticks (1 s for requests; 1, 0.5 or 0.25 s for bare timers)',
        'CPython 3.12 asyncio semantics for call_soon FIFO order, Task.cancel and done-callbacks (DESIGN.md appendix A)',
        'the timeout a request is entitled to is taken from docs/source/SETTINGS.rst (request_timeout; '
        'wishlist_request_timeout with 0 = keep and -1 = interval advertised by the server); a request created by a '
        'search command is entitled to request_timeout iff it carries a timer',
        'event listeners are plain functions (they do not suspend inside EventBus.emit)',
        'a loop exception is attributed to C18 only when its traceback passes through aioslsk/tasks.py, '
        'aioslsk/search/ or aioslsk/commands.py',
    ]


def replay(chk: Check, data: dict):
    """Re-execute the schedule of a replay file on the current tree and judge the new trace."""
    import os
    meta = (data.get('replay') or {}).get('meta') or {}
    cfg = dict(meta['cfg'])
    st = tuple(tuple(x) for x in meta['stimuli'])
    ev, r = execute(cfg, st)
    for e in ev:
        print('  ', {k: v for k, v in e.items() if k != 'reqs'}, 'reqs=', e['reqs'])
    v, _ = validate([ev], min(8, int(os.environ.get('VERIF_TLC_WORKERS', '8'))))
    for tid, info in v.rejected.items():
        d = tlc.diagnose_trace(TRACE, 'TraceDiag.cfg', ev)
        info['detail'] = f"TraceDiag.cfg: {d.get('kind')} {d.get('name')}\n{d.get('detail', '')}"[:4000]
    chk.apply_verdicts(v, [ev], fingerprint, meta_of=lambda tid: meta)

"""X03 (beyond the listed properties) - what the client tells other peers about itself, private messages,
upload speed reports (spec: PeerInfo).  Not registered in MANIFEST.json; run with ./check X03.

Direction A: behaviours of the PeerInfo design spec (edge cover of the small exhaustive models, simulated
behaviours of the full-vocabulary model) are turned into stimuli - settings assignments, block list
changes, shared directory changes, peers asking for files / accepting / reading / going away, aborts, peer
requests (optionally held back by an application listener that is told first), private messages
(optionally with back-pressure on the server connection) - and executed on a real, logged-in
SoulSeekClient with real shared directories, three scripted peers (one with two connections) and a
scripted server in virtual time.
Direction B: what the peers read on each connection, what the server read, the PrivateMessageEvents on the
bus and the state notifications of the uploads are recorded and judged by TLC with PeerInfoTrace (the
verdict).

Observation (behaviour that contradicts the library's own documentation; /repo is not changed for it, the trace
spec lets exactly this through as a marked deviation and the check prints an OBSERVATION line):
  queue-size-always-zero   TransferManager.get_queue_size() is 0 whatever is queued (state object compared with
                           an enum member), so PeerUserInfoReply.queue_size is always 0.

Files: specs/PeerInfo/PeerInfo.tla (design), PeerInfoTrace.tla, MC_*.cfg (written by specs/PeerInfo/mkcfg.py),
Trace.cfg / TraceDiag.cfg."""
from __future__ import annotations

import asyncio
import copy
import hashlib
import json
import math
import os
import random
import re
import shutil
import struct
import tempfile
import time
from concurrent.futures import ThreadPoolExecutor

from .. import tlc, vloop, simnet, simserver
from ..core import Check, MachineryFailure

SPEC = 'PeerInfo/PeerInfo.tla'
TRACE = 'PeerInfo/PeerInfoTrace.tla'

CONNS = {'c1': 'p1', 'c2': 'p2', 'c3': 'p1', 'c4': 'p3'}
UPLOADS = {'u1': 'p1', 'u2': 'p2', 'u3': 'p3'}
PEERS = ('p1', 'p2', 'p3')
USERS = ('p1', 'p2', 'p3', 'x')
DIRS = ('a', 'b', 'nx')
CLIENT_PORT = 61000
PEER_PORT = {'p1': 40001, 'p2': 40002, 'p3': 40003}
STEP = 0.12          # virtual seconds after every stimulus (two management cycles)
PM_HOLD_MAX = 5.0    # the server connection's write timeout is 10 s: back-pressure is released before

CONCRETE = [
    dict(users=dict(p1='alice', p2='bob', p3='carol', x='stranger'),
         desc=dict(da='hello there', db='I share a lot'),
         pic=dict(pa=b'\x89PNG\r\n\x1a\n' + bytes(range(256)), pb=b'\x00'),
         ids={1: 1, 2: 4242, 3: 2 ** 32 - 1},
         ts=[0, 1700000000, 2 ** 32 - 1], tx=['hi', '', 'see you later', 'x' * 700],
         other='SEARCHES', sizes=(20000, 12000, 30000)),
    dict(users=dict(p1='Friend One', p2='some_stranger', p3='X-3', x='server'),
         desc=dict(da='Ünïcödé ✓ description\nsecond line', db=' '),
         pic=dict(pa=bytes(70000), pb=b'GIF89a' + b'\xff' * 40),
         ids={1: 7, 2: 8, 3: 2 ** 31},
         ts=[1, 1234567890, 2 ** 31], tx=['ünï ✓ text', 'a\nb', ' ', 'zzz'],
         other='ROOM_MESSAGES', sizes=(9000, 25000, 17000)),
    dict(users=dict(p1='zoé', p2='björn', p3='u3', x='Nobody In Particular'),
         desc=dict(da='d', db='0'),
         pic=dict(pa=b'\x00\x00', pb=b'p' * 1000),
         ids={1: 2 ** 32 - 2, 2: 0, 3: 65536},
         ts=[5, 6, 7], tx=['0', 'None', 'False', ''],
         other='SEARCHES', sizes=(8193, 16384, 40000)),
]


# ---------------------------------------------------------------------------
# behaviours -> stimuli
# ---------------------------------------------------------------------------

_LABEL = re.compile(r'^(\w+)(?:\((.*)\))?$', re.S)
STIMULI = {'ESetDesc', 'ESetPic', 'ESetSlots', 'EBlock', 'EShares', 'EUpEnqueue', 'LUpStart', 'EUpAccept', 'EUpReject',
           'EUpFinish', 'EUpCut', 'EUpAbort', 'EArrive', 'ERelease', 'EPMRecv', 'EPMRelease'}


def parse_label(label: str):
    m = _LABEL.match(label.strip())
    if not m:
        return None
    name, args = m.group(1), m.group(2)
    if args is None or not args.strip():
        return (name,)
    return (name,) + tuple(tlc.parse_value('<<' + args + '>>'))


def steps_of(labels):
    out = []
    for lab in labels:
        st = parse_label(lab)
        if st and st[0] in STIMULI:
            out.append(tuple(tuple(sorted(a)) if isinstance(a, frozenset) else a for a in st))
    return tuple(out)


def init_of(state):
    """(desc, pic, slots, version) of an initial state of the design model"""
    sv = state['shview']
    ver = 1
    vals = set(dict(sv).values()) if sv else set()
    if 30 in vals or 3 in vals:
        ver = 3
    elif 2 in vals:
        ver = 2
    return (str(state['desc']), str(state['pic']), int(state['slots']), ver)


# ---------------------------------------------------------------------------
# the world on disk
# ---------------------------------------------------------------------------

class World:
    def __init__(self, base: str, idx: int):
        self.idx = idx % len(CONCRETE)
        c = self.c = CONCRETE[self.idx]
        self.base = os.path.join(base, f'w{self.idx}')
        self.dirA = os.path.join(self.base, 'alpha')
        self.dirB = os.path.join(self.base, 'beta')
        self.rel = {'u1': 'one.mp3', 'u2': os.path.join('sub', 'two.mp3'), 'u3': os.path.join('sub', 'three.flac')}
        self.size = dict(zip(('u1', 'u2', 'u3'), c['sizes']))
        os.makedirs(os.path.join(self.base, 'dl'), exist_ok=True)
        for u, rel in self.rel.items():
            p = os.path.join(self.dirA, rel)
            os.makedirs(os.path.dirname(p), exist_ok=True)
            with open(p, 'wb') as fh:
                fh.write((u.encode() * self.size[u])[:self.size[u]])
        os.makedirs(self.dirB, exist_ok=True)
        with open(os.path.join(self.dirB, 'four.ogg'), 'wb') as fh:
            fh.write(b'4' * 1500)
        self.user = dict(c['users'])
        self.uid = {v: k for k, v in self.user.items()}


# ---------------------------------------------------------------------------
# scripted peers
# ---------------------------------------------------------------------------

class FileRun:
    def __init__(self, u, ep, size):
        self.u, self.ep, self.size = u, ep, size
        self.got = 0
        self.close_evt = asyncio.Event()
        self.over = False


class Peer:
    def __init__(self, sess: 'Session', pid: str):
        self.s = sess
        self.pid = pid
        self.name = sess.w.user[pid]
        self.port = PEER_PORT[pid]
        self.sp = simserver.ScriptedPeer(sess.net, self.name, port=self.port)
        self.sp.on_accept = self._on_accept
        self.eps = {}            # conn name -> endpoint dialled to the client
        self.tasks = []
        self.offers = {}         # ticket -> (u, endpoint the offer came on)
        self.open_offer = {}     # u -> ticket
        self.runs = {}           # u -> FileRun

    async def start(self):
        await self.sp.listen()
        self.s.server.addresses[self.name] = (f'10.0.0.{PEERS.index(self.pid) + 2}', self.port, 0)

    async def conn(self, c):
        ep = self.eps.get(c)
        if ep is None or ep.reader.at_eof() or ep.writer.is_closing():
            # in every other world p1's second connection goes to the obfuscated port
            obf = (c == 'c3' and self.s.w.idx % 2 == 1)
            ep = await self.sp.dial(CLIENT_PORT + 1 if obf else CLIENT_PORT, obfuscated=obf)
            ep.obf = obf
            self.eps[c] = ep
            self.s.conn_of_port[ep.link.addr[0][1]] = c
            self.tasks.append(asyncio.create_task(self._read_loop(ep, c), name=f'peer-{self.pid}-{c}'))
            await self.s.settle()
        return ep

    async def _read_loop(self, ep, c):
        M = self.s.M
        while True:
            fr = await ep.read_frame(obfuscated=getattr(ep, 'obf', False))
            if fr is None:
                return
            try:
                msg = M.PeerMessage.deserialize_request(fr)
            except Exception as exc:
                self.s.log('exc', what=f'peer cannot decode a frame on {c}: {type(exc).__name__}')
                continue
            self._on_msg(msg, ep, c)

    async def _on_accept(self, ep):
        M = self.s.M
        fr = await ep.read_frame()
        if fr is None:
            return
        try:
            init = M.PeerInit.Request.deserialize(0, fr)
        except Exception:
            return
        if init.typ != 'F':
            await self._read_loop(ep, 'other')
            return
        try:
            tk = struct.unpack('<I', await ep.reader.readexactly(4))[0]
        except (asyncio.IncompleteReadError, ConnectionError):
            return
        u, _ = self.offers.get(tk, (None, None))
        if u is None:
            ep.close()
            return
        run = FileRun(u, ep, self.s.w.size[u])
        self.runs[u] = run
        # this peer reads slowly: after its next write the client's drain() blocks until the behaviour
        # lets the upload go on (EUpFinish) or breaks the connection (EUpCut)
        ep.link.writers[0].paused = True
        ep.send(struct.pack('<Q', 0))
        while run.got < run.size:
            try:
                chunk = await ep.reader.read(65536)
            except ConnectionError:
                break
            if not chunk:
                break
            run.got += len(chunk)
        if run.got >= run.size:
            await run.close_evt.wait()
        run.over = True
        ep.close()

    def _on_msg(self, msg, ep, c):
        M, s = self.s.M, self.s
        if isinstance(msg, M.PeerUserInfoReply.Request):
            s.log('reply', c=c, kind='info', desc=s.desc_id(msg.description), pic=s.pic_id(msg.has_picture, msg.picture),
                  slots=int(msg.upload_slots), q=int(msg.queue_size), free=bool(msg.has_slots_free))
        elif isinstance(msg, M.PeerSharesReply.Request):
            s.log('reply', c=c, kind='shares', dg=s.digest(('S', canon_dirs(msg.directories), canon_dirs(msg.locked_directories or []))))
        elif isinstance(msg, M.PeerDirectoryContentsReply.Request):
            s.log('reply', c=c, kind='dir', tk=s.ticket_id(msg.ticket), dir=s.dir_key(msg.directory),
                  dg=s.digest(('D', canon_dirs(msg.directories))))
        elif isinstance(msg, M.PeerTransferRequest.Request):
            u = s.upload_of(self.pid, msg.filename)
            if u is not None:
                self.offers[msg.ticket] = (u, ep)
                self.open_offer[u] = msg.ticket
        # everything else (queue failed, upload failed, place in queue ...) is not X03's subject


def send(ep, msg):
    ep.send_message(msg, obfuscated=getattr(ep, 'obf', False))


def canon_dirs(dirs):
    out = []
    for d in dirs or []:
        files = sorted((f.filename, int(f.filesize), f.extension, tuple(sorted((int(a.key), int(a.value)) for a in f.attributes)))
                       for f in d.files)
        out.append((d.name, tuple(files)))
    return tuple(sorted(out))


# ---------------------------------------------------------------------------
# one behaviour on the real client
# ---------------------------------------------------------------------------

class Session:
    def __init__(self, world: World, rng, gated: bool = True):
        self.w = world
        self.rng = rng
        self.gated = gated            # honour the `held` flags of the behaviour (else requests are never held)
        self.events: list[dict] = []
        self.notes: list[str] = []

    def log(self, ev, **kw):
        self.events.append(dict(ev=ev, **kw))

    # -- abstraction of what is seen ------------------------------------------------------------
    def desc_id(self, text):
        if text == '':
            return 'empty'
        for k, v in self.w.c['desc'].items():
            if v == text:
                return k
        return 'unknown'

    def pic_id(self, has, data):
        if not has or not data:
            return 'empty'
        for k, v in self.w.c['pic'].items():
            if v == bytes(data):
                return k
        return 'unknown'

    def digest(self, obj):
        h = hashlib.sha1(repr(obj).encode('utf8', 'surrogatepass')).hexdigest()
        if h not in self._digests:
            self._digests[h] = len(self._digests) + 1
        return self._digests[h]

    def ticket_id(self, tk):
        return int(tk) if 0 <= int(tk) < 2 ** 31 else -1

    def dir_key(self, path):
        for k, v in self.dirpath.items():
            if v == path:
                return k
        return 'unknown'

    def upload_of(self, pid, remote_path):
        for u, p in UPLOADS.items():
            if p == pid and self.remote[u] == remote_path:
                return u
        return None

    def views(self):
        """what the SharesManager's public methods answer now, as digests; a directory request by a user the
        directory is locked for is C08's subject: not constrained here (0)"""
        sm = self.client.shares
        sv, dv = {}, {}
        for p in PEERS:
            name = self.w.user[p]
            vis, locked = sm.create_shares_reply(name)
            sv[p] = self.digest(('S', canon_dirs(vis), canon_dirs(locked)))
            dv[p] = {}
            for d in DIRS:
                if d == 'b' and self.ver == 3 and p != 'p1':
                    dv[p][d] = 0
                else:
                    dv[p][d] = self.digest(('D', canon_dirs(sm.create_directory_reply(self.dirpath[d]))))
        return sv, dv

    # -- observers -----------------------------------------------------------------------------------
    def _on_transfer_added(self, event):
        t = event.transfer
        if not t.is_upload():
            return
        u = self.upload_of(self.w.uid.get(t.username, '?'), t.remote_path)
        if u is None:
            return
        self.transfers[u] = t
        if self._listener not in t.state_listeners:
            # first: told right after the state changed, before anything can run in between
            t.state_listeners.insert(0, self._listener)

    def _on_state(self, transfer, old, new):
        for u, t in self.transfers.items():
            if t is transfer:
                now = self.loop.time()
                rec = dict(u=u, new=new.name, bytes=0, lo=0, hi=0)
                if new.name == 'UPLOADING':
                    self.t_start[u] = now
                if new.name == 'COMPLETE':
                    run = self.peers[UPLOADS[u]].runs.get(u)
                    dur = now - self.t_start.get(u, now)
                    rec.update(bytes=int(run.got) if run else 0, lo=max(0, math.floor(dur * 1000 - 1e-6)),
                               hi=math.ceil(dur * 1000 + 1e-6))
                self.log('up', **rec)

    def _on_pm_event(self, event):
        m = event.message
        c = self.w.c
        rid = {v: k for k, v in c['ids'].items()}
        self.log('pmev', id=rid.get(m.id, 0), **{'from': self.w.uid.get(m.user.name, 'unknown')},
                 direct=(m.is_direct is True), ts=c['ts'].index(m.timestamp) if m.timestamp in c['ts'] else -1,
                 tx=c['tx'].index(m.message) if m.message in c['tx'] else -1)

    async def _gate(self, event):
        """an application listener for MessageReceivedEvent that is told before the library's own"""
        M = self.M
        if isinstance(event.message, (M.PeerUserInfoRequest.Request, M.PeerSharesRequest.Request,
                                      M.PeerDirectoryContentsRequest.Request)):
            c = self.conn_of_port.get(getattr(event.connection, 'port', None))
            fut = self.gates.get(c)
            if fut is not None:
                await fut

    def _on_server_frame(self, sess, msg):
        M = self.M
        if isinstance(msg, M.PrivateChatMessageAck.Request):
            rid = {v: k for k, v in self.w.c['ids'].items()}
            self.log('ack', id=rid.get(msg.chat_id, 0))
        elif isinstance(msg, M.SendUploadSpeed.Request):
            self.log('speed', v=int(msg.speed) if 0 <= int(msg.speed) < 2 ** 31 else -1)

    # -- running ------------------------------------------------------------------------------------------
    def run(self, init, steps):
        self.events = []
        try:
            _, loop = vloop.run(lambda lp: self._main(lp, init, steps))
        except vloop.Deadlock as exc:
            raise MachineryFailure(f'virtual loop deadlock in X03 session: {exc}')
        for ctx in loop.unhandled:
            exc = ctx.get('exception')
            if isinstance(exc, asyncio.CancelledError):
                continue
            self.events.append(dict(ev='exc', what=('loop: ' + str(ctx.get('message')) + ' ' + repr(exc))[:300]))
        return self.events

    async def settle(self):
        await vloop.settle(self.loop, rounds=800)

    async def pause(self, dt=STEP):
        await self.settle()
        await asyncio.sleep(dt)
        await self.settle()
        if self.pm_gate is not None and self.loop.time() - self.pm_gate_since >= PM_HOLD_MAX:
            await self.pm_release()

    async def quiet(self):
        await self.pause()
        self.log('quiet')

    async def pm_release(self):
        if self.pm_gate is not None:
            g, self.pm_gate = self.pm_gate, None
            self.log('pmrelease')
            if not g.done():
                g.set_result(None)
            await self.settle()

    def _gate_server_writer(self):
        """back-pressure on the client's connection to the server: every drain() waits for the gate"""
        link = self.server.sessions[-1].ep.link
        w = link.writers[0]
        orig = w.drain
        me = self

        async def drain():
            g = me.pm_gate
            if g is not None:
                await g
            await orig()
        w.drain = drain

    async def _main(self, loop, init, steps):
        from aioslsk.protocol import messages as M
        from aioslsk.protocol.primitives import UserStats
        from aioslsk.events import TransferAddedEvent, PrivateMessageEvent, MessageReceivedEvent
        self.M, self.loop = M, loop
        self.t0 = loop.time()
        w = self.w
        desc, pic, slots, ver = init
        self.ver = ver
        self._digests = {}
        self.transfers, self.t_start, self.gates, self.conn_of_port = {}, {}, {}, {}
        self.pm_gate, self.pm_gate_since = None, 0.0
        self.cur = dict(desc=desc, pic=pic, slots=slots, blk={u: frozenset() for u in USERS})
        self.net = simnet.SimNet(loop).install()
        try:
            self.server = simserver.ScriptedServer(self.net)
            self.server.handlers[M.AddUser.Request] = lambda s, sess, msg: [
                M.AddUser.Response(msg.username, True, 2, UserStats(1, 1, 1, 1), 'NL')]
            self.server.on_frame = self._on_server_frame
            await self.server.start()
            shared = [dict(path=w.dirA, share_mode='everyone')]
            if ver == 2:
                shared.append(dict(path=w.dirB, share_mode='everyone'))
            elif ver == 3:
                shared.append(dict(path=w.dirB, share_mode='friends'))
            if self.rng.random() < 0.5:
                shared.reverse()
            info = {}
            if desc != 'none':
                info['description'] = self.concrete_desc(desc)
            if pic != 'none':
                info['picture'] = self.concrete_pic(pic)
            settings = simserver.make_settings(
                'me', port=CLIENT_PORT, obfuscated_port=CLIENT_PORT + 1, download_dir=os.path.join(w.base, 'dl'),
                shared=shared, users=dict(friends={w.user['p1']}),
                credentials=dict(username='me', password='pw', info=info),
                transfers=dict(limits=dict(upload_slots=slots)))
            self.settings = settings
            self.client = client = simserver.make_client(settings)
            self.server.addresses['me'] = ('10.0.0.1', CLIENT_PORT, 0)
            self.peers = {p: Peer(self, p) for p in PEERS}

            class Listener:
                async def on_transfer_state_changed(_self, transfer, old, new):
                    self._on_state(transfer, old, new)
            self._listener = Listener()
            self._cbs = [self._on_transfer_added, self._on_pm_event, self._gate]      # the bus holds listeners weakly
            client.events.register(TransferAddedEvent, self._cbs[0], priority=0)
            client.events.register(PrivateMessageEvent, self._cbs[1], priority=0)
            client.events.register(MessageReceivedEvent, self._cbs[2], priority=0)

            await client.start()
            await client.login()
            await client.shares.scan()
            self._gate_server_writer()
            for p in self.peers.values():
                await p.start()
            sdA = client.shares.get_shared_directory(w.dirA)
            try:
                aliasB = client.shares.get_shared_directory(w.dirB).alias
            except Exception:
                aliasB = client.shares.generate_alias(w.dirB)
            self.remote = {u: '@@' + sdA.alias + '\\' + rel.replace(os.sep, '\\') for u, rel in w.rel.items()}
            self.dirpath = dict(a='@@' + sdA.alias + '\\sub', b='@@' + aliasB, nx='@@' + sdA.alias + '\\nothing here')
            for c, p in CONNS.items():
                await self.peers[p].conn(c)
            await asyncio.sleep(0.3)
            await self.settle()
            sv, dv = self.views()
            self.log('init', desc=desc, pic=pic, slots=slots, blk={u: [] for u in USERS},
                     up={u: 'none' for u in UPLOADS}, shview=sv, dview=dv)
            burst = set()          # connections asked since the client was last left to finish
            for k, st in enumerate(steps):
                await self.apply(st)
                # bursts: consecutive private messages, and requests on different connections, are sometimes
                # written back to back (the client sees them in one go); else the client is left to finish
                nxt = steps[k + 1] if k + 1 < len(steps) else None
                if st[0] == 'EArrive':
                    burst.add(st[1])
                if nxt is not None and st[0] == nxt[0] and self.rng.random() < 0.5 and self.pm_gate is None and (
                        (st[0] == 'EPMRecv' and not (nxt[4] and self.gated))
                        or (st[0] == 'EArrive' and nxt[1] not in burst and nxt[1] not in self.gates)):
                    continue
                burst.clear()
                await self.quiet()
            # let go of everything that is held, and look once more
            for c in list(self.gates):
                await self.release(c)
            await self.pm_release()
            await self.quiet()
            self.vtime = loop.time() - self.t0
            try:
                await client.stop()
            except Exception as exc:
                self.notes.append(f'client.stop: {exc!r}')
        finally:
            self.net.uninstall()
        return self.events

    # -- concretisation -------------------------------------------------------------------------------------
    def concrete_desc(self, d):
        return {'none': None, 'empty': ''}.get(d, self.w.c['desc'].get(d))

    def concrete_pic(self, p):
        return {'none': None, 'empty': b''}.get(p, self.w.c['pic'].get(p))

    def flag_value(self, fs):
        from aioslsk.user.model import BlockingFlag
        if set(fs) == {'pm', 'shares', 'info', 'other'}:
            return BlockingFlag.ALL
        val = BlockingFlag.NONE
        for f in fs:
            val |= {'pm': BlockingFlag.PRIVATE_MESSAGES, 'shares': BlockingFlag.SHARES, 'info': BlockingFlag.INFO,
                    'other': BlockingFlag[self.w.c['other']]}[f]
        return val

    async def release(self, c):
        fut = self.gates.pop(c, None)
        if fut is not None:
            self.log('release', c=c)
            if not fut.done():
                fut.set_result(None)
            await self.settle()

    # -- steps -----------------------------------------------------------------------------------------------
    async def apply(self, st):
        name, a = st[0], st[1:]
        M, w, client = self.M, self.w, self.client
        if name == 'ESetDesc':
            self.settings.credentials.info.description = self.concrete_desc(a[0])
            self.log('set', what='desc', val=str(a[0]))
        elif name == 'ESetPic':
            self.settings.credentials.info.picture = self.concrete_pic(a[0])
            self.log('set', what='pic', val=str(a[0]))
        elif name == 'ESetSlots':
            self.settings.transfers.limits.upload_slots = int(a[0])
            self.log('set', what='slots', val=int(a[0]))
        elif name == 'EBlock':
            u, fs = str(a[0]), tuple(a[1])
            bl = self.settings.users.blocked
            if fs:
                bl[w.user[u]] = self.flag_value(fs)
            elif self.rng.random() < 0.5:
                bl.pop(w.user[u], None)
            else:
                bl[w.user[u]] = self.flag_value(())
            self.log('blk', u=u, flags=sorted(fs))
        elif name == 'EShares':
            await self.set_version(int(a[0]))
        elif name == 'EUpEnqueue':
            u = str(a[0])
            p = self.peers[UPLOADS[u]]
            cs = [c for c, o in CONNS.items() if o == p.pid and c not in self.gates] or [c for c, o in CONNS.items() if o == p.pid]
            ep = await p.conn(self.rng.choice(cs))
            send(ep, M.PeerTransferQueue.Request(self.remote[u]))
        elif name in ('EUpAccept', 'EUpReject'):
            u = str(a[0])
            p = self.peers[UPLOADS[u]]
            tk = p.open_offer.pop(u, None)
            if tk is not None:
                _, ep = p.offers[tk]
                if not ep.writer.is_closing():
                    if name == 'EUpAccept':
                        send(ep, M.PeerTransferReply.Request(tk, True, filesize=None))
                    else:
                        send(ep, M.PeerTransferReply.Request(tk, False, reason='Cancelled'))
        elif name == 'EUpFinish':
            u = str(a[0])
            run = self.peers[UPLOADS[u]].runs.get(u)
            if run is not None and not run.over:
                run.ep.link.writers[0].resume()
                for _ in range(40):
                    await self.pause(0.05)
                    if run.got >= run.size or run.over:
                        break
                run.close_evt.set()
                t = self.transfers.get(u)
                for _ in range(40):
                    await self.pause(0.05)
                    if t is None or t.state.VALUE.name != 'UPLOADING':
                        break
        elif name == 'EUpCut':
            u = str(a[0])
            run = self.peers[UPLOADS[u]].runs.get(u)
            if run is not None and not run.over:
                wtr = run.ep.link.writers[0]
                wtr.fail_writes = ConnectionResetError(104, 'Connection reset by peer')
                wtr.resume()
                await self.pause(0.05)
                run.ep.link.cut('reset')
        elif name == 'EUpAbort':
            u = str(a[0])
            t = self.transfers.get(u)
            if t is not None and t.state.VALUE.name in ('QUEUED', 'INITIALIZING', 'UPLOADING'):
                try:
                    await client.transfers.abort(t)
                except Exception as exc:      # not X03's subject
                    self.notes.append(f'abort: {exc!r}')
        elif name == 'EArrive':
            c, kind, tk, d, held = str(a[0]), str(a[1]), int(a[2]), str(a[3]), bool(a[4])
            if c in self.gates:
                return
            held = held and self.gated
            ep = await self.peers[CONNS[c]].conn(c)
            if held:
                self.gates[c] = self.loop.create_future()
            self.log('req', c=c, kind=kind, tk=tk, dir=d, held=held)
            if kind == 'info':
                send(ep, M.PeerUserInfoRequest.Request())
            elif kind == 'shares':
                send(ep, M.PeerSharesRequest.Request(ticket=self.rng.choice([None, 0, 99])))
            else:
                send(ep, M.PeerDirectoryContentsRequest.Request(tk, self.dirpath[d]))
        elif name == 'ERelease':
            await self.release(str(a[0]))
        elif name == 'EPMRecv':
            i, s, d, held = int(a[0]), str(a[1]), str(a[2]), bool(a[3])
            if self.pm_gate is not None:
                return
            held = held and self.gated
            c = w.c
            ts, tx = self.rng.randrange(len(c['ts'])), self.rng.randrange(len(c['tx']))
            if held:
                self.pm_gate = self.loop.create_future()
                self.pm_gate_since = self.loop.time()
            self.log('pm', id=i, **{'from': s}, direct=d, ts=ts, tx=tx, held=held)
            self.server.sessions[-1].send(M.PrivateChatMessage.Response(
                chat_id=c['ids'][i], timestamp=c['ts'][ts], username=w.user[s], message=c['tx'][tx],
                is_direct={'T': True, 'F': False, 'omit': None}[d]))
        elif name == 'EPMRelease':
            await self.pm_release()
        # LUpStart: the library's own step - time passes in quiet()

    async def set_version(self, v):
        from aioslsk.shares.model import DirectoryShareMode
        sm, w = self.client.shares, self.w
        if v == self.ver:
            return
        try:
            sd = sm.get_shared_directory(w.dirB)
        except Exception:
            sd = None
        if v == 1:
            if sd is not None:
                sm.remove_shared_directory(sd)
        else:
            mode = DirectoryShareMode.EVERYONE if v == 2 else DirectoryShareMode.FRIENDS
            if sd is None:
                sd = sm.add_shared_directory(w.dirB, share_mode=mode)
                await sm.scan_directory_files(sd)
            else:
                sm.update_shared_directory(sd, share_mode=mode)
        self.ver = v
        await self.settle()
        sv, dv = self.views()
        self.log('shares', shview=sv, dview=dv)


# ---------------------------------------------------------------------------
# the check
# ---------------------------------------------------------------------------

EXPECT = {
    'MC_info.cfg': ['ESetDesc', 'ESetPic', 'EBlock', 'EArrive', 'ERelease', 'CServe', 'CQuiet'],
    'MC_slots.cfg': ['ESetSlots', 'EUpEnqueue', 'LUpStart', 'EUpAccept', 'EUpReject', 'EUpFinish', 'EUpCut', 'EUpAbort',
                     'EArrive', 'ERelease', 'CServe', 'Speed', 'CQuiet'],
    'MC_shares.cfg': ['EBlock', 'EShares', 'EArrive', 'ERelease', 'CServe', 'CQuiet'],
    'MC_pm.cfg': ['EBlock', 'EPMRecv', 'EPMRelease', 'CAck', 'CPMEvent', 'CPMClose', 'CQuiet'],
}
EXPECT_BIG = {
    'MC_mix.cfg': ['ESetDesc', 'ESetSlots', 'EBlock', 'EShares', 'EUpEnqueue', 'EUpFinish', 'EArrive', 'CServe', 'EPMRecv',
                   'CAck', 'CPMEvent', 'Speed'],
    'MC_info_big.cfg': EXPECT['MC_info.cfg'],
    'MC_slots_big.cfg': EXPECT['MC_slots.cfg'],
    'MC_shares_big.cfg': EXPECT['MC_shares.cfg'],
    'MC_pm_big.cfg': EXPECT['MC_pm.cfg'],
}
DEVIATIONS = {      # design-level mutants: configuration -> the properties one of which must be reported violated
    'MC_dev_infogate.cfg': {'BlockedGetNothing', 'UnblockedGetReply'},
    'MC_dev_dirgate.cfg': {'BlockedGetNothing', 'UnblockedGetReply'},
    'MC_dev_pmgate.cfg': {'BlockedSenderSilent', 'UnblockedSenderHeard'},
    'MC_dev_ack.cfg': {'EveryMessageAcked'},
    'MC_dev_busy.cfg': {'InfoReflectsTransfers', 'InfoIsOneSnapshot'},
    'MC_dev_queued.cfg': {'InfoReflectsTransfers', 'InfoIsOneSnapshot'},
    'MC_dev_ticket.cfg': {'ReplyEchoesRequest'},
    # the position the code is in (observation queue-size-always-zero)
    'MC_code_queue.cfg': {'InfoReflectsTransfers', 'InfoIsOneSnapshot'},
}
OBSERVATIONS = {
    'queue-size-always-zero': 'PeerUserInfoReply.queue_size is 0 although uploads are QUEUED: TransferManager.get_queue_size '
                              'compares transfer.state (a state object) with TransferState.QUEUED (an enum member), which is '
                              'never equal; its docstring says "Returns the amount of queued uploads"',
}
CONSTRAINED = {'reply', 'ack', 'pmev', 'speed'}


def cover_walks(g, max_len, rng, max_walks=None):
    """Walks from initial states that together cover every edge of the state graph: follow an edge not yet
    covered when the current state has one, else go to the nearest state that has one (BFS), until the walk
    is max_len long.  Returns (walks, covered edge count per prefix of the walk list)."""
    from collections import defaultdict, deque
    out = defaultdict(list)
    for e in sorted(g.edges):                 # TLC's dump order depends on its worker threads
        out[e[0]].append(e)
    for k in sorted(out):
        rng.shuffle(out[k])
    todo = {k: list(v) for k, v in out.items()}      # uncovered edges per source
    n_todo = len(g.edges)
    walks, progress = [], []
    inits = sorted(g.init)
    while n_todo and (max_walks is None or len(walks) < max_walks):
        cur = rng.choice(inits)
        walk = []
        while len(walk) < max_len and n_todo:
            if todo.get(cur):
                e = todo[cur].pop()
                n_todo -= 1
                walk.append(e)
                cur = e[2]
                continue
            # nearest state with an uncovered edge
            parent = {cur: None}
            dq = deque([cur])
            goal = None
            while dq:
                x = dq.popleft()
                if todo.get(x):
                    goal = x
                    break
                for e in out.get(x, ()):
                    if e[2] not in parent:
                        parent[e[2]] = e
                        dq.append(e[2])
            if goal is None:
                break
            hop = []
            while parent[goal] is not None:
                hop.append(parent[goal])
                goal = parent[goal][0]
            hop.reverse()
            if len(walk) + len(hop) >= max_len and walk:
                break
            walk.extend(hop)
            cur = hop[-1][2] if hop else cur
        if not walk:
            break
        walks.append(walk)
        progress.append(len(g.edges) - n_todo)
    return walks, progress


def fingerprint_of(tid, info, trace):
    ev = info.get('event') or {}
    site = ev.get('ev', '?')
    if site == 'reply':
        site = f"reply-{ev.get('kind')}"
    if site == 'quiet':
        site = 'quiescence'
    return f"X03:{site}:{info.get('name')}"


def corrupt(trace, rng):
    """one observed field of one record changed to a value that is wrong whatever the window: the trace must be
    rejected"""
    t = copy.deepcopy(trace)
    idx = [i for i, e in enumerate(t) if e['ev'] in CONSTRAINED]
    rng.shuffle(idx)

    def held(i):
        for j in range(i - 1, -1, -1):
            if t[j]['ev'] == 'req' and t[j]['c'] == t[i]['c']:
                return t[j]['held']
        return True
    for i in idx:
        e = t[i]
        if e['ev'] == 'reply' and e['kind'] == 'info':
            k = rng.choice(['desc', 'pic', 'slots', 'q', 'free'])
            if k == 'free' and held(i):
                k = 'slots'
            if k in ('desc', 'pic'):
                e[k] = 'unknown'
            elif k == 'free':
                e['free'] = not e['free']
            else:
                e[k] = e[k] + 5
            return t, f'info.{k}'
        if e['ev'] == 'reply' and e['kind'] == 'dir':
            k = rng.choice(['tk', 'dg', 'c'])
            if k == 'dg' and e['dir'] == 'b':       # may be a request C08 judges (expectation 0 = not constrained here)
                k = 'tk'
            if k == 'c':
                e['c'] = 'c2' if e['c'] != 'c2' else 'c1'
            else:
                e[k] = e[k] + 1000
            return t, f'dir.{k}'
        if e['ev'] == 'reply' and e['kind'] == 'shares':
            e['dg'] = e['dg'] + 1000
            return t, 'shares.dg'
        if e['ev'] == 'ack':
            if rng.random() < 0.5:
                t.insert(i, dict(e))
                return t, 'ack.twice'
            del t[i]
            return t, 'ack.missing'
        if e['ev'] == 'pmev':
            k = rng.choice(['direct', 'ts', 'from', 'twice'])
            if k == 'direct':
                e['direct'] = not e['direct']
            elif k == 'ts':
                e['ts'] = e['ts'] + 1
            elif k == 'from':
                e['from'] = 'p2' if e['from'] != 'p2' else 'x'
            else:
                t.insert(i, dict(e))
            return t, f'pmev.{k}'
        if e['ev'] == 'speed':
            k = rng.choice(['v', 'missing', 'twice'])
            if k == 'v':
                e['v'] = e['v'] * 2 + 7
            elif k == 'missing':
                del t[i]
            else:
                t.insert(i, dict(e))
            return t, f'speed.{k}'
    return None, None


def observe(chk, v, traces, metas):
    """marks = tolerated behaviour that contradicts the library's documentation (observations, printed, never a
    failure); anything else on an accepting path would be an unknown mark: a machinery failure"""
    seen = {}
    for tid, marks in v.accepted.items():
        for mk in sorted(marks):
            if mk not in OBSERVATIONS:
                raise MachineryFailure(f'unknown mark {mk!r} on trace {tid}')
            seen.setdefault(mk, []).append(tid)
        marks.clear()
    obs = chk.cov.setdefault('observations', {})
    for mk, tids in sorted(seen.items()):
        tr = traces[tids[0] - 1]
        ex = next((e for e in tr if e['ev'] == 'reply' and e.get('kind') == 'info' and e.get('q') == 0), None)
        obs[mk] = dict(what=OBSERVATIONS[mk], traces=obs.get(mk, {}).get('traces', 0) + len(tids),
                       example=dict(meta=metas[tids[0] - 1], record=ex))
        print(f'OBSERVATION property={chk.pid} {mk} (tolerated, marked; in {len(tids)} traces) :: {OBSERVATIONS[mk]}', flush=True)
        chk.notes.append(f'observation {mk}: {OBSERVATIONS[mk]}')


def run(chk: Check, args):
    thorough = chk.tier == 'thorough'
    chk.cov['rule'] = ('behaviours of the PeerInfo design models (edge cover of the small state graphs, simulation of the '
                       'full-vocabulary model) executed on a real logged-in SoulSeekClient with real shares, 3 scripted peers '
                       '(4 connections) and a scripted server; distinct = distinct (initial settings, stimulus sequence, '
                       'concretisation); non-trivial = at least one reply / ack / event / speed report was judged')
    workers = int(os.environ.get('VERIF_TLC_WORKERS', '8'))
    pool = ThreadPoolExecutor(max_workers=4)

    # --- design models, state graphs dumped (in the background) -------------------------------------------
    def timed(fn, *a, **kw):
        # time.time is pointed at the virtual clock while a session runs in the main thread: measure here
        t0 = time.perf_counter()
        out = fn(*a, **kw)
        res = out[1] if isinstance(out, tuple) else out
        res.wall_s = time.perf_counter() - t0
        return out

    def graph_job(cfg, exp, w):
        g, res = timed(tlc.dump_graph, SPEC, cfg, parse_states='init', coverage=True, timeout=900, workers=w)
        if res.ok:
            missing = [a for a in exp if res.coverage.get(a, (0, 0))[1] == 0]
            if missing:
                raise tlc.TLCError(f'vacuity: actions never taken in {cfg}: {missing}')
        return g, res
    # quick: the two larger small graphs (slots, shares) are model checked and sampled by simulation instead
    graphed = [c for c in EXPECT if thorough or c in ('MC_info.cfg', 'MC_pm.cfg')]
    futs = {cfg: pool.submit(graph_job, cfg, EXPECT[cfg], max(2, workers // 2)) for cfg in graphed}
    sim_plan = [('MC_sim.cfg', 1800 if thorough else 240, 60 if thorough else 45, chk.seed + 11),
                ('MC_sim_up.cfg', 500 if thorough else 70, 70, chk.seed + 12)]
    if not thorough:
        sim_plan += [('MC_shares.cfg', 40, 70, chk.seed + 13), ('MC_slots.cfg', 60, 70, chk.seed + 14)]
    sim_futs = {cfg: pool.submit(timed, tlc.simulate_behaviours, SPEC, cfg, num=num, depth=depth, seed=seed, timeout=900)
                for cfg, num, depth, seed in sim_plan}
    mc_futs = {cfg: pool.submit(timed, tlc.model_check, SPEC, cfg, expect_actions=EXPECT[cfg], timeout=900, workers=max(2, workers // 2))
               for cfg in EXPECT if cfg not in graphed}
    big_futs = {}
    dev_futs = {cfg: pool.submit(tlc.run_tlc, SPEC, cfg, timeout=600, workers=2) for cfg in DEVIATIONS}
    if thorough:
        for cfg, exp in EXPECT_BIG.items():
            big_futs[cfg] = pool.submit(timed, tlc.model_check, SPEC, cfg, expect_actions=exp, timeout=1500,
                                        workers=max(2, workers // 2))

    # --- behaviours -----------------------------------------------------------------------------------------
    cases = []          # (init, steps, source)
    seen = set()

    def add_case(init, steps, src):
        if not steps:
            return
        key = (init, steps)
        if key in seen:
            return
        seen.add(key)
        cases.append((init, steps, src))

    sims = {}

    # walks that cover the transitions of the small models (thorough: all transitions of the info model, the
    # first 500 - 1000 walks of the others; quick: the first 45 walks of the info and private message models)
    caps = {'MC_info.cfg': (45, None), 'MC_pm.cfg': (45, 1000), 'MC_slots.cfg': (0, 1000), 'MC_shares.cfg': (0, 500)}
    models = {}
    for cfg in graphed:
        g, res = futs[cfg].result()
        models[cfg] = res
        cap = caps[cfg][1] if thorough else caps[cfg][0]
        walks, progress = cover_walks(g, 90 if thorough else 70, chk.rng, max_walks=cap)
        chk.cov.setdefault('cover', {})[cfg] = dict(edges=len(g.edges), walks=len(walks),
                                                     edges_covered=progress[-1] if progress else 0)
        for wk in walks:
            add_case(init_of(g.states[wk[0][0]]), steps_of([e[1] for e in wk]), cfg)
        del g
    for cfg, f in sim_futs.items():
        behs, res = f.result()
        for b in behs:
            add_case(init_of(b[0][1]), steps_of([lab for lab, _ in b[1:]]), cfg)
        sims[cfg] = (res, len(behs))
    chk.log(f'{len(cases)} behaviours to replay ({sum(n for _, n in sims.values())} simulated)')

    # --- replay ------------------------------------------------------------------------------------------------
    base = tempfile.mkdtemp(prefix='x03-')
    traces, metas = [], []
    vmax = 0.0
    try:
        worlds = [World(base, i) for i in range(len(CONCRETE))]
        for n, (init, steps, src) in enumerate(cases):
            wi = n % len(worlds)
            gated = (n % 4) != 3
            rseed = chk.seed * 1000003 + n
            sess = Session(worlds[wi], random.Random(rseed), gated=gated)
            ev = sess.run(init, steps)
            traces.append(ev)
            metas.append(dict(init=init, steps=steps, world=wi, gated=gated, rseed=rseed, source=src, notes=sess.notes[:5]))
            chk.count((init, steps, wi, gated), nontrivial=any(e['ev'] in CONSTRAINED for e in ev))
            vmax = max(vmax, getattr(sess, 'vtime', 0.0))
            if n % 100 == 0:
                chk.log(f'  replayed {n + 1}/{len(cases)}')
    finally:
        shutil.rmtree(base, ignore_errors=True)
    stats = {}
    for tr in traces:
        for e in tr:
            k = e['ev'] + ('-' + e['kind'] if e['ev'] in ('reply', 'req') else '')
            stats[k] = stats.get(k, 0) + 1
        for e in tr:
            if e['ev'] == 'up':
                stats['up-' + e['new']] = stats.get('up-' + e['new'], 0) + 1
    chk.cov['observed'] = stats
    chk.cov['longest_session_virtual_s'] = round(vmax, 1)
    chk.sample(dict(meta=metas[0], trace=traces[0]) if traces else {})
    big = max(range(len(traces)), key=lambda i: sum(e['ev'] in CONSTRAINED for e in traces[i])) if traces else None
    if big is not None:
        chk.sample(dict(meta=metas[big], trace=traces[big]))
    for need in ('reply-info', 'reply-shares', 'reply-dir', 'ack', 'pmev', 'speed', 'up-COMPLETE', 'up-FAILED', 'release',
                 'pmrelease'):
        if not stats.get(need):
            raise MachineryFailure(f'vacuous replay: no {need} record in any trace')

    chk.log(f'{len(traces)} executions recorded')

    # --- verdict ---------------------------------------------------------------------------------------------------
    v = tlc.validate_traces(TRACE, 'Trace.cfg', traces, diag_cfg='TraceDiag.cfg', timeout=1500, workers=workers)
    observe(chk, v, traces, metas)
    chk.apply_verdicts(v, traces, fingerprint_of, meta_of=lambda tid: metas[tid - 1])
    chk.log(f'{len(v.accepted)} traces accepted, {len(v.rejected)} rejected')

    # --- the design models' results ---------------------------------------------------------------------------------
    for cfg, res in models.items():
        chk.add_model(f'PeerInfo {cfg}', res)
    for cfg, f in mc_futs.items():
        chk.add_model(f'PeerInfo {cfg}', f.result())
    for cfg, f in big_futs.items():
        chk.add_model(f'PeerInfo {cfg}', f.result())
    for cfg, (res, nb) in sims.items():
        chk.add_model(f'PeerInfo {cfg} (simulation, {nb} behaviours)', res, exhaustive=False)
    for cfg, f in dev_futs.items():
        r = f.result()
        hit = sorted({i.name for i in r.issues} & DEVIATIONS[cfg])
        chk.cov['binding_selftest'][f'{cfg}_violates'] = hit
        if not hit:
            raise MachineryFailure(f'design model {cfg} (deviation switch out of position) did not violate any of '
                                   f'{sorted(DEVIATIONS[cfg])}: {[(i.kind, i.name) for i in r.issues]}')
    pool.shutdown()

    # --- the binding bites: corrupted traces must be rejected -------------------------------------------------------
    if not v.rejected:
        bad, kinds = [], {}
        order = list(range(len(traces)))
        chk.rng.shuffle(order)
        for i in order:
            t2, kind = corrupt(traces[i], chk.rng)
            if t2 is not None and kinds.get(kind, 0) < 3:
                kinds[kind] = kinds.get(kind, 0) + 1
                bad.append((kind, t2))
            if len(bad) >= 40:
                break
        cv = tlc.validate_traces(TRACE, 'Trace.cfg', [t for _, t in bad], max_diag=0, timeout=900, workers=workers)
        missed = sorted({bad[tid - 1][0] for tid in cv.accepted})
        chk.cov['binding_selftest']['corrupted_traces_rejected'] = f'{len(cv.rejected)}/{len(bad)}'
        chk.cov['binding_selftest']['corruption_kinds'] = kinds
        if missed:
            raise MachineryFailure(f'corrupted traces were accepted: {missed}')
    chk.cov['exhaustive'] = False
    chk.assumptions += [
        'the environment acts when the client is quiescent (ready queue empty), except for what it explicitly holds back: '
        'requests behind an application listener, the flush of the server connection',
        'a request is judged against every moment between its arrival and its answer (it is a read)',
        'which upload is started when is not judged here (C05); upload states are taken from the state notifications',
        'directory requests by a user the directory is locked for are not judged here (C08)',
    ]


def replay(chk: Check, data):
    meta = (data.get('replay') or {}).get('meta') or {}
    if not meta:
        raise MachineryFailure('replay file has no behaviour')
    base = tempfile.mkdtemp(prefix='x03-')
    try:
        w = World(base, int(meta['world']))
        steps = tuple(tuple(tuple(a) if isinstance(a, list) else a for a in st) for st in meta['steps'])
        sess = Session(w, random.Random(int(meta.get('rseed', chk.seed))), gated=bool(meta['gated']))
        ev = sess.run(tuple(meta['init']), steps)
    finally:
        shutil.rmtree(base, ignore_errors=True)
    for e in ev:
        print(json.dumps(e, default=str))
    v = tlc.validate_traces(TRACE, 'Trace.cfg', [ev], diag_cfg='TraceDiag.cfg', timeout=600)
    observe(chk, v, [ev], [meta])
    chk.apply_verdicts(v, [ev], fingerprint_of)

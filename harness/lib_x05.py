"""X05 (PeerMessaging) - the rig: a real aioslsk Network (bare, or inside a logged-in SoulSeekClient) on the simulated
network with a scripted server and scripted peers in virtual time, a recorder that writes the trace PeerMessagingTrace
judges, and a driver that executes schedules (lists of steps) made from behaviours of the PeerMessaging design models.

Observation surfaces: the public EventBus (ConnectionStateChangedEvent, PeerInitializedEvent, MessageReceivedEvent;
listeners registered first), return values / exceptions of send_peer_messages / send_server_messages, the tasks returned
by queue_message(s), and the bytes handed to the transports (taps on the simulated writers, which also play the
environment: back-pressure, refused writes).  The only private attribute read is DataConnection._writer, to tell which
transport belongs to which connection object (with a positional fallback).

Helpers a shared module lacks (kept here, see the report): SimWriter.drain() keeps one waiter only, so back-pressure with
several senders is done by the tap's own per-waiter gates; close() of a transport fails the drains that wait on it
(ConnectionResetError('Connection lost'), as asyncio's StreamWriter does)."""
from __future__ import annotations

import asyncio
import re
import struct

from . import vloop, simnet, simserver
from .core import MachineryFailure

CLIENT_PORT = 61000
PEER_PORT = {'p1': 40001, 'p2': 40002, 'p3': 40003}
NAMES = [
    dict(p1='alice', p2='bob', p3='carol', me='me'),
    dict(p1='Friend One', p2='zoé', p3='x', me='Some Body'),
    dict(p1='björn', p2='p1', p3='user three', me='me2'),
]
MARK = re.compile(rb'x05/(\d+)/(\d+)/')
INMARK = re.compile(r'x05in/(\d+)/(\d+)/')
MAX_MSGS = 3
FINAL_WAITS = (11.0, 64.0, 61.0, 61.0, 61.0, 61.0, 61.0, 61.0, 61.0, 61.0, 61.0, 61.0, 61.0)   # until every call returned


class Tap:
    """Sits on the client's side of one simulated link: records complete frames handed to the transport, plays the
    environment of the link (back-pressure, refused writes)."""

    def __init__(self, rig: 'Rig', link, side: int):
        self.rig, self.link, self.side = rig, link, side
        self.w = link.writers[side]
        self.buf = bytearray()
        self.failbuf = bytearray()
        self.paused = False
        self.failing = None
        self.gates: list = []
        self.cid = None
        self.arm = None          # (frames still to pass, fn)
        self.grace = False       # the frame that triggered `arm` is still flushed
        self._write, self._close = self.w.write, self.w.close
        self.w.write = self.write
        self.w.drain = self.drain
        self.w.close = self.close

    def _frames(self, buf):
        out = []
        while len(buf) >= 4:
            ln = struct.unpack('<I', bytes(buf[:4]))[0]
            if len(buf) < 4 + ln:
                break
            out.append(bytes(buf[:4 + ln]))
            del buf[:4 + ln]
        return out

    def write(self, data):
        data = bytes(data)
        if self.failing is not None:
            self.failbuf += data
            for fr in self._frames(self.failbuf):
                self.rig.on_frame(self, fr, False)
            raise self.failing
        self._write(data)
        self.buf += data
        for fr in self._frames(self.buf):
            self.rig.on_frame(self, fr, True)
            if self.arm is not None:
                left, fn = self.arm
                left -= 1
                if left <= 0:
                    self.arm = None
                    self.grace = True
                    fn()
                else:
                    self.arm = (left, fn)

    async def drain(self):
        # `failing` refuses writes only: a frame the transport took before is flushed; so is the frame that
        # triggered `arm` (grace)
        grace, self.grace = self.grace, False
        if not grace:
            exc = self.link.reset[self.side]
            if exc is not None:
                raise exc
            if self.w.is_closing():
                raise ConnectionResetError('Connection lost')
        if self.paused:
            fut = asyncio.get_running_loop().create_future()
            self.gates.append(fut)
            try:
                await fut
            finally:
                if fut in self.gates:
                    self.gates.remove(fut)
            # the other end read again: what waited is through, whatever happens next
            self.rig.on_flush(self)
        # a transport that is not paused takes the bytes without suspending the writer (as asyncio's does)

    def close(self):
        self._close()
        for fut in list(self.gates):
            if not fut.done():
                fut.set_exception(ConnectionResetError('Connection lost'))

    def release(self):
        self.paused = False
        for fut in list(self.gates):
            if not fut.done():
                fut.set_result(None)


class Rig:
    def __init__(self, mode: str = 'network', names: int = 0, srv_open: bool = True, srv_reader: bool = True):
        self.mode = mode
        self.names = NAMES[names % len(NAMES)]
        self.uid = {v: k for k, v in self.names.items()}
        self.srv_open = srv_open
        self.srv_reader = srv_reader
        self.events: list[dict] = []
        self.notes: list[str] = []
        self.recording = False
        self.last_t = 0
        self.conn_ids: dict[int, int] = {}
        self.conn_objs: dict[int, object] = {}
        self.taps: list[Tap] = []
        self.tap_of: dict[int, Tap] = {}
        self.gates: dict[str, list] = {p: [] for p in PEER_PORT}        # connect attempts per peer, in order
        self.verdicts: dict[str, dict] = {p: {} for p in PEER_PORT}     # attempt index -> verdict decided in advance
        self.mode_of: dict[str, str] = {p: 'ok' for p in PEER_PORT}     # ok | gate
        self.outs: dict[str, list] = {p: [] for p in PEER_PORT}         # our connections per peer (ids), in order
        self.ins: dict[str, list] = {p: [] for p in PEER_PORT}          # accepted connections per peer (ids)
        self.eps: dict[int, object] = {}                                  # cid -> the peer's endpoint
        self.pin: dict[int, int] = {}
        self.calls: dict[int, dict] = {}
        self.tasks: list = []
        self.ncalls = 0
        self.answered_ctp: set = set()
        self.no_srv_block = mode == 'client'

    # -- recording ------------------------------------------------------------------------------------------
    def now_ms(self):
        return int(round((self.loop.time() - self.t0) * 1000))

    def rec(self, ev, **kw):
        if not self.recording:
            return
        t = self.now_ms()
        if t != self.last_t:
            self.events.append(dict(ev='tick', t=t))
            self.last_t = t
        self.events.append(dict(ev=ev, **kw))

    def cid_of(self, conn, create=False):
        if conn is self.network.server_connection:
            return 0
        k = id(conn)
        if k in self.conn_ids:
            return self.conn_ids[k]
        if not create:
            return None
        n = len(self.conn_ids) + 1
        self.conn_ids[k] = n
        self.conn_objs[n] = conn          # keeps the object alive: ids stay unique
        return n

    def pid_of(self, username):
        return self.uid.get(username)

    # -- bus listeners (registered first) ------------------------------------------------------------------
    def _on_state(self, event):
        from aioslsk.network.connection import PeerConnection, ServerConnection
        conn, st = event.connection, event.state.name
        reason = event.close_reason.name if event.close_reason is not None else 'UNKNOWN'
        if isinstance(conn, ServerConnection):
            if conn is self.network.server_connection and st in ('CLOSING', 'CLOSED'):
                self.rec('state', c=0, st=st, reason=reason)
            return
        if not isinstance(conn, PeerConnection):
            return
        if st == 'CONNECTING':
            p = self.pid_of(conn.username)
            if conn.connection_type == 'P' and not conn.incoming and p in PEER_PORT:
                c = self.cid_of(conn, create=True)
                self.outs[p].append(c)
                self.rec('open', c=c, user=p)
            return
        c = self.cid_of(conn)
        if c is None:
            return
        self.rec('state', c=c, st=st, reason=reason)

    def _on_init(self, event):
        conn = event.connection
        if conn.connection_type != 'P':
            return
        p = self.pid_of(conn.username)
        if p not in PEER_PORT:
            return
        known = self.cid_of(conn)
        c = self.cid_of(conn, create=True)
        if conn.incoming:
            if known is None:
                self.ins[p].append(c)
            self._bind_incoming(c, conn)
            self.rec('est', c=c, user=p, dir='in', rq=bool(event.requested))
        else:
            self.rec('est', c=c, user=p, dir='out', rq=True)

    def _on_msg(self, event):
        c = self.cid_of(event.connection)
        if c is None:
            return
        text = getattr(event.message, 'filename', None) or getattr(event.message, 'message', None) or ''
        m = INMARK.search(text) if isinstance(text, str) else None
        if m and int(m.group(1)) == c:
            self.rec('recv', c=c, j=int(m.group(2)))
        else:
            self.rec('irecv', c=c)

    # -- transports ---------------------------------------------------------------------------------------------
    def _on_link(self, link):
        port = link.addr[1][1]
        side = 1 if port in (CLIENT_PORT, CLIENT_PORT + 1) else 0
        tap = Tap(self, link, side)
        self.taps.append(tap)

    def tap_for(self, c):
        tap = self.tap_of.get(c)
        if tap is not None:
            return tap
        conn = self.network.server_connection if c == 0 else self.conn_objs.get(c)
        w = getattr(conn, '_writer', None)
        for tap in self.taps:
            if tap.cid is None and tap.w is w:
                tap.cid = c
                self.tap_of[c] = tap
                return tap
        return None

    def cid_of_tap(self, tap):
        if tap.cid is not None:
            return tap.cid
        cands = [(0, self.network.server_connection)] + sorted(self.conn_objs.items())
        for c, conn in cands:
            if c not in self.tap_of and getattr(conn, '_writer', None) is tap.w:
                tap.cid = c
                self.tap_of[c] = tap
                return c
        # positional fallback: the oldest connection of ours to that address that has no transport yet
        port = tap.link.addr[1][1]
        if tap.side == 0:
            for c, conn in cands:
                if c not in self.tap_of and getattr(conn, 'port', None) == port and not getattr(conn, 'incoming', False):
                    tap.cid = c
                    self.tap_of[c] = tap
                    return c
        return None

    def _bind_incoming(self, c, conn):
        w = getattr(conn, '_writer', None)
        for tap in self.taps:
            if tap.cid is None and (tap.w is w or (w is None and tap.side == 1 and tap.link.addr[0][1] == getattr(conn, 'port', None))):
                tap.cid = c
                self.tap_of[c] = tap
                break
        # the peer's end of this link
        tap = self.tap_of.get(c)
        if tap is not None:
            for ep in self.all_eps:
                if ep.link is tap.link:
                    self.eps[c] = ep

    def on_flush(self, tap):
        c = self.cid_of_tap(tap)
        if c is not None:
            self.rec('flush', c=c)

    def on_frame(self, tap, frame, taken):
        c = self.cid_of_tap(tap)
        m = MARK.search(frame)
        if c is None:
            if m:
                self.rec('exc', what='a message of a call was written on a transport of no known connection')
            return
        if m:
            self.rec('write' if taken else 'wfail', c=c, k=int(m.group(1)), i=int(m.group(2)))
        elif taken:
            self.rec('iwrite', c=c)

    # -- connect policy -----------------------------------------------------------------------------------------
    def _policy(self, host, port):
        for p, pp in PEER_PORT.items():
            if pp == port:
                idx = len(self.gates[p])
                if idx in self.verdicts[p]:
                    self.gates[p].append(None)
                    return self.verdicts[p][idx]
                if self.mode_of[p] == 'gate':
                    fut = self.loop.create_future()
                    self.gates[p].append(fut)
                    return ('gate', fut)
                self.gates[p].append(None)
                return 'ok'
        return 'ok'

    def decide(self, p, idx, verdict):
        """the idx-th connect attempt to peer p ends with verdict ('ok' | 'refuse')"""
        if idx < len(self.gates[p]):
            fut = self.gates[p][idx]
            if fut is not None and not fut.done():
                fut.set_result(verdict)
        else:
            self.verdicts[p][idx] = verdict

    # -- peers ----------------------------------------------------------------------------------------------------
    async def _peer_accept(self, p, ep):
        self.all_eps.append(ep)
        # our connection to this peer: the endpoint belongs to the connection whose transport is the other end
        for c, tap in list(self.tap_of.items()):
            if tap.link is ep.link:
                self.eps[c] = ep
        ep.owner = p
        while True:
            fr = await ep.read_frame()
            if fr is None:
                return

    def ep_of(self, c):
        ep = self.eps.get(c)
        if ep is not None:
            return ep
        tap = self.tap_for(c)
        if tap is None:
            return None
        for ep in self.all_eps:
            if ep.link is tap.link:
                self.eps[c] = ep
                return ep
        return None

    async def _reader(self, ep):
        while True:
            fr = await ep.read_frame()
            if fr is None:
                return

    # -- the world ----------------------------------------------------------------------------------------------
    async def start(self, loop):
        from aioslsk.protocol import messages as M
        from aioslsk.events import ConnectionStateChangedEvent, MessageReceivedEvent, PeerInitializedEvent
        self.M, self.loop = M, loop
        self.t0 = loop.time()
        self.all_eps = []
        self.net = simnet.SimNet(loop).install()
        self.net.on_link = self._on_link
        self.net.policy = self._policy
        self.server = simserver.ScriptedServer(self.net)
        await self.server.start()
        settings = simserver.make_settings(self.names['me'], port=CLIENT_PORT, obfuscated_port=CLIENT_PORT + 1)
        self.settings = settings
        self._cbs = [self._on_state, self._on_init, self._on_msg]
        if self.mode == 'client':
            self.client = simserver.make_client(settings)
            self.network, bus = self.client.network, self.client.events
        else:
            from aioslsk.events import EventBus
            from aioslsk.network.network import Network
            self.client = None
            bus = EventBus()
            self.network = Network(settings, bus)
        self.bus = bus
        bus.register(ConnectionStateChangedEvent, self._cbs[0], priority=-1000)
        bus.register(PeerInitializedEvent, self._cbs[1], priority=-1000)
        bus.register(MessageReceivedEvent, self._cbs[2], priority=-1000)
        if self.mode == 'client':
            await self.client.start()
            await self.client.login()
        elif self.srv_open:
            await self.network.initialize()
            if self.srv_reader:
                self.network.server_connection.start_reader_task()
        else:
            await self.network.connect_listening_ports()
        self.peers = {}
        for i, (p, port) in enumerate(PEER_PORT.items()):
            sp = simserver.ScriptedPeer(self.net, self.names[p], port=port)
            sp.on_accept = (lambda ep, p=p: self._peer_accept(p, ep))
            await sp.listen()
            self.peers[p] = sp
            self.server.addresses[self.names[p]] = (f'10.0.0.{i + 2}', port, 0)
        await vloop.settle(loop, rounds=400)
        await asyncio.sleep(0.25)
        await vloop.settle(loop, rounds=400)
        # the trace starts here: the clock of the trace is 0 now.  The server says something first, so that the read
        # of the server connection that is pending began now as well
        if self.server.sessions and self.network.server_connection.state.name == 'CONNECTED':
            self.server.sessions[-1].send(self.M.AdminMessage.Response('x05 starts'))
            await vloop.settle(loop, rounds=400)
        self.t0 = loop.time()
        self.last_t = 0
        self.recording = True
        srv_up = self.network.server_connection.state.name == 'CONNECTED'
        self.events.append(dict(ev='init', srv=srv_up))
        self.tap_for(0)

    async def stop(self):
        self.recording = False
        try:
            for tap in self.taps:
                tap.release()
            if self.client is not None:
                await self.client.stop()
            else:
                await self.network.disconnect()
        except Exception as exc:         # not X05's subject
            self.notes.append(f'stop: {exc!r}')
        finally:
            self.net.uninstall()

    # -- messages ------------------------------------------------------------------------------------------------
    def make_msg(self, k, i, to_server, style):
        M = self.M
        tag = f'x05/{k}/{i}/'
        if to_server:
            msg = M.GetUserStatus.Request(tag) if style % 2 == 0 else M.GetUserStats.Request(tag)
        else:
            msg = [M.PeerPlaceInQueueRequest.Request(tag), M.PeerUploadFailed.Request(tag + 'a long name ' * 40),
                   M.PeerTransferQueue.Request(tag)][style % 3]
        if style % 4 == 3:
            return msg.serialize()
        return msg

    # -- calls ----------------------------------------------------------------------------------------------------
    async def _do_call(self, user, n, roe, style):
        from aioslsk.exceptions import ConnectionWriteError, PeerConnectionError
        to_server = user == 'server'
        self.ncalls += 1          # calls are numbered in the order they are entered
        k = self.ncalls
        self.calls[k] = dict(kind='send', task=asyncio.current_task())
        msgs = [self.make_msg(k, i, to_server, style + i) for i in range(1, n + 1)]
        self.rec('call', k=k, kind='send', user=user, n=n, **{'raise': roe}, c=-1)
        try:
            if to_server:
                r = await self.network.send_server_messages(*msgs, raise_on_error=roe)
            else:
                r = await self.network.send_peer_messages(self.names[user], *msgs, raise_on_error=roe)
        except PeerConnectionError:
            self.rec('ret', k=k, out='connfail', res=[])
        except ConnectionWriteError:
            self.rec('ret', k=k, out='raise', res=[])
        except asyncio.CancelledError:
            raise
        except BaseException as exc:
            self.rec('ret', k=k, out='other', res=[])
            self.rec('exc', what=f'call {k}: {type(exc).__name__}: {exc}'[:200])
        else:
            if roe:
                self.rec('ret', k=k, out='ok' if r is None else 'other', res=[])
                return
            res = []
            ok_shape = isinstance(r, list) and len(r) == n
            if ok_shape:
                for i, item in enumerate(r):
                    if not (isinstance(item, tuple) and len(item) == 2 and item[0] is msgs[i]):
                        res.append('misplaced')
                    elif item[1] is None:
                        res.append('ok')
                    elif isinstance(item[1], ConnectionWriteError):
                        res.append('err')
                    else:
                        res.append('other')
            self.rec('ret', k=k, out='ok' if ok_shape else 'other', res=res)

    def invoke(self, user, n, roe, style=0):
        t = self.loop.create_task(self._do_call(user, n, roe, style), name='x05-call')
        self.tasks.append(t)

    def enqueue(self, c, n, style=0):
        """connection.queue_messages(m1..mn) / network.queue_server_messages: runs now"""
        conn = self.network.server_connection if c == 0 else self.conn_objs.get(c)
        if conn is None:
            return None
        self.ncalls += 1
        k = self.ncalls
        msgs = [self.make_msg(k, i, c == 0, style + i) for i in range(1, n + 1)]
        self.rec('call', k=k, kind='queue', user='none', n=n, **{'raise': False}, c=c)
        try:
            if c == 0:
                tasks = self.network.queue_server_messages(*msgs)
            elif n == 1:
                tasks = [conn.queue_message(msgs[0])]
            else:
                tasks = conn.queue_messages(*msgs)
        except Exception as exc:
            self.rec('exc', what=f'queue {k}: {type(exc).__name__}: {exc}'[:200])
            return k
        self.calls[k] = dict(kind='queue', tasks=tasks)
        for i, t in enumerate(tasks, 1):
            t.add_done_callback(lambda t, k=k, i=i: self._qdone(k, i, t))
        return k

    def _qdone(self, k, i, task):
        if task.cancelled():
            how = 'cancelled'
        elif task.exception() is not None:
            how = 'error'
        else:
            how = 'done'
        self.rec('qdone', k=k, i=i, how=how)

    def pending_calls(self):
        n = 0
        for k, info in self.calls.items():
            if info['kind'] == 'send':
                n += 0 if info['task'].done() else 1
            else:
                n += sum(0 if t.done() else 1 for t in info['tasks'])
        return n

    # -- environment moves (each runs as one callback of the loop) -------------------------------------------------
    def block(self, c):
        tap = self.tap_for(c)
        if tap is None or tap.paused:
            return
        if c == 0 and self.no_srv_block:
            return        # frames of the library itself travel on the server connection: their write time-outs are not modelled
        tap.paused = True
        self.rec('block', c=c)

    def unblock(self, c):
        tap = self.tap_for(c)
        if tap is None or not tap.paused:
            return
        self.rec('unblock', c=c)
        tap.release()

    def break_(self, c, mode):
        tap = self.tap_for(c)
        if tap is None or getattr(tap, 'broken', False):
            return
        tap.broken = True
        self.rec('break', c=c, mode=mode)
        if mode == 'failing':
            tap.failing = ConnectionResetError(104, 'Connection reset by peer')
        elif mode == 'reset':
            tap.link.cut('reset')
        else:
            # the other end closes after what it wrote
            tap.link.writers[1 - tap.side].close()

    def arm(self, c, frames, mode):
        """break the link of c right after `frames` more complete frames were handed to its transport"""
        tap = self.tap_for(c)
        if tap is None:
            return
        tap.arm = (frames, lambda: self.break_(c, mode))

    def psend(self, c):
        tap = self.tap_for(c)
        if tap is None or getattr(tap, 'broken', False) or tap.w.is_closing():
            return
        M = self.M
        j = self.pin.get(c, 0) + 1
        self.pin[c] = j
        tag = f'x05in/{c}/{j}/'
        msg = M.AdminMessage.Response(tag) if c == 0 else M.PeerPlaceInQueueReply.Request(tag, j)
        self.rec('psend', c=c, j=j)
        tap.link.writers[1 - tap.side].write(msg.serialize())

    def local_close(self, c):
        from aioslsk.network.connection import CloseReason
        conn = self.conn_objs.get(c)
        if conn is None:
            return
        self.tasks.append(self.loop.create_task(conn.disconnect(CloseReason.REQUESTED), name=f'x05-close-{c}'))

    def dial(self, p):
        async def go():
            ep = await self.peers[p].dial(CLIENT_PORT, 'P')
            self.all_eps.append(ep)
            self.tasks.append(self.loop.create_task(self._reader(ep), name='x05-peer-reader'))
        self.tasks.append(self.loop.create_task(go(), name=f'x05-dial-{p}'))

    def _open_ctp(self, p):
        """the oldest ConnectToPeer request for peer p the server has not answered"""
        M = self.M
        for (_, _, m) in self.server.received:
            if isinstance(m, M.ConnectToPeer.Request) and m.username == self.names[p] and m.ticket not in self.answered_ctp:
                return m
        return None

    def cannot_connect(self, p):
        m = self._open_ctp(p)
        if m is None or not self.server.sessions:
            return
        self.answered_ctp.add(m.ticket)
        self.server.sessions[-1].send(self.M.CannotConnect.Response(m.ticket))

    def pierce(self, p):
        m = self._open_ctp(p)
        if m is None:
            return
        self.answered_ctp.add(m.ticket)

        async def go():
            ep = await self.peers[p].pierce(CLIENT_PORT, m.ticket)
            self.all_eps.append(ep)
            self.tasks.append(self.loop.create_task(self._reader(ep), name='x05-peer-reader'))
        self.tasks.append(self.loop.create_task(go(), name=f'x05-pierce-{p}'))


# ---------------------------------------------------------------------------
# schedules
# ---------------------------------------------------------------------------
#
# A schedule is a list of steps [op, args..., gap]; gap says what happens before the NEXT step:
#   0 = nothing (the next step enters the ready queue right behind this one), n > 0 = n loop iterations,
#   -1 = the loop runs until nothing is ready.
# Connections are named by role: ['out', peer, idx] = the idx-th connection we made to peer, ['in', peer, idx] = the
# idx-th connection accepted from peer, ['srv'] = the server connection.
#
#   ['send', user, n, raise]        ['queue', conn, n]           ['dial', peer]          ['mode', peer, 'gate'|'ok']
#   ['connect', peer, idx, 'ok'|'refuse']   ['cannot', peer]     ['pierce', peer]        ['close', conn]
#   ['block', conn]  ['unblock', conn]  ['break', conn, mode]    ['arm', conn, frames, mode]   ['psend', conn]
#   ['wait', ms]

def run_schedule(sched, *, mode='network', names=0, srv_open=True, srv_reader=True, style=0, final=True):
    rig = Rig(mode=mode, names=names, srv_open=srv_open, srv_reader=srv_reader)
    if any(st[0] == 'send' and st[1] != 'server' for st in sched):
        rig.no_srv_block = True

    def conn_id(ref):
        if ref[0] == 'srv':
            return 0
        lst = (rig.outs if ref[0] == 'out' else rig.ins)[ref[1]]
        return lst[ref[2]] if ref[2] < len(lst) else None

    def apply(st):
        op = st[0]
        if op == 'send':
            rig.invoke(st[1], int(st[2]), bool(st[3]), style)
        elif op == 'queue':
            c = conn_id(st[1])
            if c is not None:
                rig.enqueue(c, int(st[2]), style)
        elif op == 'dial':
            rig.dial(st[1])
        elif op == 'mode':
            rig.mode_of[st[1]] = st[2]
        elif op == 'connect':
            rig.decide(st[1], int(st[2]), st[3])
        elif op == 'cannot':
            rig.cannot_connect(st[1])
        elif op == 'pierce':
            rig.pierce(st[1])
        elif op in ('close', 'block', 'unblock', 'psend'):
            c = conn_id(st[1])
            if c is not None:
                dict(close=rig.local_close, block=rig.block, unblock=rig.unblock, psend=rig.psend)[op](c)
        elif op == 'break':
            c = conn_id(st[1])
            if c is not None:
                rig.break_(c, st[2])
        elif op == 'arm':
            c = conn_id(st[1])
            if c is not None:
                rig.arm(c, int(st[2]), st[3])
        else:
            raise MachineryFailure(f'unknown step {st!r}')

    async def main(loop):
        await rig.start(loop)
        try:
            for st in sched:
                gap = st[-1]
                body = st[:-1]
                if body[0] == 'wait':
                    await vloop.settle(loop, rounds=600)
                    await asyncio.sleep(int(body[1]) / 1000.0)
                    await vloop.settle(loop, rounds=600)
                    continue
                if body[0] == 'mode':
                    apply(body)
                    continue
                if body[0] == 'send':
                    apply(body)              # the first step of the call enters the ready queue here
                else:
                    loop.call_soon(apply, body)
                if gap == 0:
                    continue
                if gap < 0:
                    await asyncio.sleep(0)
                    await vloop.settle(loop, rounds=600)
                else:
                    for _ in range(gap + 1):
                        await asyncio.sleep(0)
            await vloop.settle(loop, rounds=600)
            if final:
                # open the gates that are still held (a connect that never ends is C11's subject), then look on for
                # longer than every time-out until every call has returned
                for p in PEER_PORT:
                    rig.mode_of[p] = 'ok'
                    for fut in rig.gates[p]:
                        if fut is not None and not fut.done():
                            fut.set_result('ok')
                waited = 0.0
                for dt in FINAL_WAITS:
                    await asyncio.sleep(dt)
                    await vloop.settle(loop, rounds=600)
                    waited += dt
                    if not rig.pending_calls() and waited > 130:
                        break
            rig.rec('end')
            rig.n_unhandled = len(loop.unhandled)
        finally:
            await rig.stop()
        return rig

    try:
        _, loop = vloop.run(main)
    except vloop.Deadlock as exc:
        raise MachineryFailure(f'virtual loop deadlock in an X05 run: {exc}')
    for ctx in loop.unhandled[:getattr(rig, 'n_unhandled', len(loop.unhandled))]:
        exc = ctx.get('exception')
        if isinstance(exc, asyncio.CancelledError):
            continue
        rig.events.append(dict(ev='exc', what=('loop: ' + str(ctx.get('message')) + ' ' + repr(exc))[:300]))
    return rig

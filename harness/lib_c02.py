"""Input generators for C02 (Framing): valid messages of every receivable class, and hostile
frame bodies derived from them.  Everything is drawn from a `random.Random` owned by the caller.

Which classes exist, their codes and their field layouts come from the PINNED layout
specs/Codec/layout.json (loaded with harness.lib_codec), not from the code under test.  The code is
touched through public surfaces only: the message dataclasses' constructors and attributes,
`serialize()`, and `obfuscation.encode`.  A refactoring of protocol/primitives.py that keeps the wire
behaviour therefore cannot disturb this module.

A *body* is what follows the 4-byte length prefix (message code + payload); `frame(body)` adds a
well-formed prefix, `wire(frame, obf, key)` obfuscates when the connection is obfuscated.
"""
from __future__ import annotations

import socket
import struct
import zlib
from typing import Any, Optional

from . import lib_codec

U32 = struct.Struct('<I')
_INT = {'uint8': '<B', 'uint16': '<H', 'uint32': '<I', 'uint64': '<Q', 'int32': '<i'}
_BITS = {'uint8': 8, 'uint16': 16, 'uint32': 32, 'uint64': 64}

# reader kind -> (family, direction) in the pin
FAMILY = {'server': ('server', 'Response'), 'peer': ('peer', 'Request'),
          'dist': ('distributed', 'Request'), 'init': ('peerinit', 'Request')}

_PIN: Optional[dict] = None


def pin() -> dict:
    global _PIN
    if _PIN is None:
        _PIN = lib_codec.load_pin()
    return _PIN


def qname(cls) -> str:
    return cls.__qualname__


def spec_of(cls) -> dict:
    return pin()['messages'][qname(cls)]


def classes_of(kind: str) -> list:
    """The message classes a reader of this kind understands: those the pin lists for the family and
    the code still defines (looked up by name in aioslsk.protocol.messages)."""
    fam, direction = FAMILY[kind]
    out = []
    for q, m in sorted(pin()['messages'].items()):
        if m['family'] == fam and m['direction'] == direction:
            cls = lib_codec.find_class(q)
            if cls is not None:
                out.append(cls)
    return out


def code_bytes(cls) -> bytes:
    m = spec_of(cls)
    return struct.pack('<B' if m['code_width'] == 1 else '<I', m['code'])


def frame(body: bytes) -> bytes:
    return U32.pack(len(body)) + body


def wire(frm: bytes, obf: bool, key: bytes) -> bytes:
    if not obf:
        return frm
    from aioslsk.protocol import obfuscation
    return obfuscation.encode(frm, key=key)


class Pools:
    """Value pools: small, so that generated messages hit the state the client really has."""

    def __init__(self, me='me', users=(), rooms=(), tickets=(), files=(), queries=()):
        self.users = [me, 'bystander', 'peer1', 'friend1', 'nöbody', ''] + list(users)
        self.rooms = ['room1', 'privroom', 'rööm', ''] + list(rooms)
        self.tickets = [0, 1, 2, 3, 7, 0xFFFFFFFF] + list(tickets)
        self.files = ['music\\song.mp3', 'music\\other.flac', '@@abc\\music\\song.mp3', '..\\..\\x', ''] + list(files)
        self.queries = ['song', 'song -other', '*ong', 'zzzz', ''] + list(queries)
        self.texts = ['hello', '', 'x' * 300, 'éè中\U0001F600', 'a\x00b', 'INVALIDPASS', 'Queued', 'Cancelled',
                      'File not shared.', 'Complete']
        self.ips = ['1.2.3.4', '0.0.0.0', '255.255.255.255', '127.0.0.1', '10.0.0.7']


class Gen:
    def __init__(self, rng, pools: Optional[Pools] = None):
        self.rng = rng
        self.pools = pools or Pools()

    # -- values ---------------------------------------------------------------
    def _int(self, name: str, bits: int, signed=False):
        r = self.rng
        top = (1 << bits) - 1
        if signed:
            return r.choice([0, 1, -1, 5, -(1 << (bits - 1)), (1 << (bits - 1)) - 1, r.randrange(-1000, 1000)])
        if name == 'ticket':
            return min(r.choice(self.pools.tickets), top)
        if name in ('port', 'obfuscated_port'):
            return min(r.choice([0, 1, 2234, 61000, 65535, 65536, 0xFFFFFFFF]), top)
        if name == 'status':
            return r.choice([0, 1, 2, 3, 99])
        if name == 'direction':
            return r.choice([0, 1, 2, 77])
        if name in ('obfuscated_port_amount',):
            return r.choice([0, 1, 2])
        if name == 'distributed_code':
            return r.choice([3, 3, 0, 4, 93, 255])
        if name in ('level', 'depth'):
            return r.choice([0, 0, 1, 2, 5, top])
        if name in ('interval', 'timeout', 'time_left', 'speed', 'ratio', 'amount'):
            return r.choice([0, 1, 10, 50, 720, 100000, top])
        if name == 'filesize':
            return r.choice([0, 1, 10, 4096, 1 << 33, top])
        return r.choice([0, 1, 2, 3, 10, 255, 1000, 1 << 20, top >> 1, top, r.randrange(0, top + 1)])

    def _str(self, name: str):
        r, p = self.rng, self.pools
        if name in ('username', 'owner') or name.startswith('user'):
            return r.choice(p.users)
        if name in ('room',) or name.startswith('rooms'):
            return r.choice(p.rooms)
        if name in ('filename', 'directory', 'pathname'):
            return r.choice(p.files)
        if name == 'query':
            return r.choice(p.queries)
        if name == 'typ':
            return r.choice(['P', 'P', 'D', 'D', 'F', 'X', '', 'PP'])
        if name == 'country_code' or name == 'users_countries':
            return r.choice(['DE', 'US', '', 'XYZ'])
        if name == 'md5hash':
            return '0' * 32
        return r.choice(p.texts + p.users[:3] + p.rooms[:2])

    def value(self, t: str, st: str, name: str, depth: int = 0) -> Any:
        """A value of pinned type `t` (subtype `st` for arrays)."""
        r = self.rng
        if t in pin()['structs']:
            return self.struct(t, depth + 1)
        if t == 'array':
            n = r.choice([0, 1, 1, 2, 3]) if depth < 2 else r.choice([0, 1])
            return [self.value(st, 'none', name, depth + 1) for _ in range(n)]
        if t == 'boolean':
            return r.random() < 0.5
        if t == 'ipaddr':
            return r.choice(self.pools.ips)
        if t == 'bytearr':
            return bytes(r.getrandbits(8) for _ in range(r.choice([0, 1, 16, 200])))
        if t == 'string':
            return self._str(name)
        if t == 'int32':
            return self._int(name, 32, signed=True)
        if t in _BITS:
            return self._int(name, _BITS[t])
        raise TypeError(f'no generator for pinned type {t}')

    def _kwargs(self, fields: list, depth: int) -> dict:
        kw = {}
        opt_on = self.rng.random() < 0.6
        for f in fields:
            if f['cond'] == 'if_true' and not kw.get(f['on']):
                continue
            if f['cond'] == 'if_false' and kw.get(f['on']):
                continue
            if f['optional']:
                # optional fields form a tail: once one is left out, all later ones are
                if not opt_on:
                    continue
                if self.rng.random() < 0.25:
                    opt_on = False
                    continue
            kw[f['name']] = self.value(f['type'], f['subtype'], f['name'], depth)
        return kw

    def struct(self, name: str, depth: int = 0):
        return lib_codec.find_struct(name)(**self._kwargs(pin()['structs'][name], depth))

    def message(self, cls):
        """A valid instance of message class `cls` (serialisable), or None."""
        fields = spec_of(cls)['fields']
        for _ in range(8):
            try:
                m = cls(**self._kwargs(fields, 0))
                m.serialize()
                return m
            except Exception:
                continue
        return None


# ---------------------------------------------------------------------------
# layout walk: the uncompressed payload of a message as the pinned layout prescribes it, with the
# offsets of its length / count fields
# ---------------------------------------------------------------------------

def _emit(t: str, st: str, value, buf: bytearray, marks: list):
    structs = pin()['structs']
    if t in structs:
        _walk(structs[t], value, buf, marks)
    elif t == 'array':
        marks.append((len(buf), 'count', len(value)))
        buf += U32.pack(len(value))
        for v in value:
            _emit(st, 'none', v, buf, marks)
    elif t == 'string':
        raw = value.encode('utf-8')
        marks.append((len(buf), 'str', len(raw)))
        buf += U32.pack(len(raw)) + raw
    elif t == 'bytearr':
        marks.append((len(buf), 'bytes', len(value)))
        buf += U32.pack(len(value)) + bytes(value)
    elif t == 'ipaddr':
        buf += socket.inet_aton(value)[::-1]
    elif t == 'boolean':
        buf += b'\x01' if value else b'\x00'
    else:
        buf += struct.pack(_INT[t], value)


def _walk(fields: list, obj, buf: bytearray, marks: list):
    for f in fields:
        value = getattr(obj, f['name'])
        if value is None:
            continue
        if f['cond'] == 'if_true' and not getattr(obj, f['on']):
            continue
        if f['cond'] == 'if_false' and getattr(obj, f['on']):
            continue
        _emit(f['type'], f['subtype'], value, buf, marks)


def is_compressed(cls) -> bool:
    return bool(spec_of(cls)['compressed'])


def layout(msg):
    """-> (code bytes, uncompressed payload, marks, compressed?)"""
    cls = type(msg)
    buf, marks = bytearray(), []
    _walk(spec_of(cls)['fields'], msg, buf, marks)
    return code_bytes(cls), bytes(buf), marks, is_compressed(cls)


def body_of(code: bytes, payload: bytes, compressed: bool) -> bytes:
    return code + (zlib.compress(payload) if compressed else payload)


def selfcheck_layout(gen: Gen, kinds=('server', 'peer', 'dist', 'init')) -> int:
    """The layout walk must reproduce what the library serialises (it is only used to find the
    offsets to corrupt).  Returns the number of classes compared."""
    n = 0
    for k in kinds:
        for cls in classes_of(k):
            m = gen.message(cls)
            if m is None:
                continue
            code, payload, _, comp = layout(m)
            ser = m.serialize()
            mine = frame(code + payload)
            if comp:
                got = ser[:4 + len(code)] + zlib.decompress(ser[4 + len(code):])
                got = U32.pack(len(got) - 4) + got[4:]
            else:
                got = ser
            if got != mine:
                raise AssertionError(f'layout walk disagrees with serialize() for {qname(cls)}')
            n += 1
    return n


# ---------------------------------------------------------------------------
# hostile bodies
# ---------------------------------------------------------------------------

BAD_TEXT = [b'\xff\xfe\xfd', b'\x81\x8d\x8f\x90\x9d', b'\xc3', b'\xe2\x82', b'\xf0\x9f\x98', b'\xed\xa0\x80', b'\x80abc']

REJECT_CATS = ['random', 'truncate', 'bitflip', 'count', 'badtext', 'zlib', 'unknown_code', 'wrong_kind', 'short',
               'trailing', 'lenfield']


class Hostile:
    """Generates frame bodies for a reader that decodes family `kind`
    ('server' | 'peer' | 'dist' | 'init')."""

    def __init__(self, rng, gen: Gen, kind: str):
        self.rng, self.gen, self.kind = rng, gen, kind
        self.classes = classes_of(kind)
        self.codes = {spec_of(c)['code'] for c in self.classes}
        self.code_width = 1 if kind in ('dist', 'init') else 4
        self.compressed = [c for c in self.classes if is_compressed(c)]
        self._cycle = 0

    def _rand(self, n):
        return bytes(self.rng.getrandbits(8) for _ in range(n))

    def _some_valid(self, cls=None):
        for _ in range(20):
            c = cls or self.rng.choice(self.classes)
            m = self.gen.message(c)
            if m is not None:
                return m
        raise RuntimeError('could not build a valid message')

    def valid(self, cls=None):
        """A valid message of this kind -> (body, 'valid', class name)."""
        m = self._some_valid(cls)
        return m.serialize()[4:], 'valid', qname(type(m))

    def count_bombs(self):
        """For every receivable class and every array / string / bytes length field of one valid
        instance: the body that ENDS right after that field, with the field set to 0xFFFFFFFF (a
        count that lies about everything that follows) -> list of (body, category, class name)."""
        out = []
        for cls in self.classes:
            best = None
            for _ in range(6):                      # an instance that shows as many length fields as possible
                m = self.gen.message(cls)
                if m is not None:
                    lay = layout(m)
                    if best is None or len(lay[2]) > len(best[2]):
                        best = lay
            if best is None:
                continue
            code, payload, marks, comp = best
            seen = set()
            for off, what, _n in marks:
                if (what, off) in seen:
                    continue
                seen.add((what, off))
                p = payload[:off] + b'\xff\xff\xff\xff'
                out.append((body_of(code, p, comp), 'count_at_end', qname(cls)))
        return out

    def next_class(self):
        """Round-robin over the receivable classes so that every handler gets its turn."""
        c = self.classes[self._cycle % len(self.classes)]
        self._cycle += 1
        return c

    def body(self, cat: Optional[str] = None, minlen: int = 0):
        """-> (body bytes, category, class name or '').  `minlen`: 0 = any, n = at least n bytes."""
        r = self.rng
        for _ in range(50):
            c = cat or r.choice(REJECT_CATS)
            b, name = self._one(c)
            if b is not None and len(b) >= minlen and len(b) < 60000:
                return b, c, name
            if cat is not None and b is None:
                cat = None
        return self._rand(max(minlen, 8)), 'random', ''

    def _one(self, cat):
        r = self.rng
        if cat == 'random':
            n = r.choice([1, 2, 3, 4, 5, 8, 16, 64, 200])
            return self._rand(n), ''
        if cat == 'short':
            # shorter than a message code, or just a code with nothing after it
            if r.random() < 0.5:
                return self._rand(r.randrange(1, 4)), ''
            c = r.choice(self.classes)
            return code_bytes(c), qname(c)
        if cat == 'unknown_code':
            for _ in range(100):
                code = r.choice([r.randrange(0, 256), r.randrange(0, 2000), r.getrandbits(32)])
                if self.code_width == 1:
                    code &= 0xFF
                if code not in self.codes:
                    break
            else:
                return None, ''
            cb = bytes([code]) if self.code_width == 1 else U32.pack(code)
            return cb + self._rand(r.choice([0, 4, 12, 40])), ''
        if cat == 'wrong_kind':
            other = r.choice([k for k in ('server', 'peer', 'dist', 'init') if k != self.kind])
            m = Hostile(r, self.gen, other)._some_valid()
            return m.serialize()[4:], qname(type(m))
        if cat == 'zlib':
            if not self.compressed:
                return None, ''
            m = self._some_valid(r.choice(self.compressed))
            code, payload, _, _ = layout(m)
            z = zlib.compress(payload)
            how = r.choice(['trunc', 'flip', 'garbage', 'empty', 'notz', 'tail'])
            if how == 'trunc':
                z = z[:r.randrange(0, len(z))]
            elif how == 'flip':
                i = r.randrange(len(z))
                z = z[:i] + bytes([z[i] ^ (1 << r.randrange(8))]) + z[i + 1:]
            elif how == 'garbage':
                z = self._rand(r.choice([1, 8, 40]))
            elif how == 'empty':
                z = b''
            elif how == 'notz':
                z = payload                      # uncompressed payload where zlib data is expected
            else:
                z = z + self._rand(5)
            return code + z, qname(type(m))
        # the rest start from a valid message
        m = self._some_valid()
        code, payload, marks, comp = layout(m)
        name = qname(type(m))
        if cat == 'truncate':
            if comp and r.random() < 0.5:
                payload = payload[:r.randrange(0, len(payload) + 1)]
                return body_of(code, payload, True), name
            b = body_of(code, payload, comp)
            if len(b) <= 1:
                return None, name
            return b[:r.randrange(1, len(b))], name
        if cat == 'bitflip':
            if comp and r.random() < 0.5:
                if not payload:
                    return None, name
                p = bytearray(payload)
                for _ in range(r.choice([1, 2, 3])):
                    p[r.randrange(len(p))] ^= 1 << r.randrange(8)
                return body_of(code, bytes(p), True), name
            b = bytearray(body_of(code, payload, comp))
            for _ in range(r.choice([1, 2, 3])):
                b[r.randrange(len(b))] ^= 1 << r.randrange(8)
            return bytes(b), name
        if cat == 'trailing':
            return body_of(code, payload + self._rand(r.choice([1, 4, 9])), comp), name
        if cat in ('count', 'lenfield'):
            if not marks:
                return None, name
            off, what, n = r.choice(marks)
            if cat == 'count':
                val = r.choice([0xFFFFFFFF, 0xFFFFFFFF, 0x7FFFFFFF, 0x80000000, 0xFFFFFFFE])
            else:
                val = r.choice([n + 1, n + 100, len(payload), len(payload) + 1, max(0, n - 1), 0x10000])
            p = payload[:off] + U32.pack(val & 0xFFFFFFFF) + payload[off + 4:]
            return body_of(code, p, comp), name
        if cat == 'badtext':
            strs = [mk for mk in marks if mk[1] == 'str']
            if not strs:
                return None, name
            off, _, n = r.choice(strs)
            bad = r.choice(BAD_TEXT)
            if r.random() < 0.5 and n >= len(bad):
                # same length: overwrite the start of the text
                p = payload[:off + 4] + bad + payload[off + 4 + len(bad):]
            else:
                p = payload[:off] + U32.pack(len(bad)) + bad + payload[off + 4 + n:]
            return body_of(code, p, comp), name
        raise ValueError(cat)

"""Driver shared by the C13 and C14 checks (spec: DistributedTree).

One real, logged-in `SoulSeekClient` (real Network, DistributedNetwork, SearchManager,
SharesManager) runs on `harness.simnet` in a `harness.vloop` virtual-time loop against a
`ScriptedServer`, scripted distributed peers and scripted askers.  The `World` turns abstract
stimuli (the actions of DistributedTree.tla) into frames / link operations, records every frame
the property talks about where the counterpart sees it, and takes a snapshot of
`DistributedNetwork.parent/children` and of the links after every stimulus.

Nothing in here decides a verdict: the recorded event lists are judged by TLC against
DistributedTreeTrace.tla.

Gates used to realise the interleavings inside `_set_parent`, `reset` and `_add_child`:
  * `SimWriter.hold_wait_closed` on the client's side of every distributed link ("wcdone" releases);
  * a multi-waiter back-pressure gate on the client's side of a child link ("drained" releases) -
    `SimWriter.paused` keeps only one waiter, so `_pausable()` below replaces `drain` on that one
    writer instance (FIFO wake-up of all waiters, as asyncio's FlowControlMixin does).
"""
from __future__ import annotations

import asyncio
import os
import re
from typing import Any, Optional

from . import vloop
from .simnet import Endpoint, SimNet
from .simserver import ScriptedPeer, ScriptedServer, make_client, make_settings

ALLP = ('p1', 'p2', 'p3', 'p4')      # P of the trace configs
CLIENT_PORT = 61000
PEER_PORT0 = 41000
ASKER_PORT0 = 42000


def words_of(text: str) -> list[str]:
    """Lower-cased alphanumeric words of a path / query (the documented term semantics)."""
    return sorted({w for w in re.split(r'[\W_]+', text.lower()) if w})


def parse_query(query: str):
    """(include words, exclude words) of a query: whitespace separated terms, '-term' excludes.
    (Wildcards and punctuation inside terms are not used by the C14 generators.)"""
    inc, exc = set(), set()
    for tok in query.split():
        (exc if tok.startswith('-') else inc).update(words_of(tok))
    return sorted(inc), sorted(exc)


def _pausable(writer, loop):
    """Give one SimWriter instance a FIFO multi-waiter back-pressure gate."""
    waiters: list[asyncio.Future] = []

    async def drain():
        if writer.fail_writes is not None:
            raise writer.fail_writes
        if writer.link.reset[writer.side] is not None:
            raise writer.link.reset[writer.side]
        if writer.paused:
            fut = loop.create_future()
            waiters.append(fut)
            await fut
        else:
            await asyncio.sleep(0)

    def resume():
        writer.paused = False
        ws, waiters[:] = list(waiters), []
        for f in ws:
            if not f.done():
                f.set_result(None)

    def blocked():
        return any(not f.done() for f in waiters)

    writer.drain = drain
    writer.resume = resume
    writer.blocked = blocked
    return writer


class Infeasible(Exception):
    """The schedule asks for a stimulus this execution cannot take (e.g. a frame from a peer whose
    link is not up because the code reacted differently from the model)."""


class PeerSim:
    def __init__(self, pid: str, name: str, port: int, ip: str):
        self.pid, self.name, self.port, self.ip = pid, name, port, ip
        self.sp: Optional[ScriptedPeer] = None
        self.ep: Optional[Endpoint] = None          # current distributed link (our end)
        self.cw = None                               # the client's writer on that link
        self.req = False                             # the client asked for this link
        self.gate: Optional[asyncio.Future] = None   # pending connect of the client to us
        self.readers: list[asyncio.Task] = []


class World:
    def __init__(self, loop, *, names: dict, me: str = 'me', roots: Optional[dict] = None,
                 askers: Optional[dict] = None, share: Optional[dict] = None, hold: bool = True,
                 tmpdir: Optional[str] = None, alias: Optional[dict] = None):
        """names: model id -> username of the remote peers; roots: model root id -> username for
        root names that are not peers; askers: model id -> username (may contain the id 'me');
        share: dict(dirs=[dict(path, mode, files=[relative paths])], friends=[asker ids])."""
        self.loop = loop
        self.me = me
        self.names = dict(names)
        # alias {b: a}: model peer b is the same *user* as model peer a on another connection (a user
        # that reconnects while its old link is still open); links are told apart by their addresses
        self.alias = dict(alias or {})
        for b, a in self.alias.items():
            self.names[b] = self.names[a]
        self.rootnames = dict(roots or {})
        self.askers = dict(askers or {})
        self.share = share
        self.hold = hold
        self.tmpdir = tmpdir
        self.events: list[dict] = []
        self.peers: dict[str, PeerSim] = {}
        self.net: Optional[SimNet] = None
        self.srv: Optional[ScriptedServer] = None
        self.client = None
        self.asker_eps: list = []
        self._tasks: list[asyncio.Task] = []
        self.nsearch = 0
        self.not_settled = 0
        self.reset_pending = False
        self.reset_wait: set = set()
        self.srv_cw = None
        self.server_speed = 204800          # on record at the server: fast enough for every limit in play
        self.bystander = None
        self.file_paths: dict = {}
        # concrete name -> model id
        self.ids = {v: k for k, v in sorted(self.names.items(), reverse=True) if k not in self.alias}
        self.ids.update({v: k for k, v in self.rootnames.items()})
        self.ids.update({v: k for k, v in self.askers.items()})
        self.ids[me] = 'me'

    # ------------------------------------------------------------------ helpers
    def idof_peer(self, dpeer) -> str:
        """Model id of a DistributedPeer: by the address of its connection (two links of one user are two
        model peers), by user name when the address belongs to none of the links."""
        try:
            key = (dpeer.connection.hostname, int(dpeer.connection.port))
        except Exception:
            key = None
        for pid, ps in self.peers.items():
            if key is not None and ps.ep is not None:
                if key == (ps.ip, ps.port) and ps.req:
                    return pid
                if not ps.req and key == tuple(ps.ep.link.addr[0]):
                    return pid
        return self.idof(dpeer.username)

    def idof(self, name) -> str:
        return self.ids.get(name, '?' + str(name))

    def nameof(self, mid: str) -> str:
        if mid == 'me':
            return self.me
        return self.names.get(mid) or self.rootnames.get(mid) or self.askers.get(mid) or mid

    async def settle(self, rounds: int = 400):
        for _ in range(rounds):
            await asyncio.sleep(0)
            if len(self.loop._ready) == 0:
                return
        self.not_settled += 1

    def rec(self, **kw):
        self.events.append(kw)

    # ------------------------------------------------------------------ start-up
    async def start(self):
        from aioslsk.protocol import messages as M
        self.M = M
        self.net = SimNet(self.loop).install()
        self.net.policy = self._policy
        self.net.on_link = self._on_link
        self.srv = ScriptedServer(self.net)
        self.srv.on_frame = self._on_srv_frame
        self.srv.handlers[M.ConnectToPeer.Request] = self._h_connect_to_peer
        self.srv.handlers[M.GetUserStats.Request] = self._h_get_user_stats
        await self.srv.start()
        for i, (pid, name) in enumerate(sorted(self.names.items())):
            ps = PeerSim(pid, name, PEER_PORT0 + i, f'10.0.0.{i + 1}')
            ps.sp = ScriptedPeer(self.net, name, ps.port)
            ps.sp.on_accept = self._make_accept(ps)
            await ps.sp.listen()
            self.peers[pid] = ps
        for j, (aid, name) in enumerate(sorted(self.askers.items())):
            port = ASKER_PORT0 + j
            sp = ScriptedPeer(self.net, name, port)
            sp.on_accept = self._make_asker_accept(aid)
            await sp.listen()
            self.srv.addresses[name] = (f'10.0.1.{j + 1}', port, 0)
        shared = []
        friends = []
        if self.share:
            for d in self.share['dirs']:
                root = os.path.join(self.tmpdir, d['path'])
                for rel in d['files']:
                    fp = os.path.join(root, *rel.split('/'))
                    os.makedirs(os.path.dirname(fp), exist_ok=True)
                    with open(fp, 'wb') as fh:
                        fh.write(b'x' * 16)
                shared.append(dict(path=root, share_mode=d['mode']))
            friends = [self.nameof(a) for a in self.share.get('friends', [])]
        settings = make_settings(self.me, port=CLIENT_PORT, obfuscated_port=CLIENT_PORT + 1,
                                 download_dir=self.tmpdir or os.getcwd(), shared=shared,
                                 users=dict(friends=set(friends)))
        self.events.append(self.init_record())
        self.client = make_client(settings)
        await self.client.start()
        if self.share:
            await self.client.shares.scan()
        await self.client.login()
        await self.settle()
        self.dn = self.client.distributed_network
        return self

    async def stop(self):
        for ps in self.peers.values():
            if ps.gate is not None and not ps.gate.done():
                ps.gate.set_result('refuse')
        self.release_all()
        try:
            await asyncio.wait_for(self.client.stop(), 30)
        except Exception:
            pass
        for t in self._tasks:
            t.cancel()
        if self.net:
            self.net.uninstall()

    def init_record(self) -> dict:
        files = []
        if self.share:
            for d in self.share['dirs']:
                for rel in d['files']:
                    files.append(dict(name=rel.split('/')[-1], words=words_of(rel), mode=d['mode']))
                    self.file_paths[rel.split('/')[-1]] = rel.replace('/', '\\')
        return dict(ev='init', peers=sorted(self.names), files=files,
                    friends=sorted(self.share.get('friends', [])) if self.share else [])

    def _on_link(self, link):
        # the client's end of its (latest) server connection gets the FIFO back-pressure gate as well
        if link.addr[1][1] == self.srv.port:
            self.srv_cw = _pausable(link.writers[0], self.loop)

    # ------------------------------------------------------------------ scripted server side
    def _h_connect_to_peer(self, srv, sess, msg):
        # nobody can be reached indirectly in this world: the attempt fails at once
        return [self.M.CannotConnect.Response(msg.ticket)]

    def _h_get_user_stats(self, srv, sess, msg):
        """Like the real server: a request for the statistics of the own user is answered with the
        average speed the server has on record (the one it last reported)."""
        from aioslsk.protocol.primitives import UserStats
        if msg.username != self.me:
            return None
        self.rec(ev='ustats', speed=int(self.server_speed), who='me')
        return [self.M.GetUserStats.Response(self.me, UserStats(int(self.server_speed), 0, 0, 0))]

    def _on_srv_frame(self, sess, msg):
        M = self.M
        if isinstance(msg, M.BranchLevel.Request):
            self.rec(ev='srv', kind='level', l=int(msg.level))
        elif isinstance(msg, M.BranchRoot.Request):
            self.rec(ev='srv', kind='root', r=self.idof(msg.username))
        elif isinstance(msg, M.ToggleParentSearch.Request):
            self.rec(ev='srv', kind='search', b=bool(msg.enable))
        elif isinstance(msg, M.AcceptChildren.Request):
            self.rec(ev='srv', kind='accept', b=bool(msg.accept))

    @property
    def session(self):
        return self.srv.session_of(self.me)

    # ------------------------------------------------------------------ links to peers
    def _policy(self, host, port):
        for ps in self.peers.values():
            if ps.port == port and ps.gate is not None and not ps.gate.done():
                return ('gate', ps.gate)
        return 'ok'

    def _adopt(self, ps: PeerSim, ep: Endpoint, client_side: int, requested: bool, first_is_init: bool):
        ps.ep, ps.req = ep, requested
        ps.cw = ep.link.writers[client_side]
        _pausable(ps.cw, self.loop)
        if self.hold:
            ps.cw.hold_wait_closed = True
        t = self.loop.create_task(self._peer_reader(ps, ep, first_is_init), name=f'sim-peer-reader-{ps.pid}')
        ps.readers.append(t)
        self._tasks.append(t)

    def _make_accept(self, ps: PeerSim):
        def on_accept(ep: Endpoint):
            # the client connected to us (potential parent attempt)
            self._adopt(ps, ep, 0, True, True)
        return on_accept

    async def _peer_reader(self, ps: PeerSim, ep: Endpoint, first_is_init: bool):
        M = self.M
        first = first_is_init
        while True:
            frame = await ep.read_frame()
            if frame is None:
                return
            try:
                if first:
                    first = False
                    msg = M.PeerInitializationMessage.deserialize_request(frame)
                    if isinstance(msg, M.PeerInit.Request):
                        continue
                else:
                    msg = M.DistributedMessage.deserialize_request(frame)
            except Exception:
                self.rec(ev='pf', p=ps.pid, kind='garbage')
                continue
            if isinstance(msg, M.DistributedBranchLevel.Request):
                self.rec(ev='pf', p=ps.pid, kind='level', l=int(msg.level))
            elif isinstance(msg, M.DistributedBranchRoot.Request):
                self.rec(ev='pf', p=ps.pid, kind='root', r=self.idof(msg.username))
            elif isinstance(msg, M.DistributedSearchRequest.Request):
                self.rec(ev='pf', p=ps.pid, kind='srch', u=self.idof(msg.username), t=int(msg.ticket), q=msg.query)
            elif isinstance(msg, M.DistributedServerSearchRequest.Request):
                if msg.distributed_code == M.DistributedSearchRequest.Request.MESSAGE_ID:
                    self.rec(ev='pf', p=ps.pid, kind='srch', u=self.idof(msg.username), t=int(msg.ticket), q=msg.query)
            # other distributed frames (child depth ...) are outside the properties

    # ------------------------------------------------------------------ askers
    def _make_asker_accept(self, aid: str):
        async def on_accept(ep: Endpoint):
            self.asker_eps.append(ep)
            M = self.M
            first = True
            while True:
                frame = await ep.read_frame()
                if frame is None:
                    return
                try:
                    if first:
                        first = False
                        M.PeerInitializationMessage.deserialize_request(frame)
                        continue
                    msg = M.PeerMessage.deserialize_request(frame)
                except Exception:
                    continue
                if isinstance(msg, M.PeerSearchReply.Request):
                    self.rec(ev='reply', to=aid, t=int(msg.ticket), user=self.idof(msg.username),
                             vis=sorted(f.filename.split('\\')[-1] for f in msg.results),
                             lock=sorted(f.filename.split('\\')[-1] for f in (msg.locked_results or [])))
        return on_accept

    # ------------------------------------------------------------------ stimuli
    async def do(self, stim: tuple):
        """Apply one stimulus, let the loop drain, take a snapshot.  ('burst', s1, s2, ...) applies
        several stimuli in the same loop slot - their bytes / EOFs are handed to the loop back to
        back, in this order - before the loop runs."""
        group = list(stim[1:]) if stim[0] == 'burst' else [stim]
        for n, st in enumerate(group):
            fn = getattr(self, 's_' + st[0])
            try:
                res = fn(*st[1:])        # raises Infeasible before anything is recorded or sent
                if asyncio.iscoroutine(res):
                    await res
            except Infeasible:
                if n == 0:
                    raise
                break                    # the first part happened: judge it
        await self.settle()
        self.snap()

    async def s_bystander(self):
        """A peer that has nothing to do with the tree opens an ordinary peer connection to us."""
        if self.bystander is not None and self.bystander.link.open:
            raise Infeasible('bystander already connected')
        self.rec(ev='bystander')
        ep = await self.net.dial(CLIENT_PORT)
        ep.send_message(self.M.PeerInit.Request('bystander of ' + self.me, 'P', 0))
        self.bystander = ep

    def s_bygone(self):
        if self.bystander is None or not self.bystander.link.open:
            raise Infeasible('no bystander')
        self.rec(ev='bygone')
        self.bystander.close()

    def s_closeother(self, pid, mode='eof'):
        """close(pid), but only for a peer that is neither parent nor child at the moment (used in
        bursts: the closing connection must be unrelated to the request being passed on)."""
        ps = self._need_open(pid)
        dn = self.dn
        if (dn.parent is not None and self.idof_peer(dn.parent) == pid) or any(self.idof_peer(c) == pid for c in dn.children):
            raise Infeasible('not an unrelated peer')
        self.s_close(pid, mode)

    def s_closeifopen(self, pid, mode='eof'):
        ps = self.peers[pid]
        if ps.ep is not None and ps.ep.link.open:
            self.s_close(pid, mode)

    def s_xphr(self, phrases):
        """ExcludedSearchPhrases from the server.  The record names the shared files whose path (below the
        shared directory, backslash separated) contains one of the phrases literally, ignoring case."""
        self._need_session()
        phrases = list(phrases)
        low = [ph.lower() for ph in phrases]
        xfiles = sorted(n for n, path in self.file_paths.items() if any(ph in path.lower() for ph in low))
        self.rec(ev='xphr', phrases=phrases, xfiles=xfiles)
        self.session.send(self.M.ExcludedSearchPhrases.Response(phrases))

    def s_pp(self, S):
        M = self.M
        from aioslsk.protocol.primitives import PotentialParent
        S = list(S)
        self._need_session()
        # bound of the model (PotentialParents requires conn[p] = "none"): at most one distributed
        # connection per peer - the server proposes only peers we have no link with and no attempt to.
        # The model and the execution can disagree on that (e.g. the model rejected a child the code
        # accepted because the concrete speed allowed more children); then the rest is dropped.
        for pid in S:
            ps = self.peers[pid]
            if self._link_state(ps) != 'none' or (ps.gate is not None and not ps.gate.done()):
                raise Infeasible('peer already has a distributed link or a pending attempt')
        for pid in S:
            self.peers[pid].gate = self.loop.create_future()
        self.rec(ev='pp', S=S)
        self.session.send(M.PotentialParents.Response(
            entries=[PotentialParent(self.peers[p].name, self.peers[p].ip, self.peers[p].port) for p in S]))

    def s_attempt(self, pid, ok):
        ps = self.peers[pid]
        if ps.gate is None or ps.gate.done():
            ps.gate = None
            raise Infeasible('no pending attempt')
        if ok and self._link_state(ps) != 'none':
            raise Infeasible('link exists')
        self.rec(ev='attempt', p=pid, ok=bool(ok))
        ps.gate.set_result('ok' if ok else 'refuse')
        ps.gate = None

    async def s_incoming(self, pid, slow=False):
        ps = self.peers[pid]
        if self._link_state(ps) != 'none':
            raise Infeasible('link exists')
        if ps.gate is not None and not ps.gate.done():
            raise Infeasible('an attempt to this peer is pending')
        self.rec(ev='incoming', p=pid, slow=bool(slow))
        ep = await self.net.dial(CLIENT_PORT)
        self._adopt(ps, ep, 1, False, False)
        if slow:
            ps.cw.paused = True
        ep.send_message(self.M.PeerInit.Request(ps.name, 'D', 0))

    def _need_open(self, pid):
        ps = self.peers[pid]
        if ps.ep is None or not ps.ep.link.open:
            raise Infeasible('link not open')
        return ps

    def s_level(self, pid, l):
        self._need_open(pid)
        self.rec(ev='level', p=pid, l=int(l))
        self.peers[pid].ep.send_message(self.M.DistributedBranchLevel.Request(int(l)))

    def s_root(self, pid, r):
        self._need_open(pid)
        self.rec(ev='root', p=pid, r=r)
        self.peers[pid].ep.send_message(self.M.DistributedBranchRoot.Request(self.nameof(r)))

    def s_close(self, pid, mode='eof'):
        ps = self._need_open(pid)
        self.rec(ev='close', p=pid)
        if mode == 'eof':
            ps.ep.close()
        else:
            ps.ep.link.cut(mode)

    def s_wcdone(self, pid):
        ps = self.peers[pid]
        if self._link_state(ps) != 'closing':
            raise Infeasible('not closing')
        self.rec(ev='wcdone', p=pid)
        if ps.cw is not None:
            ps.cw.release_wait_closed()
            if self.hold and ps.ep is not None and ps.ep.link.open:
                ps.cw.hold_wait_closed = True      # nothing was closing: keep the gate armed

    def s_drained(self, pid):
        ps = self.peers[pid]
        if ps.cw is None or not ps.cw.paused:
            raise Infeasible('not paused')
        self.rec(ev='drained', p=pid)
        if ps.cw is not None:
            ps.cw.resume()

    def s_srvpause(self):
        """The server connection stops draining: every send of the client to the server suspends in
        drain() (the bytes are on their way; FIFO wake-up of all waiters at `srvresume`)."""
        self._need_session()
        if self.srv_cw is None or self.srv_cw.paused:
            raise Infeasible('server link already paused')
        self.rec(ev='srvpause')
        self.srv_cw.paused = True

    def s_srvresume(self):
        if self.srv_cw is None or not self.srv_cw.paused:
            raise Infeasible('server link not paused')
        self.rec(ev='srvresume')
        self.srv_cw.resume()

    def s_ustats(self, speed, who='me'):
        from aioslsk.protocol.primitives import UserStats
        self._need_session()
        self.rec(ev='ustats', speed=int(speed), who=who)
        if who == 'me':
            self.server_speed = int(speed)
        name = self.me if who == 'me' else 'somebody else'
        self.session.send(self.M.GetUserStats.Response(name, UserStats(int(speed), 0, 0, 0)))

    def _need_session(self):
        """Server stimuli need a session - and a server reader that is not held up: the client's server
        reader task runs ResetDistributed to completion (it awaits the disconnects) before it reads the
        next message, so until the world is quiescent again after a `reset` a server message would be
        processed at an unknown later time and the trace spec could not tell when its effect begins."""
        if self.session is None or self.client.session is None:
            raise Infeasible('no session')
        if self.srv_cw is not None and self.srv_cw.paused:
            # a handler of the server reader may be waiting in a send to the server: same reason as below
            raise Infeasible('server link back-pressured')
        if self.reset_pending:
            # reset() closes the children, then the parent: it is over once none of their links is left
            # (or, whatever else happened, once the world is quiescent again)
            if self.busy() and any(self._link_state(self.peers[p]) != 'none' for p in self.reset_wait):
                raise Infeasible('ResetDistributed still in progress')
            self.reset_pending = False

    def s_param(self, k, v):
        self._need_session()
        self.rec(ev='param', k=k, v=int(v))
        if k == 'minspeed':
            self.session.send(self.M.ParentMinSpeed.Response(int(v)))
        else:
            self.session.send(self.M.ParentSpeedRatio.Response(int(v)))

    def s_reset(self):
        self._need_session()
        self.reset_pending = True
        tree = list(self.dn.children) + ([self.dn.parent] if self.dn.parent else [])
        self.reset_wait = {self.idof_peer(n) for n in tree if self.idof_peer(n) in self.peers}
        self.rec(ev='reset')
        self.session.send(self.M.ResetDistributed.Response())

    def s_sesslost(self, mode='eof'):
        self._need_session()
        self.rec(ev='sesslost')
        self.session.close(mode)

    async def s_sessinit(self):
        if self.client.session is not None:
            raise Infeasible('session exists')
        self.rec(ev='sessinit')
        await self.client.network.connect_server()
        await self.client.login()

    def s_search(self, carrier, frm, u, t, query, code=3):
        M = self.M
        if carrier == 'server':
            self._need_session()
            if self.dn.parent is not None:
                raise Infeasible('server search while there is a parent')
        else:
            ps = self._need_open(frm)
            par = self.dn.parent
            if par is None or self.idof_peer(par) != frm:
                raise Infeasible('sender is not the parent')
        self.nsearch += 1
        inc, exc = parse_query(query)
        self.rec(ev='search', carrier=carrier, frm=frm, u=u, t=int(t), terms=inc, excl=exc, q=query,
                 code=int(code))
        uname = self.nameof(u)
        if carrier == 'server':
            self.session.send(M.ServerSearchRequest.Response(int(code), 0, uname, int(t), query))
        elif carrier == 'dist':
            self.peers[frm].ep.send_message(M.DistributedSearchRequest.Request(0x31, uname, int(t), query))
        else:
            self.peers[frm].ep.send_message(
                M.DistributedServerSearchRequest.Request(int(code), 0, uname, int(t), query))

    # ------------------------------------------------------------------ gates
    def release_all(self):
        if self.srv_cw is not None:
            self.srv_cw.resume()
        for ps in self.peers.values():
            if ps.cw is not None:
                ps.cw.release_wait_closed()
                ps.cw.resume()
        for l in self.net.links if self.net else []:
            for w in l.writers:
                w.release_wait_closed()

    async def flush(self):
        """End of a schedule: resolve every gate, let everything finish, final snapshot."""
        self.rec(ev='flush')
        self.hold = False
        for ps in self.peers.values():
            if ps.gate is not None and not ps.gate.done():
                ps.gate.set_result('refuse')
            ps.gate = None
        for _ in range(4):
            self.release_all()
            await self.settle()
        self.snap()

    # ------------------------------------------------------------------ observation
    def _link_state(self, ps: PeerSim) -> str:
        """The environment's view of p's distributed link: 'open'; 'closing' from the moment either
        side closed / the link broke until the client's own wait_closed() has returned (only then
        has the client had the chance to run its CLOSED handler); 'none' afterwards."""
        if ps.ep is None:
            return 'none'
        link = ps.ep.link
        if link.open:
            return 'open'
        if not link.closed[ps.cw.side]:
            return 'closing'            # the client has not reacted yet
        g = getattr(ps.cw, '_wc_gate', None)
        if (g is not None and not g.done()) or ps.cw.hold_wait_closed:
            return 'closing'
        return 'none'

    def busy(self) -> bool:
        if self.srv_cw is not None and self.srv_cw.blocked():
            return True
        for ps in self.peers.values():
            if ps.cw is None:
                continue
            if self._link_state(ps) == 'closing' or ps.cw.blocked():
                return True
        return False

    def snap(self):
        dn = self.dn
        par = dn.parent
        links = {pid: 'none' for pid in ALLP}
        req = {pid: False for pid in ALLP}
        links.update({pid: self._link_state(ps) for pid, ps in self.peers.items()})
        req.update({pid: bool(ps.req) for pid, ps in self.peers.items()})

        def cstate(peer):
            try:
                c = peer.connection
                return f'{c.state.name}/{c.connection_type}'
            except Exception:
                return 'unknown'
        self.rec(ev='snap', q=not self.busy(),
                 parent=self.idof_peer(par) if par is not None else 'none',
                 pst=cstate(par) if par is not None else 'none',
                 children=[self.idof_peer(c) for c in dn.children],
                 cst=[cstate(c) for c in dn.children],
                 links=links, req=req,
                 session=self.client.session is not None)


def run_schedule(stimuli, *, names, me='me', roots=None, askers=None, share=None, hold=True, tmpdir=None,
                 alias=None):
    """Execute a list of stimuli on a fresh world; returns (events, info)."""
    info: dict[str, Any] = {}

    async def main(loop):
        w = World(loop, names=names, me=me, roots=roots, askers=askers, share=share, hold=hold, tmpdir=tmpdir,
                  alias=alias)
        await w.start()
        w.snap()
        try:
            for st in stimuli:
                try:
                    await w.do(tuple(st))
                except Infeasible as exc:
                    # the rest of the schedule is dropped; the recorded prefix stays a valid execution
                    info['truncated'] = f'{st[0]}: {exc}'
                    break
            await w.flush()
        finally:
            info['not_settled'] = w.not_settled
            info['unhandled'] = len(loop.unhandled)
            # an exception inside the scripted counterparts is a harness bug, never an observation
            for ctx in loop.unhandled:
                exc = ctx.get('exception')
                tb = getattr(exc, '__traceback__', None)
                while tb is not None and tb.tb_next is not None:
                    tb = tb.tb_next
                where = tb.tb_frame.f_code.co_filename if tb is not None else ''
                if '/harness/' in where:
                    info['sim_failure'] = f'{type(exc).__name__}: {exc} in {where}'
            await w.stop()
        return w.events

    events, loop = vloop.run(main)
    return events, info


# ---------------------------------------------------------------------------
# naming the violated property of many rejected traces in one TLC run (fingerprints only)
# ---------------------------------------------------------------------------

def judge_traces(trace_spec: str, judge_cfg: str, traces: list, *, workers=4, timeout=900) -> dict:
    """Runs `judge_cfg` (the trace spec without CONSTRAINTs) over `traces`; returns
    {index (1-based) -> ('accept', None, None) | ('property', name, l, detail)}; a trace that is missing
    from the result contains an event no action of the trace spec explains."""
    import json as _json
    import re as _re
    import shutil
    import tempfile
    from . import tlc
    out: dict[int, tuple] = {}
    if not traces:
        return out
    d = tempfile.mkdtemp(prefix='tlcjudge-')
    try:
        f = os.path.join(d, 'batch.json')
        with open(f, 'w') as fh:
            _json.dump(traces, fh)
        res = tlc.run_tlc(trace_spec, judge_cfg, workers=workers, deadlock=False, env={'TRACE_FILE': f},
                          timeout=timeout, parse_traces=False)
        if res.issues or not res.finished:
            raise tlc.TLCError(f'judge run failed: {[(i.kind, i.name, i.message[:300]) for i in res.issues]}')
        joined = ' '.join(res.prints)
        # PrintT wraps long tuples over several lines and then pads the brackets
        for m in _re.finditer(r'<<\s*"ACCEPT",\s*(\d+),', joined):
            out[int(m.group(1))] = ('accept', None, None)
        for m in _re.finditer(r'<<\s*"JUDGE",\s*(\d+),\s*"(\w+)",\s*(\d+),\s*"([\w-]*)"\s*>>', joined):
            out[int(m.group(1))] = ('property', m.group(2), int(m.group(3)), m.group(4))
        return out
    finally:
        shutil.rmtree(d, ignore_errors=True)

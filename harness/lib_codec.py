"""Helpers for C01 (spec Codec): the pinned wire layout, abstract values, and the bridge between
abstract values (what TLC sees) and real aioslsk message objects.

Abstract values (JSON, no null, every integer < 2^31):
  uint8 / uint16          [n]                       one limb
  uint32                  [lo, hi]                  base-65536 limbs, least significant first
  uint64                  [l0, l1, l2, l3]
  int32                   {"neg": bool, "mag": [lo, hi]}     sign + magnitude (neg => mag # 0)
  boolean                 true / false
  string                  [b, ...]                  the UTF-8 bytes (the Unicode codec is trusted)
  bytearr                 [b, ...]
  ipaddr                  [a, b, c, d]              dotted order
  array                   [elem, ...]
  struct / message        {"field": value, ...}     absent conditional / optional fields are omitted

One-off tools (run from /verif with PYTHONPATH=.):
  /venv/bin/python -m harness.lib_codec gen-layout   > specs/Codec/layout.json   (unchanged tree only)
  /venv/bin/python -m harness.lib_codec gen-anchors  > specs/Codec/anchors.json  (hand-written test vectors)
  /venv/bin/python -m harness.lib_codec doc-check    compare the pin with docs/source/deprecated/MESSAGES.rst
  /venv/bin/python -m harness.lib_codec drift        compare the code's field metadata with the pin
"""
from __future__ import annotations

import json
import os
import re
from typing import Any, Optional

VERIF = os.path.dirname(os.path.dirname(os.path.abspath(__file__)))
LAYOUT_FILE = os.path.join(VERIF, 'specs', 'Codec', 'layout.json')

INT_LIMBS = {'uint8': 1, 'uint16': 1, 'uint32': 2, 'uint64': 4}
INT_BITS = {'uint8': 8, 'uint16': 16, 'uint32': 32, 'uint64': 64}
PRIMS = ('uint8', 'uint16', 'uint32', 'uint64', 'int32', 'boolean', 'string', 'bytearr', 'ipaddr')

FAMILIES = {            # family -> (base class name, {direction: dispatcher method})
    'server': ('ServerMessage', {'Request': 'deserialize_request', 'Response': 'deserialize_response'}),
    'peerinit': ('PeerInitializationMessage', {'Request': 'deserialize_request'}),
    'peer': ('PeerMessage', {'Request': 'deserialize_request'}),
    'distributed': ('DistributedMessage', {'Request': 'deserialize_request'}),
}


class ShapeError(Exception):
    """A real value does not have the shape the pinned type prescribes."""


def load_pin() -> dict:
    with open(LAYOUT_FILE) as fh:
        return json.load(fh)


# ---------------------------------------------------------------------------
# code introspection (used once to generate the pin; afterwards only for the drift diagnostic)
# ---------------------------------------------------------------------------

_TYPE_ALIASES = {'_PeerInitTicket': 'uint32'}     # tolerant parser of a uint32 (see layout.json notes)


def _tname(t) -> str:
    n = t.__name__
    return _TYPE_ALIASES.get(n, n)


def _abs_default(tname, value):
    return to_abstract(tname, 'none', value, None)


def introspect_fields(cls, structs_out: Optional[dict] = None) -> list[dict]:
    import dataclasses
    out = []
    for f in dataclasses.fields(cls):
        md = f.metadata
        t = md['type']
        st = md.get('subtype')
        rec = dict(name=f.name, type=_tname(t), subtype=_tname(st) if st is not None else 'none',
                   cond='if_true' if 'if_true' in md else 'if_false' if 'if_false' in md else 'none',
                   on=md.get('if_true', md.get('if_false', 'none')),
                   optional=bool(md.get('optional', False)))
        if rec['optional'] and f.default is not dataclasses.MISSING and f.default is not None:
            rec['absent_default'] = _abs_default(rec['type'], f.default)
        out.append(rec)
        if structs_out is not None:
            for x in (t, st):
                if x is not None and dataclasses.is_dataclass(x) and x.__name__ not in structs_out:
                    structs_out[x.__name__] = None
                    structs_out[x.__name__] = introspect_fields(x, structs_out)
    return out


def iter_code_classes():
    """(qualified name, family, direction, class) for every message class the code defines."""
    from aioslsk.protocol import messages as M
    for fam, (base, dirs) in FAMILIES.items():
        for sub in getattr(M, base).__subclasses__():
            for d in ('Request', 'Response'):
                c = getattr(sub, d, None)
                if c is not None:
                    yield f'{sub.__name__}.{d}', fam, d, c


def introspect_code() -> dict:
    structs: dict = {}
    messages = {}
    for q, fam, d, c in iter_code_classes():
        mid = c.MESSAGE_ID
        compressed = 'serialize' in c.__dict__
        messages[q] = dict(family=fam, direction=d, code=int(mid), code_width=type(mid).STRUCT.size,
                           compressed=compressed, fields=introspect_fields(c, structs))
    return dict(structs=structs, messages=messages)


def find_class(q: str):
    from aioslsk.protocol import messages as M
    outer, inner = q.split('.')
    o = getattr(M, outer, None)
    return getattr(o, inner, None) if o is not None else None


def find_struct(name: str):
    from aioslsk.protocol import primitives as P
    return getattr(P, name)


def metadata_drift(pin: dict) -> list[str]:
    """Differences between the code's declared field metadata and the pin. Diagnostic only: the
    verdict is behavioural (bytes), a refactor that keeps the bytes keeps passing."""
    try:
        cur = introspect_code()
    except Exception as exc:        # a refactor may remove the metadata altogether
        return [f'introspection failed: {type(exc).__name__}: {exc}']
    out = []
    for q, m in pin['messages'].items():
        c = cur['messages'].get(q)
        if c is None:
            out.append(f'{q}: class not found in code')
            continue
        for k in ('family', 'direction', 'code', 'code_width', 'compressed'):
            if c[k] != m[k]:
                out.append(f'{q}: {k} {m[k]!r} -> {c[k]!r}')
        if c['fields'] != m['fields']:
            out.append(f'{q}: fields differ: pin={_sig(m["fields"])} code={_sig(c["fields"])}')
    for q in cur['messages']:
        if q not in pin['messages']:
            out.append(f'{q}: class in code but not pinned (not covered)')
    for s, fl in pin['structs'].items():
        if cur['structs'].get(s) != fl:
            out.append(f'struct {s}: fields differ')
    return out


def _sig(fields):
    return [f"{f['name']}:{f['type']}" + (f"[{f['subtype']}]" if f['subtype'] != 'none' else '') +
            (f"?{f['cond']}({f['on']})" if f['cond'] != 'none' else '') + ('?opt' if f['optional'] else '')
            for f in fields]


# ---------------------------------------------------------------------------
# abstract <-> real values
# ---------------------------------------------------------------------------

def limbs(n: int, k: int) -> list[int]:
    return [(n >> (16 * i)) & 0xFFFF for i in range(k)]


def unlimbs(ls) -> int:
    return sum(int(x) << (16 * i) for i, x in enumerate(ls))


def to_abstract(t: str, st: str, v: Any, pin: Optional[dict]):
    """Real Python value -> abstract value, by the *pinned* type. Raises ShapeError when the value
    cannot be an instance of that type (so that TLC is never asked to compare ill-shaped values)."""
    if t in INT_LIMBS:
        if not isinstance(v, int) or not 0 <= int(v) < (1 << INT_BITS[t]):
            raise ShapeError(f'{t}: {v!r}')
        return limbs(int(v), INT_LIMBS[t])
    if t == 'int32':
        if not isinstance(v, int) or not -(1 << 31) <= int(v) < (1 << 31):
            raise ShapeError(f'int32: {v!r}')
        return dict(neg=int(v) < 0, mag=limbs(abs(int(v)), 2))
    if t == 'boolean':
        if isinstance(v, bool) or (isinstance(v, int) and v in (0, 1)):
            return bool(v)
        raise ShapeError(f'boolean: {v!r}')
    if t == 'string':
        if not isinstance(v, str):
            raise ShapeError(f'string: {v!r}')
        try:
            return list(v.encode('utf-8'))
        except UnicodeEncodeError:
            raise ShapeError(f'string not encodable: {v!r}')
    if t == 'bytearr':
        if not isinstance(v, (bytes, bytearray)):
            raise ShapeError(f'bytearr: {v!r}')
        return list(bytes(v))
    if t == 'ipaddr':
        if not isinstance(v, str) or not re.fullmatch(r'\d{1,3}(\.\d{1,3}){3}', v):
            raise ShapeError(f'ipaddr: {v!r}')
        parts = [int(x) for x in v.split('.')]
        if any(p > 255 for p in parts) or '.'.join(str(p) for p in parts) != v:
            raise ShapeError(f'ipaddr: {v!r}')
        return parts
    if t == 'array':
        if not isinstance(v, (list, tuple)):
            raise ShapeError(f'array: {v!r}')
        return [to_abstract(st, 'none', x, pin) for x in v]
    if pin is not None and t in pin['structs']:
        return record_to_abstract(pin['structs'][t], v, pin)
    raise ShapeError(f'unknown type {t}')


def record_to_abstract(fields: list[dict], obj: Any, pin: dict) -> dict:
    out = {}
    for f in fields:
        try:
            v = getattr(obj, f['name'])
        except AttributeError:
            raise ShapeError(f'no attribute {f["name"]!r}')
        if v is None:
            continue
        out[f['name']] = to_abstract(f['type'], f['subtype'], v, pin)
    return out


def to_real(t: str, st: str, a: Any, pin: dict):
    if t in INT_LIMBS:
        return unlimbs(a)
    if t == 'int32':
        m = unlimbs(a['mag'])
        return -m if a['neg'] else m
    if t == 'boolean':
        return bool(a)
    if t == 'string':
        return bytes(a).decode('utf-8')
    if t == 'bytearr':
        return bytes(a)
    if t == 'ipaddr':
        return '.'.join(str(x) for x in a)
    if t == 'array':
        return [to_real(st, 'none', x, pin) for x in a]
    cls = find_struct(t)
    return cls(**{f['name']: to_real(f['type'], f['subtype'], a[f['name']], pin) for f in pin['structs'][t]})


def message_kwargs(q: str, a: dict, pin: dict) -> dict:
    """Constructor arguments of the real message for abstract value `a`: every pinned field is
    passed explicitly, an absent field as None."""
    kw = {}
    for f in pin['messages'][q]['fields']:
        kw[f['name']] = to_real(f['type'], f['subtype'], a[f['name']], pin) if f['name'] in a else None
    return kw


# ---------------------------------------------------------------------------
# value generation (from the pin, never from the code)
# ---------------------------------------------------------------------------

_STRINGS = ['', 'a', 'user name', 'café über', '日本語の名前', 'emoji \U0001F3B5\U0001F600',
            '\x00nul\\path\\file.mp3', 'x' * 255, 'y' * 256, 'é' * 150,
            # strings that are not in a Unicode normal form: the wire carries the code points as given
            'e\u0301 decomposed', '\u1112\u1161\u11ab jamo', '\u212b angstrom \ufb01 ligature', '\u00c5 vs A\u030a']


def _boundary(t: str) -> list:
    if t in INT_BITS:
        b = INT_BITS[t]
        vals = {0, 1, 2, 127, 128, 255, (1 << b) - 1, (1 << b) - 2, 1 << (b - 1), (1 << (b - 1)) - 1}
        for k in (8, 16, 24, 31, 32, 33, 48, 56, 63):
            if k < b:
                vals |= {1 << k, (1 << k) - 1, (1 << k) + 1}
        if b >= 32:
            vals |= {0x01020304, 0x80000001, 0xFEDCBA98}
        if b == 64:
            vals |= {0x0102030405060708, 0xFFFFFFFF00000000, 0x00000000FFFFFFFF, 0x8000000000000001}
        return sorted(v for v in vals if 0 <= v < (1 << b))
    if t == 'int32':
        return [0, 1, -1, 2, -2, 127, -128, 255, -255, 256, -256, 65535, -65535, 65536, -65536, 0x7FFFFFFF,
                -0x80000000, -0x7FFFFFFF, 0x01020304, -0x01020304, 0x7FFF0000, -0x7FFF0000]
    if t == 'boolean':
        return [False, True]
    if t == 'string':
        return list(_STRINGS)
    if t == 'bytearr':
        return [b'', b'\x00', b'\xff', bytes(range(256)) + bytes(range(44)), b'\x89PNG\r\n\x1a\n' + b'\x00' * 3]
    if t == 'ipaddr':
        return ['0.0.0.0', '255.255.255.255', '1.2.3.4', '127.0.0.1', '192.168.0.255', '10.0.200.1', '128.1.0.127']
    raise KeyError(t)


class Gen:
    """Abstract value generator driven by the pin. `mode`: index of the case for this class;
    the first cases walk the boundary sets, later ones are seeded random."""

    def __init__(self, pin: dict, rng):
        self.pin = pin
        self.rng = rng

    # -- primitives -------------------------------------------------------------
    def prim(self, t: str, k: Optional[int]):
        """k = None: random in-domain value; k = int: k-th boundary value (cyclic)."""
        r = self.rng
        if k is not None:
            b = _boundary(t)
            v = b[k % len(b)]
        elif t in INT_BITS:
            bits = INT_BITS[t]
            c = r.random()
            if c < 0.25:
                v = r.choice(_boundary(t))
            elif c < 0.5:
                v = r.getrandbits(r.randint(1, bits))
            else:
                v = r.getrandbits(bits)
        elif t == 'int32':
            c = r.random()
            v = r.choice(_boundary(t)) if c < 0.25 else r.randint(-(1 << 31), (1 << 31) - 1) if c < 0.7 else \
                r.randint(-70000, 70000)
        elif t == 'boolean':
            v = r.random() < 0.5
        elif t == 'string':
            c = r.random()
            if c < 0.2:
                v = r.choice(_STRINGS)
            else:
                n = r.choice([0, 1, 2, 3, 5, 8, 13, 21, 40]) if c < 0.9 else r.randint(100, 300)
                alphabet = r.choice(['abcdefghijklmnopqrstuvwxyz0123456789 _-.\\',
                                     'aéüßłф中文\U0001F3B6 \\',
                                     ''.join(chr(i) for i in range(1, 128))])
                v = ''.join(r.choice(alphabet) for _ in range(n))
        elif t == 'bytearr':
            c = r.random()
            v = r.choice(_boundary(t)) if c < 0.3 else bytes(r.getrandbits(8) for _ in range(r.choice([0, 1, 4, 17, 64, 300])))
        elif t == 'ipaddr':
            v = r.choice(_boundary(t)) if r.random() < 0.3 else '.'.join(str(r.randint(0, 255)) for _ in range(4))
        else:
            raise KeyError(t)
        return to_abstract(t, 'none', v, None)

    def value(self, t: str, st: str, k: Optional[int], depth: int = 0):
        if t in PRIMS:
            return self.prim(t, k)
        if t == 'array':
            if k is not None:
                n = (0, 1, 3, 2)[k % 4]
            else:
                n = self.rng.choice([0, 1, 1, 2, 3, 5] if depth == 0 else [0, 1, 2, 3])
            nested = st not in PRIMS
            if nested and depth >= 1:
                n = min(n, 2)
            return [self.value(st, 'none', None if k is None else k + i * 7, depth + 1) for i in range(n)]
        return {f['name']: self.value(f['type'], f['subtype'], k, depth + 1) for f in self.pin['structs'][t]}

    # -- messages ---------------------------------------------------------------
    def variants(self, q: str) -> list[tuple]:
        """All (condition assignment, number of optionals present) shapes of a message."""
        fields = self.pin['messages'][q]['fields']
        conds = sorted({f['on'] for f in fields if f['cond'] != 'none'})
        out = []
        for mask in range(1 << len(conds)):
            asg = {c: bool(mask >> i & 1) for i, c in enumerate(conds)}
            live_opt = [f for f in fields if f['optional'] and self._cond_ok(f, asg)]
            for npresent in range(len(live_opt) + 1):
                out.append((asg, npresent))
        return out

    @staticmethod
    def _cond_ok(f, asg):
        return f['cond'] == 'none' or (f['cond'] == 'if_true') == asg[f['on']]

    def message(self, q: str, variant: tuple, k: Optional[int]) -> dict:
        asg, npresent = variant
        fields = self.pin['messages'][q]['fields']
        a = {}
        nopt = 0
        for i, f in enumerate(fields):
            if not self._cond_ok(f, asg):
                continue
            if f['optional']:
                nopt += 1
                if nopt > npresent:
                    continue
            if f['name'] in asg:
                a[f['name']] = asg[f['name']]          # condition fields are boolean in the pin
            else:
                a[f['name']] = self.value(f['type'], f['subtype'], None if k is None else k + i)
        return a


# ---------------------------------------------------------------------------
# documentation cross-check (one-off review aid)
# ---------------------------------------------------------------------------

_WIDTH = {'uint8': '1', 'uchar': '1', 'boolean': '1', 'bool': '1', 'uint16': '2', 'uint32': '4', 'int32': '4',
          'ip': '4', 'ipaddr': '4', 'uint64': '8', 'int64': '8', 'string': 'S', 'bytearr': 'S', 'bytes': 'S'}


def _doc_messages(path: str) -> dict:
    """{(section, Name): {code, Send: [...], Receive: [...]}} from the hand-written message list.
    An entry is a flat list of tokens: width class / struct name, '[' ... ']' around array elements,
    '?(' ... ')' around optional or conditional groups."""
    txt = open(path, encoding='utf8').read().splitlines()
    out = {}
    section = None
    cur = None
    block = None
    stack: list = []          # (indent, closing token)
    i = 0
    sect_names = {'Server Messages': 'server', 'Peer Initialization Messages': 'peerinit',
                  'Peer Messages': 'peer', 'Distributed Messages': 'distributed', 'File Messages': None}
    while i < len(txt):
        line = txt[i]
        nxt = txt[i + 1] if i + 1 < len(txt) else ''
        if nxt.startswith('====') and line.strip() in sect_names:
            section = sect_names[line.strip()]
        m = re.match(r'^(\w+) \(Code (\d+)\)$', line.strip())
        if m and nxt.startswith('---') and section:
            cur = dict(code=int(m.group(2)))
            out[(section, m.group(1))] = cur
            block = None
        elif cur is not None:
            bm = re.match(r'^:(Send|Receive|Send/Receive):', line)
            if bm:
                while stack:
                    block.append(stack.pop()[1])
                block = []
                for nm in bm.group(1).split('/'):
                    cur[nm] = block
                stack = []
            elif re.match(r'^:\w+:', line) or (line and not line.startswith(' ') and block is not None):
                if block is not None:
                    while stack:
                        block.append(stack.pop()[1])
                block = None if not re.match(r'^:(Send|Receive)', line) else block
            elif block is not None:
                im = re.match(r'^(\s+)\d+\. (.*)$', line)
                if im:
                    ind = len(im.group(1))
                    while stack and stack[-1][0] >= ind:
                        block.append(stack.pop()[1])
                    body = im.group(2)
                    tm = re.match(r'\*\*(\w+)\*\*', body)
                    rm = re.match(r':ref:`(\w+)`', body)
                    if tm:
                        block.append(_WIDTH.get(tm.group(1), tm.group(1)))
                    elif rm:
                        block.append(rm.group(1))
                    elif re.match(r'(an )?array', body.lower()):
                        block.append('[')
                        stack.append((ind, ']'))
                    else:       # Optional: / If ...
                        block.append('?(')
                        stack.append((ind, ')'))
        i += 1
    if block is not None:
        while stack:
            block.append(stack.pop()[1])
    return out


def _pin_tokens(fields, pin) -> list[str]:
    out = []
    open_group = None
    for f in fields:
        grp = (f['cond'], f['on']) if f['cond'] != 'none' else ('opt',) if f['optional'] else None
        if grp != open_group or (f['optional'] and f['cond'] != 'none'):
            if open_group is not None:
                out.append(')')
            if grp is not None:
                out.append('?(')
            open_group = grp
        if f['cond'] != 'none' and f['optional']:
            out.append('?(')
        t = f['type']
        if t == 'array':
            st = f['subtype']
            out += ['[', _WIDTH.get(st, st), ']']
        else:
            out.append(_WIDTH.get(t, t))
        if f['cond'] != 'none' and f['optional']:
            out.append(')')
    if open_group is not None:
        out.append(')')
    return out


def doc_check(repo: str, pin: dict) -> list[str]:
    doc = _doc_messages(os.path.join(repo, 'docs', 'source', 'deprecated', 'MESSAGES.rst'))
    notes = []
    seen = set()
    for q, m in pin['messages'].items():
        outer, d = q.split('.')
        ent = doc.get((m['family'], outer))
        if ent is None:
            notes.append(f'{q}: not in the hand-written documentation')
            continue
        seen.add((m['family'], outer))
        if ent['code'] != m['code']:
            notes.append(f'{q}: code pin={m["code"]} doc={ent["code"]}')
        key = 'Send' if d == 'Request' else 'Receive'
        if m['family'] != 'server':
            key = 'Send' if 'Send' in ent else 'Receive'
        dt = ent.get(key)
        if dt is None:
            notes.append(f'{q}: documentation has no :{key}: block')
            continue
        pt = _expand(_pin_tokens(m['fields'], pin), pin)
        dt = _expand(dt, pin)
        if _strip_groups(pt) != _strip_groups(dt):
            notes.append(f'{q}: WIDTHS differ pin={" ".join(pt)} doc={" ".join(dt)}')
        elif pt != dt:
            notes.append(f'{q}: grouping differs pin={" ".join(pt)} doc={" ".join(dt)}')
    for k in doc:
        if k not in seen:
            notes.append(f'doc-only message {k}')
    return notes


def _strip_groups(toks):
    return [t for t in toks if t not in ('?(', ')')]


def _expand(toks, pin):
    out = []
    for t in toks:
        if t in pin['structs']:
            out += _expand(_pin_tokens(pin['structs'][t], pin), pin)
        else:
            out.append({'ip_address': '4'}.get(t, t))
    return out


# ---------------------------------------------------------------------------
# anchors: the hand-written byte strings of the repository's own protocol tests (one-off)
# ---------------------------------------------------------------------------

def extract_anchors(repo: str, pin: dict) -> list[dict]:
    """(class, abstract value, bytes) for every `message = X(...); data = bytes.fromhex(...)` pair in
    tests/unit/protocol/test_messages.py (serialize and deserialize tests). For compressed messages
    `bytes` is the inflated payload. Only the *test data* is used, never the code's serializer."""
    import ast
    import zlib
    path = os.path.join(repo, 'tests', 'unit', 'protocol', 'test_messages.py')
    src = open(path, encoding='utf8').read()
    tree = ast.parse(src)
    ns: dict = {}
    for node in tree.body:
        if isinstance(node, (ast.Import, ast.ImportFrom)):
            try:
                exec(compile(ast.Module([node], []), path, 'exec'), ns)
            except ImportError:
                pass
    # inputs of the tolerant parser that are not the canonical encoding of `message`
    not_canonical = {'TestPrivateChatMessage.test_PrivateChatMessage_Response_deserialize_withoutIsAdmin',   # absent -> default
                     'TestPeerInit.test_PeerInit_Request_deserialize_uint64'}                                 # uint64 ticket accepted
    out, seen = [], set()
    for cls_node in [n for n in tree.body if isinstance(n, ast.ClassDef)]:
        for fn in [n for n in cls_node.body if isinstance(n, ast.FunctionDef)]:
            if f'{cls_node.name}.{fn.name}' in not_canonical:
                continue
            local = dict(ns)
            msg = data = None
            for st in fn.body:
                if isinstance(st, ast.Assign) and len(st.targets) == 1 and isinstance(st.targets[0], ast.Name):
                    name = st.targets[0].id
                    try:
                        val = eval(compile(ast.Expression(st.value), path, 'eval'), local)
                    except Exception:
                        continue
                    local[name] = val
                    if name == 'message':
                        msg = val
                    elif name == 'data':
                        data = val
            if msg is None or not isinstance(data, (bytes, bytearray)):
                continue
            q = None
            for qq in pin['messages']:
                c = find_class(qq)
                if c is not None and type(msg) is c:
                    q = qq
            if q is None:
                continue
            m = pin['messages'][q]
            try:
                a = record_to_abstract(m['fields'], msg, pin)
            except ShapeError:
                continue
            b = bytes(data)
            if m['compressed']:
                b = zlib.decompress(b[4 + m['code_width']:])
            key = (q, json.dumps(a, sort_keys=True), b)
            if key in seen:
                continue
            seen.add(key)
            out.append(dict(kind='anchor', cls=q, v=a, bytes=list(b), src=f'{cls_node.name}.{fn.name}'))
    return out


if __name__ == '__main__':
    import sys
    from .core import use_repo, REPO
    use_repo()
    cmd = sys.argv[1] if len(sys.argv) > 1 else ''
    if cmd == 'gen-layout':
        lay = introspect_code()
        lay = dict(_about='Pinned SoulSeek wire layout for C01 (spec Codec). Generated once from the unchanged '
                          'tree, reviewed against the documentation, committed as data; never regenerated by a check.',
                   **lay)
        json.dump(lay, sys.stdout, indent=1)
    elif cmd == 'doc-check':
        for n in doc_check(REPO, load_pin()):
            print(n)
    elif cmd == 'gen-anchors':
        json.dump(extract_anchors(REPO, load_pin()), sys.stdout)
    elif cmd == 'drift':
        for n in metadata_drift(load_pin()):
            print(n)
    else:
        print(__doc__)

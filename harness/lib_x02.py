"""Rigs for X02 (specs/QueuePlace): three small worlds around a real SoulSeekClient on the in-memory
network in virtual time.

  UploaderWorld    the client is the uploader; scripted peers queue files, ask for their place in the
                   queue, answer transfer requests (trace spec QueuePlaceTrace)
  DownloaderWorld  the client is the downloader; a scripted uploader reports places, starts / breaks
                   transfers (trace spec PlaceReplicaTrace)
  InterestWorld    the client against a scripted server that records interest messages and sends
                   recommendation replies (trace spec InterestsTrace)

Each `run_*` function takes the action labels of one TLC behaviour and a concretisation seed and
returns the recorded trace (list of JSON records).  Nothing here judges anything: records hold
arguments and projections of public surfaces; the verdict is TLC's.
"""
from __future__ import annotations

import asyncio
import copy
import json
import random
import re
import struct

from . import vloop
from .core import MachineryFailure
from .simnet import SimNet
from .simserver import ScriptedServer, ScriptedPeer, make_settings, make_client

CLIENT_PORT = 61000
PEER_PORT0 = 40000

_LABEL = re.compile(r'^(\w+)(?:\((.*)\))?$')


def parse_label(lab: str):
    """'Status(2,"online")' -> ('Status', [2, 'online'])"""
    m = _LABEL.match(lab.strip())
    if not m:
        return lab.strip(), []
    args = []
    for a in (m.group(2) or '').split(','):
        a = a.strip()
        if not a:
            continue
        if a.startswith('"'):
            args.append(a.strip('"'))
        elif a in ('TRUE', 'FALSE'):
            args.append(a == 'TRUE')
        else:
            try:
                args.append(int(a))
            except ValueError:
                args.append(a)
    return m.group(1), args


NAME_POOL = ['alice', 'bob', 'carol', 'dave', 'erin', 'Frank_7', 'grace hopper', 'heidi', 'ivan', 'judy',
             'mallory', 'niaj', 'olivia', 'peña', 'quentin', 'rupert', 'sybil', 'trent', 'uma', 'victor',
             'Дмитрий', '田中', 'x']

STATUS_CODE = {'offline': 0, 'away': 1, 'online': 2}
STATUS_NAME = {-1: 'unknown', 0: 'offline', 1: 'away', 2: 'online'}


def _unhandled(loop):
    return [c for c in loop.unhandled
            if 'exception' in c and not isinstance(c.get('exception'), asyncio.CancelledError)]


# =============================================================================================
# a1 - the uploader
# =============================================================================================

UP_PER_USER = 2
UP_MAX = 6                  # Trace.cfg: Uploads = 1..6, three users
UP_FILE_SIZE = 300


def up_owner(u: int) -> int:
    return (u - 1) // UP_PER_USER + 1


def up_file(u: int) -> int:
    return (u - 1) % UP_PER_USER


class UploaderWorld:
    def __init__(self, loop, share_dir, tmpdir, rng, slots0=0):
        self.loop = loop
        self.slots0 = slots0
        self.share_dir = share_dir
        self.tmpdir = tmpdir
        self.rng = rng
        self.nusers = UP_MAX // UP_PER_USER
        names = rng.sample(NAME_POOL, self.nusers)
        self.names = {o: names[o - 1] for o in range(1, self.nusers + 1)}
        self.events: list[dict] = []
        self.last_snap = None
        self.replies: list[tuple] = []       # (user index, filename, place) in arrival order
        self.tickets: dict[int, int] = {}
        self.p_conn = {}
        self.bg: list = []
        self.api_tasks: list = []
        self.keep: list = []
        self.skipped = 0                      # stimuli of the behaviour that did not apply to the real state
        self.finish_mode: dict[int, bool] = {}

    # -- set up ---------------------------------------------------------------------------------
    async def start(self):
        from aioslsk.events import MessageReceivedEvent, TransferAddedEvent
        from aioslsk.protocol import messages as M
        self.M = M
        self.net = SimNet(self.loop).install()
        self.srv = await ScriptedServer(self.net).start()
        self.settings = make_settings('me', port=CLIENT_PORT, download_dir=self.tmpdir,
                                      shared=[dict(path=self.share_dir, share_mode='everyone')])
        self.settings.transfers.limits.upload_slots = self.slots0
        self.client = make_client(self.settings)
        await self.client.start()
        await self.client.login()
        await self.client.shares.scan()
        self.paths = sorted(it.get_remote_path() for d in self.client.shares.shared_directories for it in d.items)
        if len(self.paths) < UP_PER_USER:
            raise MachineryFailure('share scan did not find the files')
        self.upload_of = {}
        for u in range(1, UP_MAX + 1):
            self.upload_of[(self.names[up_owner(u)], self.paths[up_file(u)])] = u
        # an application may keep User objects; doing so keeps what the server said about them
        self.user_objs = {o: self.client.users.get_user_object(self.names[o]) for o in self.names}
        self.peers = {}
        for o in self.names:
            p = ScriptedPeer(self.net, self.names[o], PEER_PORT0 + o)
            p.on_accept = self._make_accept(o)
            await p.listen()
            self.srv.addresses[self.names[o]] = (f'10.0.0.{o}', PEER_PORT0 + o, 0)
            self.peers[o] = p

        def on_added(event):
            tr = event.transfer
            if tr.is_upload() and (tr.username, tr.remote_path) in self.upload_of:
                tr.state_listeners.append(_UpListener(self))

        def on_message(event):
            self.sync()
        self.keep += [on_added, on_message]
        self.client.events.register(TransferAddedEvent, on_added)
        self.client.events.register(MessageReceivedEvent, on_message)
        await vloop.settle(self.loop)
        await asyncio.sleep(0.3)
        await vloop.settle(self.loop)

    async def stop(self):
        for t in self.bg + self.api_tasks:
            t.cancel()
        try:
            await self.client.stop()
        finally:
            self.net.uninstall()

    # -- projection -------------------------------------------------------------------------------
    def transfer(self, u):
        name, path = self.names[up_owner(u)], self.paths[up_file(u)]
        for tr in self.client.transfers.transfers:
            if tr.is_upload() and tr.username == name and tr.remote_path == path:
                return tr
        return None

    def snap(self):
        st = ['NONE'] * UP_MAX
        order = []
        for tr in self.client.transfers.transfers:
            if not tr.is_upload():
                continue
            u = self.upload_of.get((tr.username, tr.remote_path))
            if u is None:
                continue
            st[u - 1] = tr.state.VALUE.name
            order.append(u)
        status, friend, priv = [], [], []
        for o in range(1, self.nusers + 1):
            uo = self.user_objs[o]
            status.append(STATUS_NAME.get(uo.status.value, 'unknown'))
            friend.append(self.names[o] in self.settings.users.friends)
            priv.append(bool(uo.privileged))
        return dict(st=st, order=order, status=status, friend=friend, priv=priv,
                    slots=int(self.settings.transfers.limits.upload_slots))

    def sync(self):
        s = self.snap()
        if s != self.last_snap:
            self.last_snap = s
            self.events.append(dict(ev='chg', **copy.deepcopy(s)))

    def add(self, ev, **kw):
        self.sync()
        self.events.append(dict(ev=ev, **copy.deepcopy(self.last_snap), **kw))

    # -- peers ------------------------------------------------------------------------------------
    async def p_endpoint(self, o):
        ep = self.p_conn.get(o)
        if ep is not None and not ep.at_eof and not ep.writer.is_closing():
            return ep
        ep = await self.peers[o].dial(CLIENT_PORT, 'P')
        self._adopt_p(o, ep)
        await vloop.settle(self.loop)
        return ep

    def _adopt_p(self, o, ep):
        self.p_conn[o] = ep
        self.bg.append(asyncio.create_task(self._p_reader(o, ep), name=f'sim-peer-{o}'))

    async def _p_reader(self, o, ep):
        M = self.M
        while True:
            frame = await ep.read_frame()
            if frame is None:
                if self.p_conn.get(o) is ep:
                    self.p_conn.pop(o, None)
                return
            try:
                msg = M.PeerMessage.deserialize_request(frame)
            except Exception:
                continue
            if isinstance(msg, M.PeerTransferRequest.Request):
                u = self.upload_of.get((self.names[o], msg.filename))
                if u is not None:
                    self.tickets[u] = msg.ticket
            elif isinstance(msg, M.PeerPlaceInQueueReply.Request):
                self.replies.append((o, msg.filename, int(msg.place)))

    def _make_accept(self, o):
        async def on_accept(ep):
            M = self.M
            frame = await ep.read_frame()
            if frame is None:
                return
            try:
                init = M.PeerInitializationMessage.deserialize_request(frame)
            except Exception:
                ep.close()
                return
            typ = getattr(init, 'typ', None)
            if typ == 'P':
                # the client dialled us although we already have a connection: keep both readable
                self.bg.append(asyncio.create_task(self._p_reader(o, ep), name=f'sim-peer-{o}-acc'))
                if o not in self.p_conn:
                    self.p_conn[o] = ep
                return
            if typ != 'F':
                ep.close()
                return
            try:
                raw = await ep.reader.readexactly(4)
            except (asyncio.IncompleteReadError, ConnectionError):
                return
            ticket = struct.unpack('<I', raw)[0]
            u = next((x for x, tk in self.tickets.items() if tk == ticket and up_owner(x) == o), None)
            if u is None:
                ep.close()
                return
            ep.send(struct.pack('<Q', 0))
            got = 0
            while got < UP_FILE_SIZE:
                try:
                    data = await ep.reader.read(65536)
                except ConnectionError:
                    return
                if not data:
                    return
                got += len(data)
            ep.close()
        return on_accept

    def _server_send(self, *msgs):
        sess = self.srv.session_of('me')
        if sess is None:
            raise MachineryFailure('client has no server session')
        sess.send(*msgs)

    async def _api(self, coro):
        async def run():
            try:
                await coro
            except Exception as exc:      # InvalidStateTransition etc.: the stimulus did not apply
                return exc
        t = asyncio.create_task(run(), name='sim-api')
        self.api_tasks.append(t)
        for _ in range(6):
            await vloop.settle(self.loop)
            if t.done():
                break

    async def quiesce(self, dt=0.3):
        await vloop.settle(self.loop)
        await asyncio.sleep(dt)
        await vloop.settle(self.loop)
        self.sync()

    # -- stimuli ----------------------------------------------------------------------------------
    async def do(self, name, a):
        M = self.M
        if name in ('Enqueue', 'Reenqueue'):
            u = a[0]
            ep = await self.p_endpoint(up_owner(u))
            ep.send_message(M.PeerTransferQueue.Request(self.paths[up_file(u)]))
            await self.quiesce()
        elif name in ('Abort', 'Pause', 'Resume', 'Remove'):
            tr = self.transfer(a[0])
            if tr is None:
                self.skipped += 1
                return
            fn = dict(Abort=self.client.transfers.abort, Pause=self.client.transfers.pause,
                      Resume=self.client.transfers.queue, Remove=self.client.transfers.remove)[name]
            await self._api(fn(tr))
            await self.quiesce()
        elif name in ('Deny', 'Finish'):
            u = a[0]
            tr = self.transfer(u)
            if tr is None or tr.state.VALUE.name != 'INITIALIZING' or u not in self.tickets:
                self.skipped += 1
                return
            ep = await self.p_endpoint(up_owner(u))
            if name == 'Deny':
                ep.send_message(M.PeerTransferReply.Request(ticket=self.tickets[u], allowed=False, reason='Cancelled'))
            else:
                ep.send_message(M.PeerTransferReply.Request(ticket=self.tickets[u], allowed=True))
            await self.quiesce(0.5)
        elif name == 'SetSlots':
            self.settings.transfers.limits.upload_slots = a[0]
            self.sync()
            await self.quiesce(1.3)       # the limit is polled once per second
        elif name == 'Friend':
            nm = self.names[a[0]]
            if nm in self.settings.users.friends:
                self.settings.users.friends.discard(nm)
            else:
                self.settings.users.friends.add(nm)
            self.sync()
            await self.quiesce()
        elif name == 'Status':
            o, s = a
            nm = self.names[o]
            if self.rng.random() < 0.5:
                from aioslsk.protocol.primitives import UserStats
                self._server_send(M.AddUser.Response(nm, True, status=STATUS_CODE[s],
                                                     user_stats=UserStats(1000, 2, 30, 4), country_code='BE'))
            else:
                self._server_send(M.GetUserStatus.Response(nm, STATUS_CODE[s], bool(self.user_objs[o].privileged)))
            await self.quiesce()
        elif name == 'Priv':
            o = a[0]
            nm = self.names[o]
            uo = self.user_objs[o]
            new = not uo.privileged
            known = uo.status.value in (0, 1, 2)
            r = self.rng.random()
            if known and r < 0.4:
                self._server_send(M.GetUserStatus.Response(nm, uo.status.value, new))
            elif new and r < 0.7:
                self._server_send(M.AddPrivilegedUser.Response(nm))
            else:
                cur = {self.names[x] for x in self.names if self.user_objs[x].privileged}
                cur = (cur | {nm}) if new else (cur - {nm})
                self._server_send(M.PrivilegedUsers.Response(sorted(cur)))
            await self.quiesce()
        elif name == 'Ask':
            await self.ask(a[0])
        elif name == 'Serve':
            pass                          # the client's own step; it has happened (or not) by now
        else:
            raise MachineryFailure(f'unknown action {name}')

    async def ask(self, u):
        M = self.M
        o = up_owner(u)
        path = self.paths[up_file(u)]
        await vloop.settle(self.loop)
        self.sync()
        mark = len(self.replies)
        ep = await self.p_endpoint(o)
        ep.send_message(M.PeerPlaceInQueueRequest.Request(path))
        await vloop.settle(self.loop)
        await asyncio.sleep(0.05)
        await vloop.settle(self.loop)
        new = self.replies[mark:]
        mine = [r for r in new if r[0] == o and r[1] == path]
        for r in new:
            if r not in mine:
                self.add('stray', o=r[0], place=r[2])
        self.add('ask', u=u, via='peer', n=len(mine), place=mine[0][2] if mine else 0)
        tr = self.transfer(u)
        if tr is not None:
            try:
                p = self.client.transfers.get_place_in_queue(tr)
            except Exception as exc:
                self.add('exc', what=repr(exc)[:200])
            else:
                if isinstance(p, bool) or not isinstance(p, int) or p < 0:
                    self.add('exc', what=f'get_place_in_queue returned {p!r}')
                else:
                    self.add('ask', u=u, via='api', n=1 if p > 0 else 0, place=int(p))


class _UpListener:
    def __init__(self, world):
        self.w = world

    async def on_transfer_state_changed(self, transfer, old, new):
        self.w.sync()


def run_uploader(labels, conc, share_dir, tmpdir, slots0=0):
    """Replay one behaviour of QueuePlace on a real client.  Returns (events, info)."""
    holder = {}

    async def main(loop):
        rng = random.Random(conc)
        w = UploaderWorld(loop, share_dir, tmpdir, rng, slots0)
        await w.start()
        try:
            w.sync()
            for lab in labels:
                name, a = parse_label(lab)
                await w.do(name, a)
            await w.quiesce()
        finally:
            holder['events'] = w.events
            holder['skipped'] = w.skipped
            await w.stop()
    try:
        _, loop = vloop.run(main)
    except vloop.Deadlock as exc:
        raise MachineryFailure(f'virtual loop deadlock in uploader scenario {labels}: {exc}')
    events = holder['events']
    bad = [c for c in _unhandled(loop) if _about_place(c)]
    if bad:
        events.append(dict(ev='exc', **{k: v for k, v in events[-1].items() if k in
                                        ('st', 'order', 'status', 'friend', 'priv', 'slots')},
                           what=repr(bad[0].get('exception'))[:200]))
    return events, dict(skipped=holder['skipped'], other_exceptions=len(_unhandled(loop)) - len(bad))


def _about_place(ctx):
    import traceback
    exc = ctx.get('exception')
    if exc is None:
        return False
    tb = ''.join(traceback.format_exception(type(exc), exc, exc.__traceback__))
    return any(k in tb for k in ('place_in_queue', '_get_queued_transfers', '_prioritize_uploads', 'interest'))


# =============================================================================================
# a2 - the downloader
# =============================================================================================

DL_PER_PEER = 2
DL_MAX = 4                  # ReplicaTrace.cfg: Downloads = 1..4, two peers
DL_FILE_SIZE = 1000
DL_FILES = ['music\\artist\\song one.mp3', 'music\\artist\\Ünïcode 曲.flac']


def dl_peer(d: int) -> int:
    return (d - 1) // DL_PER_PEER + 1


def dl_file(d: int) -> int:
    return (d - 1) % DL_PER_PEER


class DownloaderWorld:
    def __init__(self, loop, tmpdir, rng):
        self.loop = loop
        self.tmpdir = tmpdir
        self.rng = rng
        self.npeers = DL_MAX // DL_PER_PEER
        names = rng.sample(NAME_POOL, self.npeers)
        self.names = {o: names[o - 1] for o in range(1, self.npeers + 1)}
        self.events: list[dict] = []
        self.p_conn: dict[int, list] = {o: [] for o in self.names}     # live P endpoints per peer
        self.f_conn: dict[int, object] = {}                             # d -> F endpoint held open
        self.tickets: dict[int, int] = {}
        self.allowed: dict[int, bool] = {}
        self.up = {o: True for o in self.names}
        self.bg: list = []
        self.api_tasks: list = []
        self.req_tasks: dict[int, asyncio.Task] = {}
        self.keep: list = []
        self.skipped = 0
        self._ticket = 7000

    async def start(self):
        from aioslsk.events import TransferAddedEvent
        from aioslsk.protocol import messages as M
        self.M = M
        self.net = SimNet(self.loop).install()
        self.net.policy = self._policy
        self.srv = await ScriptedServer(self.net).start()
        self.srv.handlers[M.ConnectToPeer.Request] = self._on_connect_to_peer
        self.settings = make_settings('me', port=CLIENT_PORT, download_dir=self.tmpdir)
        self.client = make_client(self.settings)
        await self.client.start()
        await self.client.login()
        self.download_of = {}
        for d in range(1, DL_MAX + 1):
            self.download_of[(self.names[dl_peer(d)], DL_FILES[dl_file(d)])] = d
        self.peers = {}
        for o in self.names:
            p = ScriptedPeer(self.net, self.names[o], PEER_PORT0 + o)
            p.on_accept = self._make_accept(o)
            await p.listen()
            self.srv.addresses[self.names[o]] = (f'10.0.0.{o}', PEER_PORT0 + o, 0)
            self.peers[o] = p

        def on_added(event):
            tr = event.transfer
            d = self.download_of.get((tr.username, tr.remote_path))
            if d is not None and tr.is_download():
                tr.state_listeners.append(_DlListener(self, d))
        self.keep.append(on_added)
        self.client.events.register(TransferAddedEvent, on_added)
        await vloop.settle(self.loop)

    async def stop(self):
        for t in self.bg + self.api_tasks + list(self.req_tasks.values()):
            t.cancel()
        try:
            await self.client.stop()
        finally:
            self.net.uninstall()

    def _policy(self, host, port):
        o = port - PEER_PORT0
        if o in self.up and not self.up[o]:
            return 'refuse'
        return 'ok'

    def _on_connect_to_peer(self, srv, sess, msg):
        # an unreachable peer never pierces back: the server says so at once
        o = next((x for x, n in self.names.items() if n == msg.username), None)
        if o is not None and not self.up[o]:
            return [self.M.CannotConnect.Response(msg.ticket)]
        return None

    # -- projection -------------------------------------------------------------------------------
    def transfer(self, d):
        name, path = self.names[dl_peer(d)], DL_FILES[dl_file(d)]
        for tr in self.client.transfers.transfers:
            if tr.is_download() and tr.username == name and tr.remote_path == path:
                return tr
        return None

    def quiet_record(self):
        place = []
        for d in range(1, DL_MAX + 1):
            tr = self.transfer(d)
            p = None if tr is None else tr.place_in_queue
            if p is None:
                place.append(-1)
            elif isinstance(p, int) and not isinstance(p, bool) and 0 <= p < 2 ** 31:
                place.append(int(p))
            else:
                place.append(-2)          # not a place at all: matches nothing the model can want
        self.events.append(dict(ev='quiet', place=place))

    async def quiesce(self, dt=0.3):
        await vloop.settle(self.loop)
        await asyncio.sleep(dt)
        await vloop.settle(self.loop)
        self._collect_done()
        self.quiet_record()

    def _collect_done(self):
        for d, t in list(self.req_tasks.items()):
            if t.done():
                del self.req_tasks[d]
                k, val, exc = t.result()
                self.events.append(dict(ev='done', d=d, k=k, val=val, exc=exc))

    # -- peers ------------------------------------------------------------------------------------
    def _live_p(self, o):
        self.p_conn[o] = [ep for ep in self.p_conn[o] if not ep.at_eof and not ep.writer.is_closing()]
        return self.p_conn[o]

    async def p_endpoint(self, o):
        live = self._live_p(o)
        if live:
            return live[-1]
        ep = await self.peers[o].dial(CLIENT_PORT, 'P')
        self._adopt_p(o, ep)
        await vloop.settle(self.loop)
        return ep

    def _adopt_p(self, o, ep):
        self.p_conn[o].append(ep)
        self.bg.append(asyncio.create_task(self._p_reader(o, ep), name=f'sim-peer-{o}'))

    async def _p_reader(self, o, ep):
        M = self.M
        while True:
            frame = await ep.read_frame()
            if frame is None:
                return
            try:
                msg = M.PeerMessage.deserialize_request(frame)
            except Exception:
                continue
            if isinstance(msg, M.PeerTransferReply.Request):
                d = next((x for x, tk in self.tickets.items() if tk == msg.ticket and dl_peer(x) == o), None)
                if d is not None:
                    self.allowed[d] = bool(msg.allowed)

    def _make_accept(self, o):
        async def on_accept(ep):
            M = self.M
            frame = await ep.read_frame()
            if frame is None:
                return
            try:
                init = M.PeerInitializationMessage.deserialize_request(frame)
            except Exception:
                ep.close()
                return
            if getattr(init, 'typ', None) == 'P':
                self._adopt_p(o, ep)
            else:
                ep.close()
        return on_accept

    async def _api(self, coro):
        async def run():
            try:
                await coro
            except Exception as exc:
                return exc
        t = asyncio.create_task(run(), name='sim-api')
        self.api_tasks.append(t)
        for _ in range(6):
            await vloop.settle(self.loop)
            if t.done():
                break

    # -- stimuli ----------------------------------------------------------------------------------
    async def do(self, name, a):
        M = self.M
        if name == 'Download':
            d = a[0]
            await self._api(self.client.transfers.download(self.names[dl_peer(d)], DL_FILES[dl_file(d)]))
            await self.quiesce()
        elif name in ('Reply', 'ReplyUnknown'):
            d, p = a
            o = dl_peer(d)
            if not self.up[o]:
                self.skipped += 1
                return
            ep = await self.p_endpoint(o)
            self.events.append(dict(ev='reply', d=d, p=p))
            ep.send_message(M.PeerPlaceInQueueReply.Request(DL_FILES[dl_file(d)], p))
            await self.quiesce()
        elif name == 'Request':
            d = a[0]
            tr = self.transfer(d)
            if tr is None or d in self.req_tasks:
                self.skipped += 1
                return
            self.events.append(dict(ev='request', d=d))

            async def call():
                try:
                    v = await self.client.transfers.request_place_in_queue(tr)
                except Exception as exc:
                    return 'raise', -1, type(exc).__name__
                if isinstance(v, int) and not isinstance(v, bool) and 0 <= v < 2 ** 31:
                    return 'ret', int(v), 'none'
                return 'ret', -2, repr(v)[:40]
            self.req_tasks[d] = asyncio.create_task(call(), name='sim-request-place')
            await self.quiesce(0.5)
        elif name == 'Timeout':
            self.events.append(dict(ev='timeout'))
            await self.quiesce(15.5)
        elif name == 'Return':
            pass                          # the call's own step
        elif name == 'Start':
            await self.start_transfer(a[0])
        elif name == 'Finish':
            d = a[0]
            ep = self.f_conn.pop(d, None)
            tr = self.transfer(d)
            if ep is None or tr is None or tr.state.VALUE.name != 'DOWNLOADING':
                self.skipped += 1
                return
            ep.send(b'y' * (DL_FILE_SIZE - DL_FILE_SIZE // 2))
            await self.quiesce()
        elif name == 'Break':
            d = a[0]
            ep = self.f_conn.pop(d, None)
            tr = self.transfer(d)
            if ep is None or tr is None or tr.state.VALUE.name != 'DOWNLOADING':
                self.skipped += 1
                return
            ep.link.cut('reset')          # a broken connection (a clean close means "cancelled": FAILED)
            await self.quiesce()
        elif name in ('Pause', 'Abort', 'Requeue'):
            tr = self.transfer(a[0])
            if tr is None:
                self.skipped += 1
                return
            fn = dict(Pause=self.client.transfers.pause, Abort=self.client.transfers.abort,
                      Requeue=self.client.transfers.queue)[name]
            await self._api(fn(tr))
            await self.quiesce()
        elif name == 'Reject':
            d = a[0]
            o = dl_peer(d)
            if not self.up[o]:
                self.skipped += 1
                return
            ep = await self.p_endpoint(o)
            ep.send_message(M.PeerTransferQueueFailed.Request(DL_FILES[dl_file(d)], 'File not shared.'))
            await self.quiesce()
        elif name == 'Unreach':
            o = a[0]
            self.up[o] = False
            self.events.append(dict(ev='reach', o=o, up=False))
            self.peers[o].stop_listening()
            for ep in self._live_p(o):
                ep.close()
            for d in [x for x in self.f_conn if dl_peer(x) == o]:
                self.f_conn.pop(d).close()
            await self.quiesce()
        elif name == 'Reach':
            o = a[0]
            self.up[o] = True
            self.events.append(dict(ev='reach', o=o, up=True))
            await self.peers[o].listen()
            await self.quiesce()
        else:
            raise MachineryFailure(f'unknown action {name}')

    async def start_transfer(self, d):
        M = self.M
        o = dl_peer(d)
        tr = self.transfer(d)
        if tr is None or not self.up[o] or tr.state.VALUE.name not in ('QUEUED', 'INCOMPLETE'):
            self.skipped += 1
            return
        ep = await self.p_endpoint(o)
        self._ticket += 1
        ticket = self._ticket
        self.tickets[d] = ticket
        self.allowed.pop(d, None)
        ep.send_message(M.PeerTransferRequest.Request(1, ticket, DL_FILES[dl_file(d)], filesize=DL_FILE_SIZE))
        await vloop.settle(self.loop)
        await asyncio.sleep(0.05)
        await vloop.settle(self.loop)
        if self.allowed.get(d):
            f = await self.peers[o].dial(CLIENT_PORT, 'F')
            f.send(struct.pack('<I', ticket))
            try:
                raw = await asyncio.wait_for(f.reader.readexactly(8), 5)
            except (asyncio.IncompleteReadError, ConnectionError, asyncio.TimeoutError):
                f.close()
            else:
                offset = struct.unpack('<Q', raw)[0]
                self.f_conn[d] = f
                if offset < DL_FILE_SIZE // 2:
                    f.send(b'x' * (DL_FILE_SIZE // 2 - offset))
        await self.quiesce()


class _DlListener:
    def __init__(self, world, d):
        self.w, self.d = world, d

    async def on_transfer_state_changed(self, transfer, old, new):
        self.w.events.append(dict(ev='st', d=self.d, old=old.name, new=new.name))


def run_downloader(labels, conc, tmpdir):
    holder = {}

    async def main(loop):
        rng = random.Random(conc)
        w = DownloaderWorld(loop, tmpdir, rng)
        await w.start()
        try:
            for lab in labels:
                name, a = parse_label(lab)
                await w.do(name, a)
            if w.req_tasks:
                w.events.append(dict(ev='timeout'))
                await w.quiesce(16)
            for d in sorted(w.req_tasks):
                w.events.append(dict(ev='pending', d=d))
        finally:
            holder['events'] = w.events
            holder['skipped'] = w.skipped
            await w.stop()
    try:
        _, loop = vloop.run(main)
    except vloop.Deadlock as exc:
        raise MachineryFailure(f'virtual loop deadlock in downloader scenario {labels}: {exc}')
    events = holder['events']
    bad = [c for c in _unhandled(loop) if _about_place(c)]
    if bad:
        events.append(dict(ev='exc', what=repr(bad[0].get('exception'))[:200]))
    return events, dict(skipped=holder['skipped'], other_exceptions=len(_unhandled(loop)) - len(bad))


# =============================================================================================
# b - interests and recommendations
# =============================================================================================

INTEREST_MSGS = ('AddInterest', 'RemoveInterest', 'AddHatedInterest', 'RemoveHatedInterest')
QUERY_REQ = {'rec': 'GetRecommendations', 'global': 'GetGlobalRecommendations', 'item': 'GetItemRecommendations',
             'userint': 'GetUserInterests', 'similar': 'GetSimilarUsers', 'itemsimilar': 'GetItemSimilarUsers'}
ITEM_POOL = ['funny jokes', 'jazz', 'Ünïcödé', '音楽', 'drum & bass', 'a', 'post-rock ', ' leading', 'UPPER lower',
             'x' * 60, 'tab\there', 'emoji \U0001F3B5', '0', 'null', "quote's \"q\""]


def canon(obj) -> str:
    """Canonical rendering without characters that need escaping in JSON or TLA+ strings."""
    return json.dumps(obj, ensure_ascii=True, sort_keys=True, separators=(',', ':')).replace('\\', '~').replace('"', "'")


class InterestWorld:
    def __init__(self, loop, tmpdir, rng, liked, hated):
        self.loop = loop
        self.tmpdir = tmpdir
        self.rng = rng
        items = rng.sample(ITEM_POOL, 3)
        self.item = dict(zip('abc', items))              # abstract -> concrete
        self.abstract = {v: k for k, v in self.item.items()}
        self.qname = rng.choice(NAME_POOL)               # the user GetUserInterests asks about
        self.init_liked = sorted(liked)
        self.init_hated = sorted(hated)
        self.events: list[dict] = []
        self.shown: list[list] = []                       # [kind, content] in emission order
        self.keep: list = []
        self.skipped = 0

    def abs_item(self, s):
        return self.abstract.get(s, 'other')

    async def start(self):
        from aioslsk import events as E
        from aioslsk.protocol import messages as M
        self.M = M
        self.net = SimNet(self.loop).install()
        self.srv = await ScriptedServer(self.net).start()
        self.settings = make_settings('me', port=CLIENT_PORT, download_dir=self.tmpdir,
                                      interests=dict(liked={self.item[i] for i in self.init_liked},
                                                     hated={self.item[i] for i in self.init_hated}))
        self.client = make_client(self.settings)
        await self.client.start()
        kinds = {'rec': E.RecommendationsEvent, 'global': E.GlobalRecommendationsEvent,
                 'item': E.ItemRecommendationsEvent, 'userint': E.UserInterestsEvent,
                 'similar': E.SimilarUsersEvent, 'itemsimilar': E.ItemSimilarUsersEvent}
        for kind, cls in kinds.items():
            cb = self._make_cb(kind)
            self.keep.append(cb)
            self.client.events.register(cls, cb)
        await vloop.settle(self.loop)
        self.events.append(dict(ev='init', **self.settings_now()))

    async def stop(self):
        try:
            await self.client.stop()
        finally:
            self.net.uninstall()

    # -- rendering: the event side reads event fields only, the wire side reads message fields only ----------
    @staticmethod
    def _recs(lst):
        return [[r.recommendation, int(r.score)] for r in lst]

    def _make_cb(self, kind):
        def cb(event):
            try:
                if kind in ('rec', 'global'):
                    c = dict(rec=self._recs(event.recommendations), unrec=self._recs(event.unrecommendations))
                elif kind == 'item':
                    c = dict(item=event.item, rec=self._recs(event.recommendations))
                elif kind == 'userint':
                    c = dict(user=event.user.name, interests=list(event.interests), hated=list(event.hated_interests))
                elif kind == 'similar':
                    c = dict(users=[[u.name, int(s)] for (u, s) in event.users])
                else:
                    c = dict(item=event.item, users=[u.name for u in event.users])
                self.shown.append([kind, canon(c)])
            except Exception as exc:
                self.shown.append([kind, 'unreadable event: ' + type(exc).__name__])
        return cb

    def wire_content(self, kind, msg):
        if kind in ('rec', 'global'):
            return canon(dict(rec=self._recs(msg.recommendations), unrec=self._recs(msg.unrecommendations)))
        if kind == 'item':
            return canon(dict(item=msg.item, rec=self._recs(msg.recommendations)))
        if kind == 'userint':
            return canon(dict(user=msg.username, interests=list(msg.interests), hated=list(msg.hated_interests)))
        if kind == 'similar':
            return canon(dict(users=[[u.username, int(u.score)] for u in msg.users]))
        return canon(dict(item=msg.item, users=list(msg.usernames)))

    def ret_content(self, kind, value):
        try:
            if kind in ('rec', 'global'):
                recs, unrecs = value
                return canon(dict(rec=self._recs(recs), unrec=self._recs(unrecs)))
            if kind == 'item':
                return canon(dict(item=self.item['a'], rec=self._recs(value)))
            if kind == 'userint':
                interests, hated = value
                return canon(dict(user=self.qname, interests=list(interests), hated=list(hated)))
            if kind == 'similar':
                return canon(dict(users=[[u.name, int(s)] for (u, s) in value]))
            return canon(dict(item=self.item['a'], users=[u.name for u in value]))
        except Exception as exc:
            return f'unreadable return value {value!r}: {type(exc).__name__}'[:120]

    def make_reply(self, kind):
        """A concrete reply of the given kind (seeded)."""
        from aioslsk.protocol.primitives import Recommendation, SimilarUser
        M, rng = self.M, self.rng
        pool = ITEM_POOL + list(self.item.values())

        def recs():
            n = rng.choice([0, 1, 2, 5])
            return [Recommendation(rng.choice(pool), rng.choice([-2 ** 31, -3, -1, 0, 1, 2, 77, 2 ** 31 - 1]))
                    for _ in range(n)]

        def names():
            return [rng.choice(NAME_POOL) for _ in range(rng.choice([0, 1, 3]))]
        if kind == 'rec':
            return M.GetRecommendations.Response(recs(), recs())
        if kind == 'global':
            return M.GetGlobalRecommendations.Response(recs(), recs())
        if kind == 'item':
            return M.GetItemRecommendations.Response(self.item['a'], recs())
        if kind == 'userint':
            return M.GetUserInterests.Response(self.qname, [rng.choice(pool) for _ in range(rng.choice([0, 1, 3]))],
                                               [rng.choice(pool) for _ in range(rng.choice([0, 2]))])
        if kind == 'similar':
            return M.GetSimilarUsers.Response([SimilarUser(n, rng.choice([0, 1, 9, 2 ** 32 - 1])) for n in names()])
        return M.GetItemSimilarUsers.Response(self.item['a'], names())

    def make_command(self, kind):
        from aioslsk import commands as C
        if kind == 'rec':
            return C.GetRecommendationsCommand()
        if kind == 'global':
            return C.GetGlobalRecommendationsCommand()
        if kind == 'item':
            return C.GetItemRecommendationsCommand(self.item['a'])
        if kind == 'userint':
            return C.GetUserInterestsCommand(self.qname)
        if kind == 'similar':
            return C.GetSimilarUsersCommand()
        return C.GetItemSimilarUsersCommand(self.item['a'])

    # -- projection -------------------------------------------------------------------------------
    def settings_now(self):
        return dict(liked=sorted(self.abs_item(s) for s in self.settings.interests.liked),
                    hated=sorted(self.abs_item(s) for s in self.settings.interests.hated))

    def got_since(self, mark):
        out = []
        for (_, _, m) in self.srv.received[mark:]:
            outer = type(m).__qualname__.split('.')[0]
            if outer in INTEREST_MSGS:
                arg = getattr(m, 'interest', None)
                if arg is None:
                    arg = getattr(m, 'hated_interest', None)
                if arg is None:        # whatever the field is called: first string field
                    arg = next((getattr(m, f) for f in getattr(m, '__slots__', ()) if isinstance(getattr(m, f), str)), '')
                out.append([outer, self.abs_item(arg)])
            elif outer in QUERY_REQ.values():
                if hasattr(m, 'item'):
                    out.append([outer, self.abs_item(m.item)])
                elif hasattr(m, 'username'):
                    out.append([outer, 'u' if m.username == self.qname else 'other'])
                else:
                    out.append([outer, ''])
        return out

    async def pause(self, dt=0.2):
        await vloop.settle(self.loop)
        await asyncio.sleep(dt)
        await vloop.settle(self.loop)

    def record(self, ev, mark, shown_mark, **kw):
        self.events.append(dict(ev=ev, got=self.got_since(mark), evs=copy.deepcopy(self.shown[shown_mark:]),
                                **self.settings_now(), **kw))

    async def _call(self, coro):
        try:
            v = await coro
        except Exception as exc:
            return 'raise', type(exc).__name__
        return 'ret', v

    # -- stimuli ----------------------------------------------------------------------------------
    async def do(self, name, a):
        M = self.M
        from aioslsk import commands as C
        mark, smark = len(self.srv.received), len(self.shown)
        online = self.client.session is not None
        if name == 'Login':
            if online:
                self.skipped += 1
                return
            from aioslsk.network.connection import ConnectionState
            if self.client.network.server_connection.state != ConnectionState.CONNECTED:
                await self.client.network.connect_server()
            await self.client.login()
            await self.pause()
            self.record('login', mark, smark, ret='none')
        elif name == 'Drop':
            sess = self.srv.session_of('me')
            if not online or sess is None:
                self.skipped += 1
                return
            sess.close()
            await self.pause()
            if self.client.session is not None:
                raise MachineryFailure('the client kept its session after the server closed the connection')
            self.record('drop', mark, smark, ret='none')
        elif name in ('Cmd', 'CmdOff'):
            c, i = a
            if (name == 'Cmd') != online:
                self.skipped += 1
                return
            cls = dict(AddInterest=C.AddInterestCommand, RemoveInterest=C.RemoveInterestCommand,
                       AddHatedInterest=C.AddHatedInterestCommand, RemoveHatedInterest=C.RemoveHatedInterestCommand)[c]
            cmd = cls(self.item[i])
            use_call = self.rng.random() < 0.5
            resp = self.rng.random() < 0.5
            k, v = await self._call(self.client(cmd, response=resp) if use_call
                                    else self.client.execute(cmd, response=resp))
            await self.pause()
            ret = 'none' if (k == 'ret' and v is None) else (v if k == 'raise' else f'returned {v!r}'[:80])
            self.record('cmd' if online else 'cmdoff', mark, smark, c=c, i=i, ret=ret)
        elif name == 'Push':
            kind = a[0]
            sess = self.srv.session_of('me')
            if not online or sess is None:
                self.skipped += 1
                return
            msg = self.make_reply(kind)
            sess.send(msg)
            await self.pause()
            self.record('push', mark, smark, k=kind, content=self.wire_content(kind, msg), ret='none')
        elif name == 'Query':
            kind = a[0]
            if not online:
                self.skipped += 1
                return
            msg = self.make_reply(kind)
            req_cls = getattr(M, QUERY_REQ[kind]).Request
            self.srv.handlers[req_cls] = lambda srv, sess, m: [msg]
            try:
                k, v = await self._call(self.client.execute(self.make_command(kind), response=True))
            finally:
                self.srv.handlers.pop(req_cls, None)
            await self.pause()
            ret = self.ret_content(kind, v) if k == 'ret' else v
            self.record('query', mark, smark, k=kind, content=self.wire_content(kind, msg), ret=ret)
        else:
            raise MachineryFailure(f'unknown action {name}')


def run_interests(init, labels, conc, tmpdir):
    """init = (liked, hated) abstract item sets of the behaviour's initial state."""
    holder = {}

    async def main(loop):
        rng = random.Random(conc)
        w = InterestWorld(loop, tmpdir, rng, init[0], init[1])
        await w.start()
        try:
            for lab in labels:
                name, a = parse_label(lab)
                await w.do(name, a)
        finally:
            holder['events'] = w.events
            holder['skipped'] = w.skipped
            await w.stop()
    try:
        _, loop = vloop.run(main)
    except vloop.Deadlock as exc:
        raise MachineryFailure(f'virtual loop deadlock in interests scenario {labels}: {exc}')
    events = holder['events']
    bad = [c for c in _unhandled(loop) if _about_place(c)]
    if bad:
        events.append(dict(ev='exc', what=repr(bad[0].get('exception'))[:200]))
    return events, dict(skipped=holder['skipped'], other_exceptions=len(_unhandled(loop)) - len(bad))

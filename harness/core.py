"""Check framework: verdicts, known findings, evidence, replay files."""
from __future__ import annotations

import hashlib
import json
import os
import random
import sys
import time
import traceback
from typing import Any, Optional

VERIF = os.path.dirname(os.path.dirname(os.path.abspath(__file__)))
REPO = os.environ.get('VERIF_REPO', '/repo')
FINDINGS_FILE = os.path.join(VERIF, 'known_findings.json')
EVIDENCE_DIR = os.path.join(VERIF, 'evidence')
REPLAY_DIR = os.path.join(VERIF, 'replays')


def use_repo():
    """Make `import aioslsk` resolve to the working tree under test."""
    src = os.path.join(REPO, 'src')
    if sys.path[0] != src:
        if src in sys.path:
            sys.path.remove(src)
        sys.path.insert(0, src)
    for name in list(sys.modules):
        if name == 'aioslsk' or name.startswith('aioslsk.'):
            mod = sys.modules[name]
            f = getattr(mod, '__file__', '') or ''
            if f and not f.startswith(src):
                del sys.modules[name]


class MachineryFailure(RuntimeError):
    pass


def load_findings() -> list[dict]:
    try:
        with open(FINDINGS_FILE) as fh:
            data = json.load(fh)
    except FileNotFoundError:
        return []
    return list(data.get('findings', []))


class Check:
    """One run of one property's check."""

    def __init__(self, pid: str, tier: str, seed: int, level: str = 'model_checking'):
        self.pid = pid
        self.tier = tier
        self.seed = seed
        self.level = level
        self.rng = random.Random(seed)
        self.t0 = time.time()
        self.violations: list[dict] = []
        self.known_hits: dict[str, dict] = {}
        self.open_findings = {f['fingerprint']: f for f in load_findings()
                              if f.get('property') == pid and f.get('status') == 'open'}
        self.cov: dict[str, Any] = dict(states=0, transitions=0, traces_validated_against_impl=0,
                                        evaluations=0, distinct_nontrivial=0, samples=[],
                                        rule='', exhaustive=False, models=[], binding_selftest={},
                                        coverage_by_action={})
        self.assumptions: list[str] = []
        self._distinct: set = set()
        self.notes: list[str] = []

    # -- logging -------------------------------------------------------------
    def log(self, *a):
        print(f'[{self.pid} {time.time() - self.t0:6.1f}s]', *a, flush=True)

    # -- TLC results -----------------------------------------------------------
    def add_model(self, label: str, res, exhaustive: bool = True):
        """Record a design-model TLC run. A violation in the design model is a machinery
        failure (the model is fixed text; it does not change with the code under test)."""
        self.cov['states'] += res.distinct_states
        self.cov['transitions'] += res.states_generated
        self.cov['models'].append(dict(label=label, states=res.distinct_states, transitions=res.states_generated,
                                       depth=res.depth, wall_s=round(res.wall_s, 2), exhaustive=exhaustive,
                                       ok=res.ok))
        for a, (d, g) in res.coverage.items():
            self.cov['coverage_by_action'][f'{label}:{a}'] = g
        self.log(f'model {label}: {res.distinct_states} distinct / {res.states_generated} generated, '
                 f'depth {res.depth}, {res.wall_s:.1f}s, ok={res.ok}')
        if not res.ok:
            det = '; '.join(f'{i.kind}:{i.name}' for i in res.issues) or f'rc={getattr(res, "returncode", "?")}'
            raise MachineryFailure(f'design model {label} does not satisfy its properties: {det}\n' +
                                   (res.issues[0].message[:500] if res.issues else res.raw[-2000:]))

    def add_trace_run(self, res):
        if res is not None:
            self.cov['states'] += res.distinct_states
            self.cov['transitions'] += res.states_generated

    # -- cases -----------------------------------------------------------------
    def count(self, key, nontrivial: bool = True):
        """Count one evaluated case; `key` identifies it for distinctness."""
        self.cov['evaluations'] += 1
        if nontrivial:
            h = hashlib.sha1(repr(key).encode()).digest()[:10]
            self._distinct.add(h)

    def sample(self, obj, limit: int = 6):
        if len(self.cov['samples']) < limit:
            self.cov['samples'].append(obj)

    # -- verdicts ---------------------------------------------------------------
    def violation(self, fingerprint: str, what: str, replay: Optional[dict] = None):
        """Report a property violation seen on the real code. `fingerprint` names the failing
        call site / deviation / input class; open known findings with that fingerprint are
        reported as KNOWN-FINDING instead."""
        if fingerprint in self.open_findings:
            if fingerprint not in self.known_hits:
                self.known_hits[fingerprint] = dict(what=self.open_findings[fingerprint].get('what', what), n=0,
                                                    example=what)
            self.known_hits[fingerprint]['n'] += 1
            return
        if len(self.violations) < 50:
            self.violations.append(dict(fingerprint=fingerprint, what=what, replay=replay or {}))
        else:
            self.violations.append(dict(fingerprint=fingerprint, what=what[:200], replay={}))

    def apply_verdicts(self, verdicts, traces, fingerprint_of, meta_of=None):
        """Turn TraceVerdicts into violations / known findings.

        fingerprint_of(tid, info, trace) -> fingerprint string for a rejected trace
        marks on accepted paths are fingerprints of tolerated deviation actions."""
        self.cov['traces_validated_against_impl'] += verdicts.n
        self.add_trace_run(verdicts.result)
        for tid, marks in verdicts.accepted.items():
            for mk in marks:
                self.violation(f'{self.pid}:{mk}', f'deviation action {mk} taken in trace {tid}',
                               dict(trace=traces[tid - 1], meta=meta_of(tid) if meta_of else None))
        diagnosed = 0
        for tid, info in sorted(verdicts.rejected.items()):
            if info.get('at') is None and info.get('kind') == 'rejected' and diagnosed >= 5:
                fp = f'{self.pid}:rejected-trace'
            else:
                fp = fingerprint_of(tid, info, traces[tid - 1])
            diagnosed += 1
            what = (f"trace {tid} {info.get('kind')}: {info.get('name')} at event #{info.get('at')} "
                    f"{json.dumps(info.get('event'), default=str)[:300] if info.get('event') is not None else ''}")
            self.violation(fp, what, dict(trace=traces[tid - 1], verdict={k: v for k, v in info.items()},
                                          meta=meta_of(tid) if meta_of else None))

    # -- finishing ---------------------------------------------------------------
    def finish(self) -> int:
        os.makedirs(EVIDENCE_DIR, exist_ok=True)
        for fp, hit in sorted(self.known_hits.items()):
            print(f'KNOWN-FINDING: property={self.pid} {fp} :: {hit["what"]} (seen {hit["n"]}x)', flush=True)
        rc = 0
        if self.violations:
            os.makedirs(REPLAY_DIR, exist_ok=True)
            seen = set()
            for i, v in enumerate(self.violations):
                if v['fingerprint'] in seen and i >= 10:
                    continue
                seen.add(v['fingerprint'])
                path = os.path.join(REPLAY_DIR, f'{self.pid}-{self.tier}-{self.seed}-{i}.json')
                with open(path, 'w') as fh:
                    json.dump(dict(property=self.pid, tier=self.tier, seed=self.seed, **v), fh, indent=1, default=str)
                print(f'VIOLATION property={self.pid} replay={path}', flush=True)
                print(f'  fingerprint={v["fingerprint"]} :: {v["what"][:600]}', flush=True)
                if i >= 10:
                    break
            rc = 1
        self.cov['distinct_nontrivial'] = len(self._distinct)
        if not self.cov['samples']:
            self.cov['samples'] = [dict(note='no sample recorded')]
        ev = dict(property_id=self.pid, tier=self.tier, seed=self.seed, level=self.level,
                  coverage=self.cov, assumptions=self.assumptions,
                  wall_s=round(time.time() - self.t0, 2), violations=len(self.violations),
                  known_findings_hit=sorted(self.known_hits), notes=self.notes)
        tmp = os.path.join(EVIDENCE_DIR, f'{self.pid}.json.tmp')
        with open(tmp, 'w') as fh:
            json.dump(ev, fh, indent=1, default=str)
        os.replace(tmp, os.path.join(EVIDENCE_DIR, f'{self.pid}.json'))
        self.log(f'done: evaluations={self.cov["evaluations"]} distinct={self.cov["distinct_nontrivial"]} '
                 f'states={self.cov["states"]} traces={self.cov["traces_validated_against_impl"]} '
                 f'violations={len(self.violations)} known={len(self.known_hits)} rc={rc}')
        return rc


def main_for(pid: str, run_fn, argv=None, replay_fn=None) -> int:
    import argparse
    ap = argparse.ArgumentParser()
    ap.add_argument('--tier', default=os.environ.get('VERIF_TIER', 'quick'), choices=['quick', 'thorough'])
    ap.add_argument('--seed', type=int, default=int(os.environ.get('VERIF_SEED', '0') or 0))
    ap.add_argument('--replay', default=None)
    ap.add_argument('--selftest', action='store_true')
    args = ap.parse_args(argv)
    chk = Check(pid, args.tier, args.seed)
    try:
        import logging
        logging.disable(logging.CRITICAL)
        use_repo()
        if args.replay:
            if replay_fn is None:
                print(f'{pid}: --replay is not supported by this check')
                return 2
            with open(args.replay) as fh:
                data = json.load(fh)
            chk.tier = data.get('tier', chk.tier)
            replay_fn(chk, data)
            # a replay never rewrites the evidence file
            for fp, hit in sorted(chk.known_hits.items()):
                print(f'KNOWN-FINDING: property={pid} {fp} :: {hit["what"]}', flush=True)
            for v in chk.violations:
                print(f'VIOLATION property={pid} replay={args.replay}', flush=True)
                print(f'  fingerprint={v["fingerprint"]} :: {v["what"][:600]}', flush=True)
            return 1 if chk.violations else 0
        run_fn(chk, args)
        return chk.finish()
    except MachineryFailure as exc:
        print(f'MACHINERY-FAILURE property={pid}: {exc}', flush=True)
        return 2
    except Exception:
        traceback.print_exc()
        print(f'MACHINERY-FAILURE property={pid}: unexpected exception in the check', flush=True)
        return 2

"""Driving TLC from Python: model checking, simulation, state-graph dumps and
batch trace validation, plus a parser for TLA+ values printed by TLC."""
from __future__ import annotations

import json
import os
import re
import shutil
import subprocess
import tempfile
import time
from dataclasses import dataclass, field
from typing import Any, Iterable, Optional

JAR = '/opt/veriftools/tla/tla2tools.jar'
CM = '/opt/veriftools/tla/CommunityModules-deps.jar'
SPECS = os.path.join(os.path.dirname(os.path.dirname(os.path.abspath(__file__))), 'specs')


class TLCError(RuntimeError):
    """Machinery failure (TLC crashed, parse error in spec, unparsable output)."""


# ---------------------------------------------------------------------------
# TLA+ value parser
# ---------------------------------------------------------------------------

class Rec(dict):
    """Hashable dict: TLA+ records and functions."""

    def __hash__(self):  # type: ignore[override]
        return hash(frozenset(self.items()))

    def __getattr__(self, k):
        try:
            return self[k]
        except KeyError:
            raise AttributeError(k)


class ModelValue(str):
    pass


_TOKEN = re.compile(r'''
    \s*(?:
      (?P<str>"(?:[^"\\]|\\.)*") |
      (?P<num>-?\d+) |
      (?P<op><<|>>|\|->|:>|@@|\.\.|[\[\]{}(),]) |
      (?P<id>[A-Za-z_][A-Za-z0-9_!]*)
    )''', re.X)


def _tokens(s: str):
    pos = 0
    n = len(s)
    out = []
    while pos < n:
        m = _TOKEN.match(s, pos)
        if not m:
            if s[pos:].strip() == '':
                break
            raise ValueError(f'cannot tokenise TLA+ value at {s[pos:pos + 40]!r}')
        pos = m.end()
        kind = m.lastgroup
        out.append((kind, m.group(kind)))
    return out


def _unescape(s: str) -> str:
    return s[1:-1].replace('\\"', '"').replace('\\\\', '\\').replace('\\n', '\n').replace('\\t', '\t')


class _P:
    def __init__(self, toks):
        self.t = toks
        self.i = 0

    def peek(self):
        return self.t[self.i] if self.i < len(self.t) else (None, None)

    def eat(self, val=None):
        k, v = self.peek()
        if val is not None and v != val:
            raise ValueError(f'expected {val!r} got {v!r}')
        self.i += 1
        return k, v

    def value(self):
        k, v = self.peek()
        if k == 'str':
            self.eat()
            return _unescape(v)
        if k == 'num':
            self.eat()
            lo = int(v)
            if self.peek()[1] == '..':
                self.eat()
                hi = int(self.eat()[1])
                return frozenset(range(lo, hi + 1))
            return lo
        if k == 'id':
            self.eat()
            if v == 'TRUE':
                return True
            if v == 'FALSE':
                return False
            return ModelValue(v)
        if v == '<<':
            self.eat()
            items = []
            while self.peek()[1] != '>>':
                items.append(self.value())
                if self.peek()[1] == ',':
                    self.eat()
            self.eat('>>')
            return tuple(items)
        if v == '{':
            self.eat()
            items = []
            while self.peek()[1] != '}':
                items.append(self.value())
                if self.peek()[1] == ',':
                    self.eat()
            self.eat('}')
            return frozenset(items)
        if v == '[':
            self.eat()
            rec = Rec()
            while self.peek()[1] != ']':
                name = self.eat()[1]
                self.eat('|->')
                rec[name] = self.value()
                if self.peek()[1] == ',':
                    self.eat()
            self.eat(']')
            return rec
        if v == '(':
            self.eat()
            fn = Rec()
            while True:
                key = self.value()
                self.eat(':>')
                fn[key] = self.value()
                if self.peek()[1] == '@@':
                    self.eat()
                    continue
                break
            self.eat(')')
            return fn
        raise ValueError(f'unexpected token {v!r}')


def parse_value(s: str):
    p = _P(_tokens(s))
    v = p.value()
    if p.i != len(p.t):
        raise ValueError(f'trailing tokens in TLA+ value: {p.t[p.i:p.i + 5]}')
    return v


def parse_state(text: str) -> Rec:
    """Parse '/\\ x = 1\n/\\ y = <<>>' into a Rec."""
    st = Rec()
    # split on lines starting with '/\ '
    parts = re.split(r'(?m)^/\\ ', text.strip())
    for part in parts:
        part = part.strip()
        if not part:
            continue
        name, _, val = part.partition(' = ')
        st[name.strip()] = parse_value(val.strip().replace('\n', ' '))
    return st


def to_jsonable(v):
    if isinstance(v, (frozenset, set)):
        return sorted((to_jsonable(x) for x in v), key=lambda x: json.dumps(x, sort_keys=True, default=str))
    if isinstance(v, tuple):
        return [to_jsonable(x) for x in v]
    if isinstance(v, dict):
        return {str(k): to_jsonable(x) for k, x in v.items()}
    return v


# ---------------------------------------------------------------------------
# Running TLC
# ---------------------------------------------------------------------------

@dataclass
class TLCIssue:
    kind: str                 # invariant | action_property | deadlock | temporal | assert | error
    name: str
    message: str
    trace: list = field(default_factory=list)   # [(label, Rec state)]


@dataclass
class TLCResult:
    ok: bool
    states_generated: int = 0
    distinct_states: int = 0
    queue_left: int = 0
    depth: int = 0
    issues: list = field(default_factory=list)
    coverage: dict = field(default_factory=dict)   # action name -> (distinct, generated)
    prints: list = field(default_factory=list)     # raw PrintT outputs (strings)
    wall_s: float = 0.0
    finished: bool = False
    raw: str = ''
    cmd: str = ''

    def summary(self):
        return dict(states=self.distinct_states, transitions=self.states_generated,
                    depth=self.depth, issues=[(i.kind, i.name) for i in self.issues])


_MSG = re.compile(r'@!@!@STARTMSG (\d+):(\d+) @!@!@\n(.*?)\n?@!@!@ENDMSG \1 @!@!@', re.S)


def _parse_tool_output(out: str, res: TLCResult, parse_traces: bool = True):
    pos = 0
    cur_issue: Optional[TLCIssue] = None
    last_end = 0
    for m in _MSG.finditer(out):
        # text between messages = PrintT output & SANY chatter
        between = out[last_end:m.start()]
        if between.strip():
            for line in between.splitlines():
                if line.strip() and not line.startswith(('Parsing file', 'Semantic processing', 'Linting of')):
                    res.prints.append(line)
        last_end = m.end()
        code, sev, body = int(m.group(1)), int(m.group(2)), m.group(3)
        if code == 2217:      # a state of an error trace
            if cur_issue is not None and parse_traces:
                head, _, rest = body.partition('\n')
                lm = re.match(r'\d+: <(.*?)( line \d+.*)?>$', head.strip())
                label = lm.group(1) if lm else head.strip()
                try:
                    st = parse_state(rest)
                except Exception as exc:  # keep raw
                    st = Rec(_raw=rest, _err=str(exc))
                cur_issue.trace.append((label, st))
            continue
        if code == 2218:      # stuttering / back to state
            if cur_issue is not None:
                cur_issue.trace.append(('<stuttering>', Rec()))
            continue
        if code == 2121 or code == 2122:
            continue
        if code == 2110 or code == 2107:
            nm = re.search(r'Invariant (\S+) is violated', body)
            cur_issue = TLCIssue('invariant', nm.group(1) if nm else '?', body)
            res.issues.append(cur_issue)
            continue
        if code == 2112:
            nm = re.search(r'Action property (\S+) is violated', body)
            cur_issue = TLCIssue('action_property', nm.group(1) if nm else '?', body)
            res.issues.append(cur_issue)
            continue
        if code == 2114:
            cur_issue = TLCIssue('deadlock', 'Deadlock', body)
            res.issues.append(cur_issue)
            continue
        if code == 2116:
            cur_issue = TLCIssue('temporal', 'Temporal', body)
            res.issues.append(cur_issue)
            continue
        if code == 2132 or code == 2133 or code == 2124 or code == 2264:
            # 2132: evaluating assertion failed etc.
            cur_issue = TLCIssue('assert', 'Assert', body)
            res.issues.append(cur_issue)
            continue
        if code == 2199 or code == 2200:
            sm = re.search(r'(\d+) states generated.*?(\d+) distinct states found.*?(\d+) states left on queue', body, re.S)
            if sm:
                res.states_generated = int(sm.group(1))
                res.distinct_states = int(sm.group(2))
                res.queue_left = int(sm.group(3))
            continue
        if code == 2190 and 'distinct state' in body:
            continue
        if code == 2194:
            dm = re.search(r'is (\d+)', body)
            if dm:
                res.depth = int(dm.group(1))
            continue
        if code == 2186:
            res.finished = True
            continue
        if code == 2772 or code == 2773:
            cm = re.match(r'<(\w+) line .*?>: (\d+):(\d+)', body.strip())
            if cm:
                d, g = int(cm.group(2)), int(cm.group(3))
                od, og = res.coverage.get(cm.group(1), (0, 0))
                res.coverage[cm.group(1)] = (od + d, og + g)
            continue
        if sev == 1:
            # any other error
            if code in (2120, 2123):      # "the behavior up to this point" variants
                continue
            cur_issue = TLCIssue('error', f'TLC{code}', body)
            res.issues.append(cur_issue)
            continue
        if code in (2268,):  # simulation progress
            sm = re.search(r'(\d+) states checked', body)
            if sm:
                res.states_generated = int(sm.group(1))
    tail = out[last_end:]
    for line in tail.splitlines():
        if line.strip():
            res.prints.append(line)


def run_tlc(tla: str, cfg: Optional[str] = None, *, workers: int | str = int(os.environ.get("VERIF_TLC_WORKERS", "16")), simulate: Optional[str] = None,
            depth: Optional[int] = None, coverage: bool = False, cont: bool = False,
            dump_dot: Optional[str] = None, dump_states: Optional[str] = None, deadlock: Optional[bool] = None, seed: Optional[int] = None,
            env: Optional[dict] = None, timeout: float = 1800, extra: Iterable[str] = (),
            java_opts: Iterable[str] = (), parse_traces: bool = True, max_heap: str = os.environ.get('VERIF_TLC_HEAP', '4g'),
            dfid: Optional[int] = None) -> TLCResult:
    """Run TLC on `tla` (absolute path, or relative to /verif/specs)."""
    if not os.path.isabs(tla):
        tla = os.path.join(SPECS, tla)
    cwd = os.path.dirname(tla)
    if cfg is None:
        cfg = os.path.splitext(tla)[0] + '.cfg'
    elif not os.path.isabs(cfg):
        cfg = os.path.join(cwd, cfg)
    meta = tempfile.mkdtemp(prefix='tlcmeta-')
    if os.path.exists(os.path.join(tempfile.gettempdir(), 'verif-tlc-throttle')):
        try:
            workers = min(int(workers), 4)
        except ValueError:
            workers = 4
    try:
        ncpu = max(2, int(workers))
    except ValueError:
        ncpu = 16
    cmd = ['java', '-XX:+UseParallelGC', f'-XX:ActiveProcessorCount={ncpu}', f'-Xmx{max_heap}', *java_opts, '-cp', f'{JAR}:{CM}', 'tlc2.TLC',
           '-tool', '-metadir', meta, '-noGenerateSpecTE', '-workers', str(workers), '-config', cfg]
    if simulate is not None:
        cmd += ['-simulate', simulate]
    if depth is not None:
        cmd += ['-depth', str(depth)]
    if coverage:
        cmd += ['-coverage', '1']
    if cont:
        cmd += ['-continue']
    if dump_dot:
        cmd += ['-dump', 'dot,actionlabels', dump_dot]
    if dump_states:
        cmd += ['-dump', dump_states]
    if deadlock is False:
        cmd += ['-deadlock']
    if seed is not None:
        cmd += ['-seed', str(seed)]
    if dfid is not None:
        cmd += ['-dfid', str(dfid)]
    cmd += list(extra)
    cmd += [tla]
    e = dict(os.environ)
    if env:
        e.update({k: str(v) for k, v in env.items()})
    res = TLCResult(ok=False, cmd=' '.join(cmd))
    slot = _acquire_slot()
    t0 = time.time()
    try:
        p = subprocess.run(cmd, cwd=cwd, env=e, stdout=subprocess.PIPE, stderr=subprocess.STDOUT,
                           timeout=timeout, text=True, errors='replace')
        out = p.stdout
        rc = p.returncode
    except subprocess.TimeoutExpired as exc:
        out = exc.stdout.decode('utf8', 'replace') if isinstance(exc.stdout, bytes) else (exc.stdout or '')
        rc = -9
        subprocess.run(['pkill', '-f', meta], check=False)
    finally:
        shutil.rmtree(meta, ignore_errors=True)
        _release_slot(slot)
    res.wall_s = time.time() - t0
    res.raw = out
    _parse_tool_output(out, res, parse_traces=parse_traces)
    if rc == -9:
        res.issues.append(TLCIssue('timeout', 'timeout', f'TLC exceeded {timeout}s'))
    res.ok = (rc == 0 and not res.issues)
    res.returncode = rc  # type: ignore[attr-defined]
    # rc 0 = ok, 10..13 = violations; anything else (parse errors 150/151, crashes) = machinery
    if rc not in (0, 10, 11, 12, 13, -9) and not any(i.kind != 'error' for i in res.issues):
        msgs = '\n'.join(f'{i.name}: {i.message[:1500]}' for i in res.issues[:4])
        raise TLCError(f'TLC failed (rc={rc}) for {tla}:\n{msgs}\n...\n{out[-1500:] if not msgs else ""}')
    return res


def _acquire_slot():
    """Machine-wide throttle: at most VERIF_TLC_SLOTS TLC processes at a time (several checks may be
    developed / run side by side on one box). 0 disables it."""
    n = int(os.environ.get('VERIF_TLC_SLOTS', '0') or 0)
    if n <= 0:
        # development aid: a marker file (never present after a fresh restore) turns the throttle on
        try:
            with open(os.path.join(tempfile.gettempdir(), 'verif-tlc-throttle')) as fh:
                n = int(fh.read().strip() or 0)
        except (OSError, ValueError):
            n = 0
    if n <= 0:
        return None
    import fcntl
    d = os.path.join(tempfile.gettempdir(), 'verif-tlc-slots')
    os.makedirs(d, exist_ok=True)
    while True:
        for i in range(n):
            fh = open(os.path.join(d, f'slot-{i}'), 'w')
            try:
                fcntl.flock(fh, fcntl.LOCK_EX | fcntl.LOCK_NB)
                return fh
            except OSError:
                fh.close()
        time.sleep(0.25)


def _release_slot(fh):
    if fh is not None:
        try:
            fh.close()
        except Exception:
            pass


def sany(tla: str) -> None:
    if not os.path.isabs(tla):
        tla = os.path.join(SPECS, tla)
    p = subprocess.run(['java', '-cp', f'{JAR}:{CM}', 'tla2sany.SANY', tla], cwd=os.path.dirname(tla),
                       stdout=subprocess.PIPE, stderr=subprocess.STDOUT, text=True)
    if p.returncode != 0 or 'error' in p.stdout.lower().replace('errors: 0', ''):
        if re.search(r'\*\*\* Errors|Fatal errors|Could not parse|Parse Error|Semantic errors', p.stdout):
            raise TLCError(f'SANY rejected {tla}:\n{p.stdout[-3000:]}')


# ---------------------------------------------------------------------------
# Model checking helper with vacuity detection
# ---------------------------------------------------------------------------

def model_check(tla: str, cfg: str, *, expect_actions: Iterable[str] = (), **kw) -> TLCResult:
    """Exhaustive run with coverage; raises TLCError if an expected action was never taken."""
    res = run_tlc(tla, cfg, coverage=True, **kw)
    if res.ok:
        missing = [a for a in expect_actions if res.coverage.get(a, (0, 0))[1] == 0]
        if missing:
            raise TLCError(f'vacuity: actions never taken in {cfg}: {missing}')
    return res


# ---------------------------------------------------------------------------
# State graph dump (dot, actionlabels)
# ---------------------------------------------------------------------------

@dataclass
class Graph:
    states: dict                 # id -> Rec
    init: list                   # ids
    edges: list                  # (src, label, dst)


_DOT_NODE = re.compile(r'^(-?\d+) \[label="((?:[^"\\]|\\.)*)"')
_DOT_EDGE = re.compile(r'^(-?\d+) -> (-?\d+) \[label="((?:[^"\\]|\\.)*)".*\];?$')


def dump_graph(tla: str, cfg: str, parse_states=True, **kw) -> tuple[Graph, TLCResult]:
    """parse_states: True (all), 'init' (only initial states), False (none; raw text kept)."""
    d = tempfile.mkdtemp(prefix='tlcdot-')
    try:
        path = os.path.join(d, 'g')
        res = run_tlc(tla, cfg, dump_dot=path, **kw)
        g = Graph({}, [], [])
        with open(path + '.dot', encoding='utf8') as fh:
            for line in fh:
                line = line.rstrip('\n')
                m = _DOT_EDGE.match(line)
                if m:
                    g.edges.append((m.group(1), m.group(3).replace('\\"', '"').replace('\\\\', '\\'), m.group(2)))
                    continue
                m = _DOT_NODE.match(line)
                if m:
                    is_init = 'style = filled' in line
                    if parse_states is True or (parse_states == 'init' and is_init):
                        txt = m.group(2).replace('\\n', '\n').replace('\\\\', '\\').replace('\\"', '"')
                        g.states[m.group(1)] = parse_state(txt)
                    else:
                        g.states[m.group(1)] = None
                    if is_init:
                        g.init.append(m.group(1))
        return g, res
    finally:
        shutil.rmtree(d, ignore_errors=True)


def path_cover(g: Graph, max_paths: Optional[int] = None, rng=None) -> list[list[tuple[str, str, str]]]:
    """A set of paths from initial states covering every edge of the graph at least once:
    BFS-tree path to the source of each non-covered edge, then greedy extension through
    uncovered edges."""
    from collections import defaultdict, deque
    out = defaultdict(list)
    for e in g.edges:
        out[e[0]].append(e)
    parent: dict[str, Optional[tuple]] = {}
    dq = deque()
    for i in g.init:
        parent[i] = None
        dq.append(i)
    while dq:
        s = dq.popleft()
        for e in out[s]:
            if e[2] not in parent:
                parent[e[2]] = e
                dq.append(e[2])

    def path_to(s):
        p = []
        while parent.get(s) is not None:
            e = parent[s]
            p.append(e)
            s = e[0]
        return list(reversed(p))

    covered = set()
    paths = []
    edges = list(g.edges)
    if rng is not None:
        rng.shuffle(edges)
    for e in edges:
        if e in covered or e[0] not in parent:
            continue
        p = path_to(e[0]) + [e]
        covered.update(p)
        # greedy extension
        cur = e[2]
        for _ in range(64):
            nxt = [x for x in out[cur] if x not in covered]
            if not nxt:
                break
            x = nxt[0]
            p.append(x)
            covered.add(x)
            cur = x[2]
        paths.append(p)
        if max_paths and len(paths) >= max_paths:
            break
    return paths


# ---------------------------------------------------------------------------
# Simulation behaviours
# ---------------------------------------------------------------------------

def simulate_behaviours(tla: str, cfg: str, *, num: int, depth: int, seed: int = 0, **kw) -> tuple[list, TLCResult]:
    """Random behaviours from TLC's simulator: list of [(action label, Rec state), ...]."""
    d = tempfile.mkdtemp(prefix='tlcsim-')
    try:
        res = run_tlc(tla, cfg, simulate=f'file={d}/tr,num={num}', depth=depth, workers=1, seed=seed, **kw)
        behs = []
        for fn in sorted(os.listdir(d)):
            if not fn.startswith('tr'):
                continue
            txt = open(os.path.join(d, fn), encoding='utf8').read()
            beh = []
            for m in re.finditer(r'\\\* <(.*?)(?: line \d+[^>]*)?>\nSTATE_\d+ == ?\n(.*?)\n\n', txt + '\n\n', re.S):
                label = m.group(1)
                try:
                    st = parse_state(m.group(2))
                except Exception:
                    continue
                beh.append((label, st))
            if beh:
                behs.append(beh)
        return behs, res
    finally:
        shutil.rmtree(d, ignore_errors=True)


# ---------------------------------------------------------------------------
# Batch trace validation
# ---------------------------------------------------------------------------

@dataclass
class TraceVerdicts:
    accepted: dict = field(default_factory=dict)    # tid (1-based) -> set of known-finding marks on accepting path
    rejected: dict = field(default_factory=dict)    # tid -> dict(kind, name, at, detail)
    result: Optional[TLCResult] = None
    diag_results: list = field(default_factory=list)
    n: int = 0


def validate_traces(tla: str, cfg: str, traces: list, *, diag_cfg: Optional[str] = None, max_diag: int = 5,
                    env: Optional[dict] = None, workers: int | str = 8, timeout: float = 1800,
                    chunk: int = 4000) -> TraceVerdicts:
    """Validate `traces` (list of lists of JSON event records) against a trace spec.

    Contract with the trace spec (see DESIGN.md appendix B):
      * `Traces == JsonDeserialize(IOEnv.TRACE_FILE)`; Init picks `tid \\in 1..Len(Traces)`;
      * the spec's properties are CONSTRAINT / ACTION_CONSTRAINT lines in `cfg`, so a path that
        breaks a property is cut;
      * an action `Done` enabled at the end of the trace prints
        `PrintT(<<"ACCEPT", tid, marks>>)` exactly when some clean path consumed the whole trace.
    A trace with no ACCEPT line is rejected; up to `max_diag` rejected traces are re-run one at a
    time with `diag_cfg` (properties as INVARIANT/PROPERTY, deadlock on) to say *why*.
    """
    v = TraceVerdicts(n=len(traces))
    if not traces:
        return v
    d = tempfile.mkdtemp(prefix='tlctr-')
    try:
        for base in range(0, len(traces), chunk):
            part = traces[base:base + chunk]
            f = os.path.join(d, f'batch{base}.json')
            with open(f, 'w') as fh:
                json.dump(part, fh)
            e = dict(env or {})
            e['TRACE_FILE'] = f
            res = run_tlc(tla, cfg, workers=workers, deadlock=False, env=e, timeout=timeout, parse_traces=False)
            v.result = res
            bad = [i for i in res.issues]
            if bad or not res.finished:
                raise TLCError(f'trace validation run failed: {[(i.kind, i.name, i.message[:300]) for i in bad]}\n{res.raw[-3000:]}')
            joined = ' '.join(res.prints)
            for m in re.finditer(r'<<\s*"ACCEPT",\s*(\d+),\s*(\{[^}]*\})\s*>>', joined):
                tid = int(m.group(1)) + base
                marks = parse_value(m.group(2))
                v.accepted.setdefault(tid, set()).update(marks)
            for i in range(len(part)):
                tid = base + i + 1
                if tid not in v.accepted:
                    v.rejected[tid] = dict(kind='rejected', name='?', at=None, detail='')
        # diagnose
        for tid in sorted(v.rejected)[:max_diag]:
            v.rejected[tid] = diagnose_trace(tla, diag_cfg or cfg, traces[tid - 1], env=env, tmpdir=d,
                                             results=v.diag_results, constraint_cfg=cfg)
        return v
    finally:
        shutil.rmtree(d, ignore_errors=True)


def _max_l_in_dump(path: str):
    """Largest value of the trace position `l` among the states TLC dumped, with that state's text."""
    best, best_txt = None, ''
    try:
        with open(path, encoding='utf8', errors='replace') as fh:
            txt = fh.read()
    except OSError:
        return None, ''
    for block in re.split(r'(?m)^State \d+:\s*$', txt):
        m = re.search(r'(?m)^/\\ l = (\d+)\s*$', block)
        if m:
            v = int(m.group(1))
            if best is None or v > best:
                best, best_txt = v, block.strip()
    return best, best_txt


def diagnose_trace(tla: str, diag_cfg: str, trace, *, env=None, tmpdir=None, results=None,
                   constraint_cfg: Optional[str] = None) -> dict:
    """Say why a single trace is rejected (wording only; the verdict is the missing ACCEPT).

    Run A (constraint cfg, states dumped): Lc = the furthest position a property-respecting path reaches.
    Run B (diag cfg: properties as INVARIANT/PROPERTY, -continue): property violations with their position.
    A property violation at or before Lc + 1 explains the rejection; otherwise no spec action matches the
    event at Lc.  (TLC reports only the first deadlock even with -continue, so deadlocks are not used.)"""
    own = tmpdir is None
    d = tmpdir or tempfile.mkdtemp(prefix='tlctr-')
    try:
        f = os.path.join(d, 'single.json')
        with open(f, 'w') as fh:
            json.dump([trace], fh)
        e = dict(env or {})
        e['TRACE_FILE'] = f
        lc, lc_state = None, ''
        if constraint_cfg:
            dump = os.path.join(d, 'dumpA')
            ra = run_tlc(tla, constraint_cfg, workers=1, deadlock=False, env=e, timeout=600, dump_states=dump,
                         parse_traces=False)
            if results is not None:
                results.append(ra)
            lc, lc_state = _max_l_in_dump(dump + '.dump' if os.path.exists(dump + '.dump') else dump)
        res = run_tlc(tla, diag_cfg, workers=1, deadlock=False, cont=True, env=e, timeout=600)
        if results is not None:
            results.append(res)
        best = None
        for iss in res.issues:
            if iss.kind in ('invariant', 'action_property', 'assert'):
                l = None
                if iss.trace:
                    l = iss.trace[-1][1].get('l')
                cand = dict(kind='property', name=iss.name, at=l,
                            detail=_fmt_trace_tail(iss), event=_event_at(trace, l, -1))
                if best is None or (l or 0) < (best['at'] or 10 ** 9):
                    best = cand
        if best and (lc is None or best['at'] is None or best['at'] <= lc + 1):
            return best
        if lc is not None:
            return dict(kind='unexplained_event', name='NoSpecActionMatches', at=lc,
                        detail=lc_state[:2000], event=_event_at(trace, lc, 0))
        if best:
            return best
        return dict(kind='rejected', name='?', at=None,
                    detail='; '.join(f'{i.kind}:{i.name}:{i.message[:200]}' for i in res.issues) or res.raw[-1500:])
    finally:
        if own:
            shutil.rmtree(d, ignore_errors=True)


def _event_at(trace, l, off):
    try:
        if l is None:
            return None
        if isinstance(trace, dict) and 'events' in trace:
            trace = trace['events']
        idx = int(l) - 1 + off
        if 0 <= idx < len(trace):
            return trace[idx]
    except Exception:
        pass
    return None


def _fmt_trace_tail(iss: TLCIssue, n: int = 3) -> str:
    out = []
    for label, st in iss.trace[-n:]:
        out.append(f'{label}: ' + json.dumps(to_jsonable(st), sort_keys=True, default=str)[:1500])
    return '\n'.join(out)

"""X06 (PortMapping) - the rig: a real SoulSeekClient, logged in on the simulated network in virtual time,
whose Network._upnp is a scripted gateway (no SSDP / HTTP).  A *plan* (settings, initial gateway tables,
per-call outcomes, the environment's operations in order) is executed and recorded as a trace for
specs/PortMapping/PortMappingTrace.tla.

Observation surfaces: the calls that arrive at the gateway object (arguments, instant), the client's event
bus (ConnectionStateChangedEvent of the server connection), Network.listening_connections /
peer_connections, what a dialling peer sees, the loop's exception handler."""
from __future__ import annotations

import asyncio
import os
import re
from datetime import timedelta
from ipaddress import IPv4Address
from typing import Any, Optional

from . import simnet, simserver, vloop
from .core import MachineryFailure

KINDS = ('reg', 'obf')
DEVICES = ('d1', 'd2')
PERM = -1
OTHER_IP = '192.168.1.77'
PORT_PAIRS = [(61000, 61001), (2234, 2235), (50300, 40100), (1025, 65535)]
SCALES = [1000, 7000, 60000, 150000]          # milliseconds of virtual time per model tick
SEARCH_TIMEOUTS = [1, 5, 10]
FLOOD_AT_ONE_INSTANT = 200
FLOOD_TOTAL = 4000


class Injected:
    """marker: an exception the scripted gateway raised on purpose"""


def _exc_classes():
    from async_upnp_client.exceptions import UpnpActionResponseError, UpnpCommunicationError, UpnpError

    class GwOSError(Injected, OSError):
        pass

    class GwTimeout(Injected, asyncio.TimeoutError):
        pass

    class GwUpnpError(Injected, UpnpError):
        pass

    class GwCommError(Injected, UpnpCommunicationError):
        pass

    class GwActionError(Injected, UpnpActionResponseError):
        pass

    class GwValueError(Injected, ValueError):
        pass
    return dict(os=GwOSError, timeout=GwTimeout, upnp=GwUpnpError, comm=GwCommError, action=GwActionError,
                value=GwValueError)


def make_exc(kind: str, what: str):
    cls = _exc_classes()[kind]
    if kind == 'action':
        return cls(status=500, error_code=718, error_desc='ConflictInMappingEntry', message=what)
    if kind == 'os':
        return cls(101, what)
    return cls(what)


class Device:
    def __init__(self, name: str):
        self.name = name
        self.table: dict[tuple[int, str], dict] = {}     # (external port, protocol) -> entry

    def __repr__(self):
        return f'<gateway {self.name}>'


class Gateway:
    """Stands in for aioslsk.network.upnp.UPNP: same four coroutines, a table per device with leases that
    lapse on the virtual clock, failures and slowness as the plan says."""

    def __init__(self, world: 'World'):
        self.w = world
        self.devices = {d: Device(d) for d in DEVICES}
        self.avail: set[str] = set()
        self.runs = 0
        self.pending: list[dict] = []
        self.ncalls = 0
        self.burst, self.burst_t, self.flooded = 0, -1.0, False

    # -- the table -----------------------------------------------------------------------------------------
    def live(self, e) -> bool:
        return e['exp'] is None or e['exp'] > self.w.loop.time()

    def slot(self, dev: Device, port: int):
        """how the (port, TCP) slot of a device looks to us now: (own, exp in ms | PERM)"""
        e = dev.table.get((port, 'TCP'))
        if e is None or not self.live(e):
            return 'none', 0
        exp = PERM if e['exp'] is None else self.w.ms(e['exp'])
        if e['ip'] != self.w.own_ip:
            return 'other', exp
        if e['iport'] == port and e['enabled']:
            return 'us', exp
        return 'none', 0          # ours, but disabled / to another internal port: not a mapping of the port

    def view(self, dev: Device):
        out = {}
        for k in KINDS:
            own, exp = self.slot(dev, self.w.portno[k])
            out[k] = dict(own=own, exp=exp)
        return out

    # -- scripted outcome / slowness --------------------------------------------------------------------------
    async def _call(self, kind: str, ids: tuple, ev: dict):
        w = self.w
        self.ncalls += 1
        # a job that spins (calls without end at one instant, or thousands of calls) is an observation, not a
        # reason to run out of memory: say so once and never answer again
        now = w.loop.time()
        self.burst = self.burst + 1 if now == self.burst_t else 1
        self.burst_t = now
        if self.burst > FLOOD_AT_ONE_INSTANT or self.ncalls > FLOOD_TOTAL:
            if not self.flooded:
                self.flooded = True
                w.log('exc', what=f'the gateway was called {self.burst} times at one instant / {self.ncalls} times in all')
            await w.loop.create_future()
        if kind == 'search':
            self.runs += 1
        key = (self.runs, kind) + ids
        w.log(kind, **ev)
        outcome = w.plan['outcomes'].get(key, 'ok')
        # a slow get / map is held only while the driver stands still: time passes inside a search only
        if key in w.plan['holds'] and not (kind != 'search' and w.time_passing):
            fut = w.loop.create_future()
            p = dict(key=key, fut=fut)
            self.pending.append(p)
            try:
                outcome = await fut
            except asyncio.CancelledError:
                w.log(kind + '_ret', res='cancelled', **self._ids(kind, ev))
                raise
            finally:
                self.pending.remove(p)
        elif w.plan['mode'] == 'yield':
            try:
                await asyncio.sleep(0)
            except asyncio.CancelledError:
                w.log(kind + '_ret', res='cancelled', **self._ids(kind, ev))
                raise
        return outcome

    @staticmethod
    def _ids(kind, ev):
        if kind == 'get':
            return dict(d=ev['d'])
        if kind == 'map':
            return dict(d=ev['d'], port=ev['port'])
        return {}

    # -- the UPNP interface --------------------------------------------------------------------------------------
    async def search_igd_devices(self, source_ip, timeout=None):
        outcome = await self._call('search', (), dict(ip=str(source_ip), timeout=timeout if timeout is not None else -1))
        if outcome == 'fail':
            self.w.log('search_ret', res='fail', devs=[])
            raise make_exc(self.w.plan['exc']['search'], 'search failed')
        devs = [self.devices[d] for d in DEVICES if d in self.avail]
        if self.w.plan['rev']:
            devs.reverse()
        self.w.log('search_ret', res='ok', devs=[d.name for d in devs])
        return devs

    async def get_mapped_ports(self, device):
        from async_upnp_client.profiles.igd import PortMappingEntry
        name = getattr(device, 'name', str(device))
        outcome = await self._call('get', (name,), dict(d=name))
        dev = self.devices.get(name)
        if outcome == 'fail' or dev is None:
            self.w.log('get_ret', res='fail', d=name, view={k: dict(own='none', exp=0) for k in KINDS})
            raise make_exc(self.w.plan['exc']['get'], f'cannot read the mappings of {name}')
        now = self.w.loop.time()
        entries = []
        for (port, proto), e in dev.table.items():
            if not self.live(e):
                continue
            lease = None if e['exp'] is None else timedelta(seconds=e['exp'] - now)
            entries.append(PortMappingEntry(None, port, proto, e['iport'], IPv4Address(e['ip']), e['enabled'],
                                            e['desc'], lease))
        if self.w.plan['rev']:
            entries.reverse()
        self.w.log('get_ret', res='ok', d=name, view=self.view(dev))
        return entries

    async def map_port(self, device, internal_ip, port, lease_duration=None):
        name = getattr(device, 'name', str(device))
        lease = -1 if lease_duration is None else lease_duration
        outcome = await self._call('map', (name, port), dict(d=name, port=port, ip=str(internal_ip), lease=lease,
                                                             proto='TCP'))
        dev = self.devices.get(name)
        e = dev.table.get((port, 'TCP')) if dev else None
        foreign = e is not None and self.live(e) and e['ip'] != str(internal_ip)
        if outcome == 'fail' or dev is None or foreign:
            self.w.log('map_ret', res='fail', d=name, port=port, exp=0)
            raise make_exc('action' if foreign else self.w.plan['exc']['map'], f'cannot map {port} on {name}')
        now = self.w.loop.time()
        dev.table[(port, 'TCP')] = dict(ip=str(internal_ip), iport=port, enabled=True, desc='AioSlsk',
                                        exp=None if not lease_duration else now + lease_duration)
        self.w.log('map_ret', res='ok', d=name, port=port,
                   exp=PERM if not lease_duration else self.w.ms(now + lease_duration))
        return None

    async def unmap_port(self, device, port):
        name = getattr(device, 'name', str(device))
        self.w.log('unmap', d=name, port=port)
        dev = self.devices.get(name)
        if dev:
            dev.table.pop((port, 'TCP'), None)


def parse_label(label: str):
    m = re.match(r'(\w+)(?:\((.*)\))?$', label.strip(), re.S)
    if not m:
        return label, []
    args = re.findall(r'"([^"]*)"|(-?\d+)', (m.group(2) or '').split('[')[0])
    return m.group(1), [a if a != '' else int(b) for a, b in args]


def plan_of(init: dict, labels: list, conc: dict) -> dict:
    """Project a behaviour of the design model onto what the harness does: the environment's operations in
    order, an outcome per gateway call (keyed by run number and call), the calls held open (slow gateway)."""
    ops: list = []
    outcomes: dict = {}
    holds: set = set()
    run = 0
    open_call: Optional[tuple] = None          # the call in flight in the model
    env_since_call = False
    for lab in labels:
        name, a = parse_label(lab)
        if name == 'BeginRun':
            run += 1
            open_call, env_since_call = (run, 'search'), False
        elif name == 'CallGet':
            open_call, env_since_call = (run, 'get', a[0]), False
        elif name == 'CallMap':
            open_call, env_since_call = (run, 'map', a[0], conc['portno'][a[1]]), False
        elif name in ('RetSearchOK', 'RetSearchFail', 'RetSearchFailDies', 'RetGetOK', 'RetGetFail', 'RetGetFailDies',
                      'RetMapOK', 'RetMapFail'):
            if open_call is None:
                continue
            res = 'fail' if 'Fail' in name else 'ok'
            if name == 'RetMapFail':
                res = 'fail'            # (a foreign slot is refused by the gateway itself; otherwise the failure is injected)
            outcomes[open_call] = res
            if env_since_call:
                holds.add(open_call)
                ops.append(('release', open_call))
            open_call = None
        elif name in ('EndRun', 'EndRunIgnoringNew', 'Start', 'StartFails'):
            if name in ('Start', 'StartFails'):
                ops.append(('start',))
        elif name in ('SrvLoss', 'SrvUp', 'Stop', 'Tick', 'Flip', 'Dial', 'DialAs'):
            if open_call is not None:
                env_since_call = True
                holds.add(open_call)
            op = dict(SrvLoss=('loss',), SrvUp=('up',), Stop=('stop',)).get(name)
            if name == 'Tick':
                op = ('tick', a[0])
            elif name == 'Flip':
                op = ('flip', a[0])
            elif name in ('Dial', 'DialAs'):
                op = ('dial', a[0])
            ops.append(op)
            if name in ('SrvLoss', 'Stop'):
                open_call = None
        else:
            raise MachineryFailure(f'X06: unknown action label {lab!r}')
    return dict(init=init, ops=ops, outcomes=outcomes, holds=holds, **conc)


def plan_json(plan: dict) -> dict:
    p = dict(plan)
    p['outcomes'] = [[list(k), v] for k, v in sorted(plan['outcomes'].items(), key=lambda kv: str(kv[0]))]
    p['holds'] = sorted([list(k) for k in plan['holds']], key=str)
    p['ops'] = [list(o) for o in plan['ops']]
    return p


def plan_from_json(p: dict) -> dict:
    q = dict(p)
    q['outcomes'] = {tuple(k): v for k, v in p['outcomes']}
    q['holds'] = {tuple(k) for k in p['holds']}
    q['ops'] = [tuple(o) for o in p['ops']]
    return q


class World:
    """One history on one real client."""

    def __init__(self, plan: dict):
        self.plan = plan
        self.events: list[dict] = []
        self.notes: list[str] = []
        self.portno = dict(plan['portno'])
        self.scale = plan['scale']
        self.own_ip = '127.0.0.1'
        self.stopped = False
        self.started = False
        self.failed = False
        self.time_passing = False

    # -- recording ------------------------------------------------------------------------------------------
    def ms(self, t: float) -> int:
        return int(round((t - self.t0) * 1000))

    def log(self, ev: str, **kw):
        self.events.append(dict(ev=ev, t=self.ms(self.loop.time()), **kw))

    def lobs(self):
        from aioslsk.network.connection import ConnectionState
        out = {}
        conns = self.client.network.listening_connections
        for i, k in enumerate(KINDS):
            c = conns[i] if i < len(conns) else None
            port = self.portno[k]
            h = self.net.listeners.get(('*', port))
            acc = bool(h is not None and h.is_serving())
            if c is None:
                out[k] = dict(conn=False, up=False, acc=acc, flag=True)
            else:
                out[k] = dict(conn=True, up=c.state == ConnectionState.CONNECTED, acc=acc,
                              flag=bool(c.obfuscated == (k == 'obf') and c.port == port))
        return out

    def obs(self):
        self.log('obs', lobs=self.lobs())

    # -- running --------------------------------------------------------------------------------------------
    def run(self) -> list:
        try:
            _, loop = vloop.run(lambda lp: self._main(lp))
        except vloop.Deadlock as exc:
            raise MachineryFailure(f'virtual loop deadlock in an X06 history: {exc}')
        for ctx in loop.unhandled:
            exc = ctx.get('exception')
            if isinstance(exc, (asyncio.CancelledError, Injected)):
                continue
            self.events.append(dict(ev='exc', t=self.events[-1]['t'] if self.events else 0,
                                    what=('loop: ' + str(ctx.get('message')) + ' ' + repr(exc))[:300]))
        return self.events

    async def settle(self):
        await vloop.settle(self.loop, rounds=400)

    async def let_pass(self, awaitable):
        """the clock may advance while this is awaited"""
        await self.release_all(('get', 'map'))
        self.time_passing = True
        try:
            return await awaitable
        finally:
            self.time_passing = False

    async def guarded(self, what: str, coro, passing=()):
        try:
            return await coro
        except asyncio.CancelledError:
            raise
        except passing:
            raise
        except Exception as exc:          # an exception of a public call is an observation
            self.log('exc', what=f'{what}: {exc!r}'[:300])
            return None

    def _on_state(self, event):
        from aioslsk.network.connection import ConnectionState, ServerConnection
        if not isinstance(event.connection, ServerConnection):
            return
        if event.state == ConnectionState.CONNECTED:
            self.log('srv_up')
            self.srv_up = True
            self.up_event.set()
        elif event.state == ConnectionState.CLOSED and self.srv_up:
            self.log('srv_down')
            self.srv_up = False

    def target(self, tick: int) -> float:
        return self.base + tick * self.scale / 1000.0

    async def _main(self, loop):
        from aioslsk.events import ConnectionStateChangedEvent
        plan = self.plan
        init = plan['init']
        self.loop = loop
        self.t0 = loop.time()
        self.base = self.t0
        self.srv_up = False
        self.up_event = asyncio.Event()
        self.mtime = 0                 # the model's clock (ticks) as far as the plan has advanced it
        self.net = simnet.SimNet(loop).install()
        try:
            self.server = simserver.ScriptedServer(self.net)
            await self.server.start()
            ports = init['cfg']['ports']
            S = self.scale
            network = dict(
                server=dict(hostname=simserver.SERVER_HOST, port=simserver.SERVER_PORT,
                            reconnect=dict(auto=plan['watchdog'], timeout=plan['reconnect_timeout'])),
                listening=dict(port=self.portno['reg'] if 'reg' in ports else 0,
                               obfuscated_port=self.portno['obf'] if 'obf' in ports else 0,
                               error_mode=plan['error_mode']),
                peer=dict(obfuscate=False, connect_mode='fallback'))
            if not plan.get('defaulted'):
                network['upnp'] = dict(enabled=init['cfg']['enabled'], lease_duration=init['cfg']['lease'] * S // 1000,
                                       check_interval=init['cfg']['ci'] * S // 1000, search_timeout=plan['st'])
            # (defaulted: network.upnp is left to the library's defaults, as a user who read SETTINGS.rst would)
            from aioslsk.settings import Settings
            settings = Settings(credentials=dict(username='me', password='pw'), network=network,
                                shares=dict(scan_on_start=False, download=os.getcwd(), directories=[]))
            self.client = client = simserver.make_client(settings)
            self.net.bind_fail = {self.portno[k] for k in init['cfg'].get('bad', [])}
            self.gwy = Gateway(self)
            client.network._upnp = self.gwy
            self.gwy.avail = set(init['avail'])
            gw0 = {}
            for d in DEVICES:
                gw0[d] = {}
                for k in KINDS:
                    e = init['gw'].get(d, {}).get(k, dict(own='none', exp=0))
                    gw0[d][k] = self._seed(self.gwy.devices[d], k, e, plan['decoys'].get(f'{d}.{k}', 'nothing'))
            self._cb = self._on_state          # the bus holds listeners weakly
            client.events.register(ConnectionStateChangedEvent, self._cb, priority=0)
            self.events.append(dict(
                ev='init', t=0,
                cfg=dict(enabled=init['cfg']['enabled'], ports=sorted(ports), lease=init['cfg']['lease'] * S,
                         ci=init['cfg']['ci'] * S, mode=plan['error_mode'], bad=sorted(init['cfg'].get('bad', []))),
                ip=self.own_ip, st=plan['st'], portno=self.portno, gw=gw0, avail=sorted(init['avail']),
                defaulted=bool(plan.get('defaulted')), lobs=self.lobs()))
            for op in plan['ops']:
                await self.apply(op)
            # the end of every history: let go of what is held, stop, and watch the gateway for a long time
            await self.release_all()
            if self.started and not self.stopped:
                await self.apply(('tick', self.mtime + plan['tail']))
                await self.release_all()
                await self.apply(('stop',))
            await self.release_all()
            await self.let_pass(asyncio.sleep(max((3 * init['cfg']['ci'] + 2 * max(init['cfg']['lease'], 1)) * S / 1000.0,
                                                  2000.0 if plan.get('defaulted') else 0.0)))
            await self.settle()
            self.log('tick')
            self.obs()
        finally:
            self.net.uninstall()
        return self.events

    def _seed(self, dev: Device, k: str, e: dict, decoy: str):
        port = self.portno[k]
        own = e['own']
        exp = None if e['exp'] == PERM else self.t0 + e['exp'] * self.scale / 1000.0
        if own == 'us':
            dev.table[(port, 'TCP')] = dict(ip=self.own_ip, iport=port, enabled=True, desc='AioSlsk', exp=exp)
        elif own == 'other':
            dev.table[(port, 'TCP')] = dict(ip=OTHER_IP, iport=port, enabled=True, desc='somebody else', exp=exp)
        else:
            # nothing that counts as a mapping of the port to us - but things that look a bit like one
            if decoy == 'udp':
                dev.table[(port, 'UDP')] = dict(ip=self.own_ip, iport=port, enabled=True, desc='udp', exp=None)
            elif decoy == 'disabled':
                dev.table[(port, 'TCP')] = dict(ip=self.own_ip, iport=port, enabled=False, desc='off', exp=None)
            elif decoy == 'iport':
                dev.table[(port, 'TCP')] = dict(ip=self.own_ip, iport=port + 7, enabled=True, desc='elsewhere', exp=None)
            elif decoy == 'lapsed':
                dev.table[(port, 'TCP')] = dict(ip=self.own_ip, iport=port, enabled=True, desc='old', exp=self.t0)
            elif decoy == 'otherport':
                dev.table[(port + 100, 'TCP')] = dict(ip=self.own_ip, iport=port + 100, enabled=True, desc='x', exp=None)
        own2, exp2 = self.gwy.slot(dev, port)
        if own2 != own:
            raise MachineryFailure(f'X06: seeded slot {dev.name}.{k} reads {own2}, wanted {own}')
        return dict(own=own2, exp=exp2)

    async def release_all(self, kinds=('search', 'get', 'map')):
        """answer the calls the gateway holds open (the environment of the model: time passes inside a search
        only, devices change and peers dial between calls only)"""
        for _ in range(200):
            await self.settle()
            held = [p for p in self.gwy.pending if p['key'][1] in kinds]
            if not held:
                return
            for p in held:
                if not p['fut'].done():
                    p['fut'].set_result(self.plan['outcomes'].get(p['key'], 'ok'))
        raise MachineryFailure('X06: the gateway keeps being called at one instant')

    async def apply(self, op):
        kind = op[0]
        client = self.client
        await self.settle()
        if kind == 'start':
            from aioslsk.exceptions import ListeningConnectionFailedError
            self.started = True
            try:
                if self.plan['split_start']:
                    await self.guarded('start', client.start(connect=False), passing=ListeningConnectionFailedError)
                    await self.guarded('connect', client.connect(), passing=ListeningConnectionFailedError)
                else:
                    await self.guarded('start', client.start(), passing=ListeningConnectionFailedError)
            except ListeningConnectionFailedError:
                self.failed = True
                await self.settle()
                self.log('start_failed')
            else:
                if self.plan['login'] and self.srv_up:
                    await self.guarded('login', client.login())
            await self.settle()
            self.obs()
        elif kind == 'tick':
            t = self.target(op[1])
            self.mtime = max(self.mtime, op[1])
            if t > self.loop.time():
                await self.let_pass(asyncio.sleep(t - self.loop.time()))
            await self.settle()
            self.log('tick')
            self.obs()
        elif kind == 'loss':
            sess = self.server.sessions[-1] if self.server.sessions else None
            if sess is not None and not sess.closed:
                sess.close(self.plan['loss_mode'])
            await self.settle()
            self.obs()
        elif kind == 'up':
            from aioslsk.network.connection import ConnectionState
            if client.network.server_connection.state == ConnectionState.CONNECTED or self.failed:
                pass
            elif self.plan['watchdog']:
                # the library's own watchdog reconnects and logs in again; the plan's clock is shifted by the wait
                before = self.loop.time()
                self.up_event.clear()
                try:
                    await self.let_pass(asyncio.wait_for(self.up_event.wait(), 5 * self.plan['reconnect_timeout'] + 60))
                except asyncio.TimeoutError:
                    self.log('exc', what='the watchdog did not reconnect')
                await self.settle()
                self.base += self.loop.time() - before
            else:
                await self.guarded('connect_server', client.network.connect_server())
                if self.plan['login']:
                    await self.guarded('login', client.login())
            await self.settle()
            self.obs()
        elif kind == 'stop':
            self.stopped = True
            await self.guarded('stop', client.stop())
            await self.settle()
            self.log('stop')
            self.obs()
        elif kind == 'flip':
            await self.release_all()
            d = op[1]
            if d in self.gwy.avail:
                self.gwy.avail.discard(d)
            else:
                self.gwy.avail.add(d)
            self.log('flip', d=d, avail=sorted(self.gwy.avail))
        elif kind == 'dial':
            await self.release_all()
            await self.dial(op[1])
        elif kind == 'release':
            key = op[1]
            for p in list(self.gwy.pending):
                if p['key'] == key and not p['fut'].done():
                    p['fut'].set_result(self.plan['outcomes'].get(key, 'ok'))
            await self.settle()
        else:
            raise MachineryFailure(f'X06: unknown operation {op!r}')

    async def dial(self, k: str):
        from aioslsk.protocol import messages as M
        port = self.portno[k]
        self.ndial = getattr(self, 'ndial', 0) + 1
        name = f'dialer{self.ndial}'
        try:
            ep = await self.net.dial(port)
        except ConnectionRefusedError:
            self.log('dial', k=k, res='refused', reg=False, obf=False, init=False)
            return
        ep.send_message(M.PeerInit.Request(name, 'P', 1000 + self.ndial), obfuscated=(k == 'obf'))
        await self.settle()
        mine = ep.link.addr[0]
        found = [c for c in self.client.network.peer_connections
                 if getattr(c, 'incoming', False) and (c.hostname, c.port) == tuple(mine)]
        reg = len(found) == 1
        c = found[0] if found else None
        self.log('dial', k=k, res='accepted', reg=reg, obf=bool(c.obfuscated) if c else False,
                 init=bool(c is not None and c.username == name))
        ep.close()
        await self.settle()


def nontrivial(trace) -> bool:
    return any(e['ev'] in ('map', 'get', 'dial') for e in trace)

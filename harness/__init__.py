"""Verification harness for aioslsk (model-based, TLA+/TLC)."""

"""Scripted SoulSeek server and peers on the SimNet, and a factory for real clients.

Everything here runs inside the harness process; nothing in /repo is touched.
"""
from __future__ import annotations

import asyncio
import os
import struct
from typing import Any, Callable, Optional

from .simnet import Endpoint, SimNet

SERVER_HOST = 'server.sim'
SERVER_PORT = 2416


class ScriptedServer:
    """Accepts client connections on the SimNet, records every request frame and answers
    through per-message-class handlers.

    handlers: {RequestClass: fn(server, session, msg) -> iterable of response messages | None}
    Defaults: Login -> success, GetPeerAddress -> from `self.addresses`, ConnectToPeer -> relayed to the
    target user's session if logged in here (like the real server), everything else recorded only.
    """

    def __init__(self, net: SimNet, port: int = SERVER_PORT):
        from aioslsk.protocol import messages as M
        self.M = M
        self.net = net
        self.port = port
        self.sessions: list['ServerSession'] = []
        self.received: list[tuple[float, str, Any]] = []     # (time, username, message)
        self.handlers: dict[type, Callable] = {}
        self.addresses: dict[str, tuple[str, int, int]] = {}   # user -> (ip, port, obfuscated_port)
        self.login_mode = 'ok'       # ok | reject | garbage | silent | eof
        self.greeting = 'hello'
        self.on_frame: Optional[Callable] = None
        self.relay_connect_to_peer = True
        self._handle = None

    async def start(self):
        self._handle = await self.net.start_server(self._accept, '0.0.0.0', self.port)
        return self

    def stop(self):
        if self._handle:
            self._handle.close()
        for s in self.sessions:
            s.ep.close()

    async def _accept(self, reader, writer):
        sess = ServerSession(self, Endpoint(reader, writer, writer.link))
        self.sessions.append(sess)
        await sess.run()

    def session_of(self, username: str) -> Optional['ServerSession']:
        for s in reversed(self.sessions):
            if s.username == username and not s.closed:
                return s
        return None

    def requests(self, cls=None, username=None):
        return [m for (_, u, m) in self.received
                if (cls is None or isinstance(m, cls)) and (username is None or u == username)]


class ServerSession:
    def __init__(self, server: ScriptedServer, ep: Endpoint):
        self.server = server
        self.ep = ep
        self.username: Optional[str] = None
        self.closed = False
        self.received: list[Any] = []
        self.undecodable: list[bytes] = []

    def send(self, *msgs):
        for m in msgs:
            self.ep.send_message(m)

    def close(self, mode: str = 'eof'):
        self.closed = True
        if mode == 'eof':
            self.ep.close()
        else:
            self.ep.link.cut(mode)

    async def run(self):
        M = self.server.M
        loop = asyncio.get_running_loop()
        while True:
            frame = await self.ep.read_frame()
            if frame is None:
                self.closed = True
                return
            try:
                msg = M.ServerMessage.deserialize_request(frame)
            except Exception:
                self.undecodable.append(frame)
                continue
            self.received.append(msg)
            self.server.received.append((loop.time(), self.username, msg))
            if self.server.on_frame:
                self.server.on_frame(self, msg)
            await self._dispatch(msg)

    async def _dispatch(self, msg):
        M = self.server.M
        srv = self.server
        h = srv.handlers.get(type(msg))
        if h is not None:
            res = h(srv, self, msg)
            if asyncio.iscoroutine(res):
                res = await res
            if res:
                self.send(*res)
            return
        if isinstance(msg, M.Login.Request):
            self.username = msg.username
            mode = srv.login_mode
            if mode == 'ok':
                self.send(M.Login.Response(success=True, greeting=srv.greeting, ip='1.2.3.4',
                                           md5hash='0' * 32, privileged=False))
            elif mode == 'reject':
                self.send(M.Login.Response(success=False, reason='INVALIDPASS'))
            elif mode == 'garbage':
                self.ep.send(struct.pack('<II', 8, 1) + b'\xff\xff\xff\xff')
            elif mode == 'eof':
                self.close()
            return
        if isinstance(msg, M.GetPeerAddress.Request):
            ip, port, oport = srv.addresses.get(msg.username, ('0.0.0.0', 0, 0))
            self.send(M.GetPeerAddress.Response(msg.username, ip, port, obfuscated_port_amount=1 if oport else 0,
                                                obfuscated_port=oport))
            return
        if isinstance(msg, M.ConnectToPeer.Request) and srv.relay_connect_to_peer:
            tgt = srv.session_of(msg.username)
            me = srv.addresses.get(self.username or '', ('0.0.0.0', 0, 0))
            if tgt is not None:
                tgt.send(M.ConnectToPeer.Response(self.username, msg.typ, me[0], me[1], msg.ticket, False,
                                                  obfuscated_port_amount=1 if me[2] else 0, obfuscated_port=me[2]))
            return
        if isinstance(msg, M.CannotConnect.Request) and srv.relay_connect_to_peer:
            tgt = srv.session_of(msg.username) if msg.username else None
            if tgt is not None:
                tgt.send(M.CannotConnect.Response(msg.ticket))
            return


class ScriptedPeer:
    """A peer written in the harness: listens on a port and/or dials the client."""

    def __init__(self, net: SimNet, username: str, port: int = 0):
        from aioslsk.protocol import messages as M
        self.M = M
        self.net = net
        self.username = username
        self.port = port
        self.accepted: list[Endpoint] = []
        self.on_accept: Optional[Callable[[Endpoint], Any]] = None
        self._handle = None

    async def listen(self):
        self._handle = await self.net.start_server(self._accept, '0.0.0.0', self.port)
        return self

    def stop_listening(self):
        if self._handle:
            self._handle.close()

    async def _accept(self, reader, writer):
        ep = Endpoint(reader, writer, writer.link)
        self.accepted.append(ep)
        if self.on_accept:
            res = self.on_accept(ep)
            if asyncio.iscoroutine(res):
                await res

    async def dial(self, port: int, typ: str = 'P', ticket: int = 0, init: bool = True,
                   obfuscated: bool = False) -> Endpoint:
        ep = await self.net.dial(port)
        if init:
            ep.send_message(self.M.PeerInit.Request(self.username, typ, ticket), obfuscated=obfuscated)
        return ep

    async def pierce(self, port: int, ticket: int, obfuscated: bool = False) -> Endpoint:
        ep = await self.net.dial(port)
        ep.send_message(self.M.PeerPierceFirewall.Request(ticket), obfuscated=obfuscated)
        return ep


def make_settings(username: str = 'me', *, port: int = 61000, obfuscated_port: int = 61001,
                  download_dir: Optional[str] = None, shared: Optional[list] = None, **overrides):
    """Settings for a client on the SimNet. `overrides` are top-level Settings fields as dicts."""
    from aioslsk.settings import Settings
    base: dict[str, Any] = dict(
        credentials=dict(username=username, password='pw'),
        network=dict(
            server=dict(hostname=SERVER_HOST, port=SERVER_PORT, reconnect=dict(auto=False, timeout=10)),
            listening=dict(port=port, obfuscated_port=obfuscated_port),
            upnp=dict(enabled=False),
            peer=dict(obfuscate=False, connect_mode='fallback'),
        ),
        shares=dict(scan_on_start=False, download=download_dir or os.getcwd(), directories=shared or []),
    )

    def merge(a, b):
        for k, v in b.items():
            if isinstance(v, dict) and isinstance(a.get(k), dict):
                merge(a[k], v)
            else:
                a[k] = v
    merge(base, overrides)
    return Settings(**base)


def make_client(settings, **kw):
    from aioslsk.client import SoulSeekClient
    return SoulSeekClient(settings, **kw)


class BusRecorder:
    """Records events from an EventBus.  The bus holds listeners weakly, so the recorder keeps
    strong references to its bound callbacks."""

    def __init__(self, bus, *event_classes, project: Optional[Callable] = None):
        self.events: list[Any] = []
        self._cbs = []
        self.project = project
        for ec in event_classes:
            cb = self._make(ec)
            self._cbs.append(cb)
            bus.register(ec, cb)

    def _make(self, ec):
        def cb(event):
            self.events.append(self.project(event) if self.project else event)
        return cb

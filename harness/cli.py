"""./check <Cxx> ...  dispatches to harness.props.<cxx>.run(chk, args)."""
import importlib
import sys

from .core import main_for


def main():
    if len(sys.argv) < 2:
        print('usage: check <property-id> [--tier quick|thorough] [--seed N]')
        return 2
    pid = sys.argv[1].upper()
    try:
        mod = importlib.import_module(f'harness.props.{pid.lower()}')
    except ModuleNotFoundError as exc:
        print(f'no check for {pid}: {exc}')
        return 2
    return main_for(pid, mod.run, sys.argv[2:], replay_fn=getattr(mod, 'replay', None))


if __name__ == '__main__':
    sys.exit(main())
